//! Target `codecs_scale`: round trips of VALUES WHOSE ENCODINGS CROSS THE
//! THRESHOLDS of the lib0 v1/v2 formats (run lengths of every v2 column,
//! var-int widths of lengths / counts / clocks / client ids, nesting depth).
//! The values are built through the public API from a compact RECIPE
//! (`scenario`, `n`, `opt`); a witness line carries the recipe, `replay`
//! rebuilds the value from it. See README.md ("Scale target").

use crate::dec::{any_decode_v2, any_encode_v1, any_encode_v2, any_eq, hex, var_uint};
use crate::ext::{at, current_api, Ctx, Runner, XCase, XStop};
use crate::json::J;
use crate::model::Failure;
use std::cell::RefCell;
use std::collections::{BTreeMap, BTreeSet, HashMap};
use std::panic::{catch_unwind, AssertUnwindSafe};
use std::sync::Arc;
use std::time::Instant;
use yrs::block::BlockRange;
use yrs::encoding::read::Cursor;
use yrs::sync::awareness::AwarenessUpdateEntry;
use yrs::sync::{Awareness, AwarenessUpdate, Message, SyncMessage};
use yrs::types::text::YChange;
use yrs::types::{Attrs, ToJson};
use yrs::updates::decoder::Decode;
use yrs::updates::encoder::Encode;
use yrs::{
    Any, Array, ArrayPrelim, ArrayRef, Assoc, ClientID, ContentAttribute, Doc, GetString, IdMap, IdSet, IndexScope,
    IndexedSequence, Map, MapPrelim, MapRef, OffsetKind, Options, Out, ReadTxn, Snapshot, StateVector, StickyIndex,
    Text, TextPrelim, TextRef, Transact, Update, Xml, XmlElementPrelim, XmlFragment, XmlFragmentRef, XmlTextPrelim,
    ID,
};

pub const TARGET: &str = "codecs_scale";

/// Stack of the thread a case runs on (deeply nested `Any` values: encode,
/// decode, compare, drop are all recursive).
const STACK: usize = 64 << 20;

const MAX_CLIENT: u64 = (1 << 53) - 1;
/// First client id of the documents that receive updates.
const RECEIVER: u64 = 9_000_001;
/// The merged form of an update is applied to a receiver of its own up to this size (bytes);
/// above, it is only decoded and compared with the v2 merge.
const MERGE_RECEIVER_LIMIT: usize = 64 << 10;

fn cid(c: u64) -> ClientID {
    ClientID::new(c)
}

// ---------------------------------------------------------------------------
// reporting helpers (a witness line stays small whatever the size of the value)
// ---------------------------------------------------------------------------

fn bad(why: &str, expected: impl Into<String>, actual: impl Into<String>) -> Failure {
    Failure {
        why: why.to_string(),
        expected: J::Str(expected.into()),
        actual: J::Str(actual.into()),
        api: current_api(),
    }
}

const MISMATCH: &str = "round trip mismatch";
const BUILT: &str = "the value does not read back as it was built";

/// At most ~160 characters of `s`.
fn brief(s: &str) -> String {
    let count = s.chars().count();
    if count <= 160 {
        return s.to_string();
    }
    let head: String = s.chars().take(100).collect();
    let tail: String = s.chars().skip(count - 40).collect();
    format!("{} .. {} ({} chars, {} bytes)", head, tail, count, s.len())
}

fn show_bytes(b: &[u8]) -> String {
    if b.len() <= 48 {
        format!("{} ({} bytes)", hex(b), b.len())
    } else {
        format!("{}..{} ({} bytes)", hex(&b[..32]), hex(&b[b.len() - 8..]), b.len())
    }
}

/// Two byte strings that should be equal: where they part.
fn diff_bytes(a: &[u8], b: &[u8]) -> (String, String) {
    let i = a.iter().zip(b.iter()).position(|(x, y)| x != y).unwrap_or(a.len().min(b.len()));
    let win = |x: &[u8]| {
        let s = i.saturating_sub(8);
        let e = (i + 16).min(x.len());
        format!("{} bytes, from offset {}: {}", x.len(), s, hex(&x[s.min(x.len())..e]))
    };
    (win(a), format!("{} (first difference at offset {})", win(b), i))
}

fn diff_str(a: &str, b: &str) -> (String, String) {
    let i = a.chars().zip(b.chars()).position(|(x, y)| x != y).unwrap_or(a.chars().count().min(b.chars().count()));
    let win = |x: &str| {
        let s: String = x.chars().skip(i.saturating_sub(10)).take(40).collect();
        format!("{} chars, around char {}: {:?}", x.chars().count(), i, s)
    };
    (win(a), win(b))
}

// ---------------------------------------------------------------------------
// v2 column statistics (hidden subcommand `scale-cover`: which run lengths and
// magnitudes the enumeration really reaches in each column)
// ---------------------------------------------------------------------------

#[derive(Default)]
pub struct Cover {
    /// column -> coded run counts seen (count - 1 for the Rle columns, count - 2 for the others)
    pub counts: BTreeMap<&'static str, BTreeSet<u64>>,
    /// column -> magnitudes of the coded values seen
    pub values: BTreeMap<&'static str, BTreeSet<u64>>,
}

thread_local! {
    static COVER: RefCell<Option<Cover>> = RefCell::new(None);
}

const COLUMNS: [&str; 9] = [
    "key_clock",
    "client",
    "left_clock",
    "right_clock",
    "info",
    "string",
    "parent_info",
    "type_ref",
    "len",
];

fn rd_uint(b: &[u8], i: &mut usize) -> Option<u64> {
    let mut v = 0u64;
    let mut shift = 0;
    loop {
        let x = *b.get(*i)?;
        *i += 1;
        v |= ((x & 0x7f) as u64) << shift;
        if x < 0x80 {
            return Some(v);
        }
        shift += 7;
        if shift > 63 {
            return None;
        }
    }
}

/// `(magnitude, negative)` of a lib0 signed var-int.
fn rd_int(b: &[u8], i: &mut usize) -> Option<(u64, bool)> {
    let x = *b.get(*i)?;
    *i += 1;
    let neg = x & 0x40 != 0;
    let mut v = (x & 0x3f) as u64;
    let mut shift = 6;
    let mut more = x & 0x80 != 0;
    while more {
        let x = *b.get(*i)?;
        *i += 1;
        v |= ((x & 0x7f) as u64) << shift;
        shift += 7;
        more = x & 0x80 != 0;
        if shift > 70 {
            return None;
        }
    }
    Some((v, neg))
}

fn cover_note(v2: &[u8]) {
    COVER.with(|c| {
        let mut c = c.borrow_mut();
        let cover = match c.as_mut() {
            Some(c) => c,
            None => return,
        };
        let mut i = 1usize;
        for col in COLUMNS {
            let len = match rd_uint(v2, &mut i) {
                Some(l) => l as usize,
                None => return,
            };
            if i + len > v2.len() {
                return;
            }
            let buf = &v2[i..i + len];
            i += len;
            let counts = cover.counts.entry(col).or_default();
            let mut j = 0usize;
            let mut vals: Vec<u64> = Vec::new();
            match col {
                "info" | "parent_info" => {
                    while j < buf.len() {
                        j += 1;
                        if j < buf.len() {
                            match rd_uint(buf, &mut j) {
                                Some(n) => {
                                    counts.insert(n);
                                }
                                None => break,
                            }
                        }
                    }
                }
                "key_clock" | "left_clock" | "right_clock" => {
                    while j < buf.len() {
                        match rd_int(buf, &mut j) {
                            Some((m, _)) => {
                                vals.push(m);
                                if m & 1 == 1 {
                                    match rd_uint(buf, &mut j) {
                                        Some(n) => {
                                            counts.insert(n);
                                        }
                                        None => break,
                                    }
                                }
                            }
                            None => break,
                        }
                    }
                }
                _ => {
                    if col == "string" {
                        // the concatenated text first, then the lengths
                        match rd_uint(buf, &mut j) {
                            Some(n) => {
                                vals.push(n);
                                j += n as usize;
                            }
                            None => {}
                        }
                    }
                    while j < buf.len() {
                        match rd_int(buf, &mut j) {
                            Some((m, neg)) => {
                                vals.push(m);
                                if neg {
                                    match rd_uint(buf, &mut j) {
                                        Some(n) => {
                                            counts.insert(n);
                                        }
                                        None => break,
                                    }
                                }
                            }
                            None => break,
                        }
                    }
                }
            }
            cover.values.entry(col).or_default().extend(vals);
        }
    });
}

// ---------------------------------------------------------------------------
// value-level round trips
// ---------------------------------------------------------------------------

/// `decode_v1(encode_v1(x)) == x`, `decode_v2(encode_v2(x)) == x`, and the
/// chain v1 -> v2 -> v1 gives `x` again. `show` renders a value for the report.
fn round_trip<T>(name: &str, x: &T, show: &dyn Fn(&T) -> String) -> Result<(), Failure>
where
    T: Encode + Decode + PartialEq,
{
    let step = |from: &T, v2: bool, chain: &str| -> Result<T, Failure> {
        let v = if v2 { 2 } else { 1 };
        at(&format!("{}::encode_v{}{}", name, v, chain));
        let bytes = if v2 { from.encode_v2() } else { from.encode_v1() };
        at(&format!("{n}::decode_v{v}({n}::encode_v{v}(x)){c}", n = name, v = v, c = chain));
        let back = if v2 { T::decode_v2(&bytes) } else { T::decode_v1(&bytes) };
        match back {
            Err(e) => Err(bad(MISMATCH, brief(&show(x)), format!("Err({}) for the bytes {}", e, show_bytes(&bytes)))),
            Ok(y) => {
                if y != *x {
                    Err(bad(
                        MISMATCH,
                        brief(&show(x)),
                        format!("{} from the bytes {}", brief(&show(&y)), show_bytes(&bytes)),
                    ))
                } else {
                    Ok(y)
                }
            }
        }
    };
    let y1 = step(x, false, "")?;
    step(x, true, "")?;
    let y2 = step(&y1, true, " of the value decoded from v1")?;
    step(&y2, false, " of the value decoded from v1 and then from v2")?;
    Ok(())
}

fn read_sv(sv: &StateVector) -> Vec<(u64, u32)> {
    let mut v: Vec<(u64, u32)> = sv.iter().map(|(c, k)| (c.get(), *k)).collect();
    v.sort();
    v
}

type SetSpec = Vec<(u64, Vec<(u32, u32)>)>;

fn read_set(s: &IdSet) -> SetSpec {
    let mut v: SetSpec = s
        .iter()
        .map(|(c, r)| (c.get(), r.iter().map(|x| (x.start, x.end)).collect()))
        .collect();
    v.sort();
    v
}

fn show_sv(sv: &StateVector) -> String {
    format!("{:?}", read_sv(sv))
}

fn show_set(s: &IdSet) -> String {
    format!("{:?}", read_set(s))
}

fn show_snapshot(s: &Snapshot) -> String {
    format!("state {:?} deleted {:?}", read_sv(&s.state_map), read_set(&s.delete_set))
}

fn show_aw(u: &AwarenessUpdate) -> String {
    let mut r: Vec<(u64, u32, String)> = u.clients.iter().map(|(c, e)| (c.get(), e.clock, brief(&e.json))).collect();
    r.sort();
    format!("{:?}", r)
}

fn run_any(x: &Any) -> Result<(), Failure> {
    let show = |a: &Any| brief(&format!("{:?}", a));
    at("Any::encode(&mut EncoderV1)");
    let e1 = any_encode_v1(x);
    at("Any::decode(&mut Cursor) of Any::encode(&mut EncoderV1)");
    let y = match Any::decode(&mut Cursor::new(&e1)) {
        Ok(y) if any_eq(&y, x) => y,
        Ok(y) => return Err(bad(MISMATCH, show(x), format!("{} from the bytes {}", show(&y), show_bytes(&e1)))),
        Err(e) => return Err(bad(MISMATCH, show(x), format!("Err({}) for the bytes {}", e, show_bytes(&e1)))),
    };
    at("EncoderV2::write_any");
    let e2 = any_encode_v2(&y);
    at("DecoderV2::read_any of EncoderV2::write_any");
    match any_decode_v2(&e2) {
        Ok(z) if any_eq(&z, x) => {
            at("Any::encode(&mut EncoderV1) of the value decoded from v2");
            let again = any_encode_v1(&z);
            // (a map is written in HashMap order: compare the values, not the bytes)
            match Any::decode(&mut Cursor::new(&again)) {
                Ok(w) if any_eq(&w, x) => {}
                Ok(w) => return Err(bad(MISMATCH, show(x), show(&w))),
                Err(e) => return Err(bad(MISMATCH, show(x), format!("Err({})", e))),
            }
        }
        Ok(z) => return Err(bad(MISMATCH, show(x), format!("{} from the bytes {}", show(&z), show_bytes(&e2)))),
        Err(e) => return Err(bad(MISMATCH, show(x), format!("Err({}) for the bytes {}", e, show_bytes(&e2)))),
    }
    Ok(())
}

// ---------------------------------------------------------------------------
// documents: what a document shows
// ---------------------------------------------------------------------------

#[derive(Clone, Copy, Debug, PartialEq)]
enum Kind {
    Text,
    Map,
    Array,
    Xml,
}

type Roots = Vec<(String, Kind)>;

fn roots(list: &[(&str, Kind)]) -> Roots {
    list.iter().map(|(n, k)| (n.to_string(), *k)).collect()
}

enum RootVal {
    /// the string and the formatted chunks (`insert`, sorted attributes)
    Text(String, Vec<(String, Vec<(String, String)>)>),
    Json(Any),
    Xml(String),
}

struct Facts {
    sv: Vec<(u64, u32)>,
    ds: SetSpec,
    pending: bool,
    roots: Vec<(String, RootVal, u32)>,
}

fn options(client: u64, gc: bool) -> Options {
    let mut o = Options::with_client_id(cid(client));
    o.guid = format!("vx-scale-{}", client).as_str().into();
    o.skip_gc = !gc;
    // clocks are UTF-16 units; with byte offsets `StickyIndex::get_offset` is known to mix units
    o.offset_kind = OffsetKind::Utf16;
    o
}

fn new_doc(client: u64, gc: bool) -> Doc {
    Doc::with_options(options(client, gc))
}

enum RootRef {
    Text(TextRef),
    Map(MapRef),
    Array(ArrayRef),
    Xml(XmlFragmentRef),
}

fn declare(doc: &Doc, roots: &Roots) -> Vec<RootRef> {
    roots
        .iter()
        .map(|(name, kind)| match kind {
            Kind::Text => RootRef::Text(doc.get_or_insert_text(name.as_str())),
            Kind::Map => RootRef::Map(doc.get_or_insert_map(name.as_str())),
            Kind::Array => RootRef::Array(doc.get_or_insert_array(name.as_str())),
            Kind::Xml => RootRef::Xml(doc.get_or_insert_xml_fragment(name.as_str())),
        })
        .collect()
}

fn facts(doc: &Doc, roots: &Roots) -> Facts {
    at("Doc::get_or_insert_* of the root types");
    let refs = declare(doc, roots);
    let txn = doc.transact();
    at("ReadTxn::snapshot");
    let snap = txn.snapshot();
    let mut out = Vec::new();
    for ((name, _), r) in roots.iter().zip(refs.iter()) {
        let (val, len) = match r {
            RootRef::Text(t) => {
                at("GetString::get_string of a root text");
                let s = t.get_string(&txn);
                at("Text::diff of a root text");
                let chunks = t
                    .diff(&txn, YChange::identity)
                    .into_iter()
                    .map(|d| {
                        let ins = match &d.insert {
                            Out::Any(Any::String(s)) => s.to_string(),
                            other => format!("{:?}", other),
                        };
                        let mut attrs: Vec<(String, String)> = d
                            .attributes
                            .map(|a| a.iter().map(|(k, v)| (k.to_string(), format!("{:?}", v))).collect())
                            .unwrap_or_default();
                        attrs.sort();
                        (ins, attrs)
                    })
                    .collect();
                (RootVal::Text(s, chunks), t.len(&txn))
            }
            RootRef::Map(m) => {
                at("ToJson::to_json of a root map");
                (RootVal::Json(m.to_json(&txn)), m.len(&txn))
            }
            RootRef::Array(a) => {
                at("ToJson::to_json of a root array");
                (RootVal::Json(a.to_json(&txn)), a.len(&txn))
            }
            RootRef::Xml(x) => {
                at("GetString::get_string of a root XML fragment");
                (RootVal::Xml(x.get_string(&txn)), x.len(&txn))
            }
        };
        out.push((name.clone(), val, len));
    }
    Facts {
        sv: read_sv(&snap.state_map),
        ds: read_set(&snap.delete_set),
        pending: txn.has_missing_updates(),
        roots: out,
    }
}

/// `None` if both documents show the same; otherwise what differs.
fn facts_differ(want: &Facts, got: &Facts) -> Option<(String, String, String)> {
    if want.sv != got.sv {
        return Some(("state vector".into(), brief(&format!("{:?}", want.sv)), brief(&format!("{:?}", got.sv))));
    }
    if want.ds != got.ds {
        return Some(("delete set".into(), brief(&format!("{:?}", want.ds)), brief(&format!("{:?}", got.ds))));
    }
    if want.pending != got.pending {
        return Some((
            "pending updates".into(),
            format!("has_missing_updates() = {}", want.pending),
            format!("has_missing_updates() = {}", got.pending),
        ));
    }
    for ((name, a, la), (_, b, lb)) in want.roots.iter().zip(got.roots.iter()) {
        let what = format!("root {:?}", brief(name));
        if la != lb {
            return Some((format!("length of {}", what), la.to_string(), lb.to_string()));
        }
        match (a, b) {
            (RootVal::Text(s, c), RootVal::Text(t, d)) => {
                if s != t {
                    let (x, y) = diff_str(s, t);
                    return Some((format!("text of {}", what), x, y));
                }
                if c != d {
                    let i = c.iter().zip(d.iter()).position(|(x, y)| x != y).unwrap_or(c.len().min(d.len()));
                    let show = |v: &Vec<(String, Vec<(String, String)>)>| {
                        format!("{} chunks, chunk {}: {}", v.len(), i, brief(&format!("{:?}", v.get(i))))
                    };
                    return Some((format!("formatted chunks of {}", what), show(c), show(d)));
                }
            }
            (RootVal::Json(x), RootVal::Json(y)) => {
                if !any_eq(x, y) {
                    return Some((format!("JSON of {}", what), brief(&format!("{:?}", x)), brief(&format!("{:?}", y))));
                }
            }
            (RootVal::Xml(s), RootVal::Xml(t)) => {
                if s != t {
                    let (x, y) = diff_str(s, t);
                    return Some((format!("XML string of {}", what), x, y));
                }
            }
            _ => return Some((what, "the same kind of root".into(), "another kind".into())),
        }
    }
    None
}

// ---------------------------------------------------------------------------
// documents: the checks on an update in both encodings
// ---------------------------------------------------------------------------

#[derive(Clone, Copy, Debug)]
struct Sticky {
    /// index into the roots
    root: usize,
    index: u32,
    assoc: Assoc,
}

struct Pipe<'a> {
    /// The update as its producer wrote it, v1 and v2.
    v1: &'a [u8],
    v2: &'a [u8],
    roots: &'a Roots,
    gc: bool,
    /// v1 updates a receiver applies before / after the update under test.
    pre: &'a [Vec<u8>],
    post: &'a [Vec<u8>],
    /// What every receiver must show in the end, if known (the source document).
    want: Option<&'a Facts>,
    /// The state vector the update must report, if known.
    want_sv: Option<&'a Vec<(u64, u32)>>,
    /// The update holds an `Any` map of several keys (written in `HashMap` order, which differs
    /// from instance to instance): encodings are compared up to the order of their bytes.
    unordered: bool,
}

/// Equal, or (`unordered`) the same bytes in another order.
fn same(a: &[u8], b: &[u8], unordered: bool) -> bool {
    if a == b {
        return true;
    }
    if !unordered || a.len() != b.len() {
        return false;
    }
    let (mut x, mut y) = (a.to_vec(), b.to_vec());
    x.sort_unstable();
    y.sort_unstable();
    x == y
}

fn dec1(b: &[u8], what: &str) -> Result<Update, Failure> {
    at(&format!("Update::decode_v1({})", what));
    Update::decode_v1(b).map_err(|e| bad(MISMATCH, "Ok", format!("Err({}) for {}", e, show_bytes(b))))
}

fn dec2(b: &[u8], what: &str) -> Result<Update, Failure> {
    at(&format!("Update::decode_v2({})", what));
    Update::decode_v2(b).map_err(|e| bad(MISMATCH, "Ok", format!("Err({}) for {}", e, show_bytes(b))))
}

fn apply(d: &Doc, u: Update, what: &str) -> Result<(), Failure> {
    at(&format!("TransactionMut::apply_update of {}", what));
    d.transact_mut()
        .apply_update(u)
        .map_err(|e| bad(MISMATCH, "Ok", format!("Err({})", e)))
}

fn receive(p: &Pipe, u: Update, slot: u64, what: &str) -> Result<(Facts, Vec<u8>, Doc), Failure> {
    let d = new_doc(RECEIVER + slot, p.gc);
    declare(&d, p.roots);
    for pre in p.pre {
        apply(&d, dec1(pre, "an earlier update of the source")?, "an earlier update of the source")?;
    }
    apply(&d, u, &format!("the update decoded from {}", what))?;
    for post in p.post {
        apply(&d, dec1(post, "a later update of the source")?, "a later update of the source")?;
    }
    let f = facts(&d, p.roots);
    at("ReadTxn::encode_state_as_update_v1 of a receiver");
    let state = d.transact().encode_state_as_update_v1(&StateVector::default());
    Ok((f, state, d))
}

/// Returns the receivers of the v1 form and of the v2 form.
fn check_pipe(p: &Pipe) -> Result<(Doc, Doc), Failure> {
    cover_note(p.v2);
    let u1 = dec1(p.v1, "the v1 bytes of the source")?;
    let u2 = dec2(p.v2, "the v2 bytes of the source")?;
    at("Update::encode_v1 of Update::decode_v1(v1 bytes)");
    let e1 = u1.encode_v1();
    at("Update::encode_v1 of Update::decode_v2(v2 bytes)");
    let e21 = u2.encode_v1();
    if !same(&e1, &e21, p.unordered) || u1 != u2 {
        let (x, y) = diff_bytes(&e1, &e21);
        return Err(bad(
            "round trip mismatch: the v2 encoding decodes to a different update than the v1 encoding",
            format!("re-encoded in v1: {}", x),
            format!("re-encoded in v1: {}", y),
        ));
    }
    let w = dec1(&e1, "Update::encode_v1(u)")?;
    at("Update::encode_v1 of Update::decode_v1(Update::encode_v1(u))");
    let again = w.encode_v1();
    if !same(&again, &e1, p.unordered) || w != u1 {
        let (x, y) = diff_bytes(&e1, &again);
        return Err(bad(MISMATCH, x, y));
    }
    drop(w);
    at("Update::encode_v2 of Update::decode_v1(v1 bytes)");
    let e2 = u1.encode_v2();
    cover_note(&e2);
    let w2 = dec2(&e2, "Update::encode_v2(Update::decode_v1(v1 bytes))")?;
    at("Update::encode_v1 of Update::decode_v2(Update::encode_v2(Update::decode_v1(v1 bytes)))");
    let back = w2.encode_v1();
    if !same(&back, &e1, p.unordered) || w2 != u1 {
        let (x, y) = diff_bytes(&e1, &back);
        return Err(bad(
            "round trip mismatch: v1 -> v2 -> v1 re-encoding",
            x,
            format!("{} (v2 bytes: {})", y, show_bytes(&e2)),
        ));
    }
    at("Update::encode_v2 of Update::decode_v2(v2 bytes)");
    let e22 = u2.encode_v2();
    if !same(&e22, &e2, p.unordered) {
        let (x, y) = diff_bytes(&e2, &e22);
        return Err(bad("round trip mismatch: equal updates encode differently in v2", x, y));
    }
    // the state vector an update reports
    at("Update::state_vector");
    let sv = read_sv(&u1.state_vector());
    at("yrs::encode_state_vector_from_update_v1 / _v2");
    let sv1 = yrs::encode_state_vector_from_update_v1(p.v1)
        .and_then(|b| StateVector::decode_v1(&b))
        .map_err(|e| bad(MISMATCH, "Ok", format!("Err({})", e)))?;
    let sv2 = yrs::encode_state_vector_from_update_v2(p.v2)
        .and_then(|b| StateVector::decode_v2(&b))
        .map_err(|e| bad(MISMATCH, "Ok", format!("Err({})", e)))?;
    let want_sv = p.want_sv.unwrap_or(&sv);
    if read_sv(&sv1) != *want_sv || read_sv(&sv2) != *want_sv || sv != *want_sv {
        return Err(bad(
            "round trip mismatch: state vector of the update",
            brief(&format!("{:?}", want_sv)),
            brief(&format!("Update::state_vector {:?}, from v1 {:?}, from v2 {:?}", sv, read_sv(&sv1), read_sv(&sv2))),
        ));
    }
    // merged with nothing
    at("yrs::merge_updates_v1(&[v1 bytes])");
    let m1 = yrs::merge_updates_v1(&[p.v1]).map_err(|e| bad(MISMATCH, "Ok", format!("Err({})", e)))?;
    at("yrs::merge_updates_v2(&[v2 bytes])");
    let m2 = yrs::merge_updates_v2(&[p.v2]).map_err(|e| bad(MISMATCH, "Ok", format!("Err({})", e)))?;
    let um1 = dec1(&m1, "yrs::merge_updates_v1(&[v1 bytes])")?;
    let um2 = dec2(&m2, "yrs::merge_updates_v2(&[v2 bytes])")?;
    at("Update::encode_v1 of the merged updates");
    let (me1, me2) = (um1.encode_v1(), um2.encode_v1());
    if !same(&me1, &me2, p.unordered) {
        let (x, y) = diff_bytes(&me1, &me2);
        return Err(bad("round trip mismatch: merge_updates_v1 and merge_updates_v2 disagree", x, y));
    }
    drop(um2);
    // receivers
    let (fa, sa, da) = receive(p, u1, 0, "the v1 bytes")?;
    let (fb, sb, db) = receive(p, u2, 1, "the v2 bytes")?;
    let mut others = vec![("the v2 form", fb, sb)];
    if p.v1.len() <= MERGE_RECEIVER_LIMIT {
        // (both are byte-for-byte the update of the v1 form by now: small updates only)
        let (fc, sc, _dc) = receive(p, w2, 2, "the v2 re-encoding of the v1 bytes")?;
        others.push(("the v2 re-encoding of the v1 form", fc, sc));
        let (fm, sm, _dm) = receive(p, um1, 3, "merge_updates_v1(&[v1 bytes])")?;
        others.push(("the merged v1 form", fm, sm));
    }
    at("documents that applied the v1 form / the v2 form of the update");
    for (what, f, s) in others.iter() {
        if let Some((field, x, y)) = facts_differ(&fa, f) {
            return Err(bad(
                &format!("round trip mismatch: the receiver of {} differs from the receiver of the v1 form ({})", what, field),
                x,
                y,
            ));
        }
        if !same(s, &sa, p.unordered) {
            let (x, y) = diff_bytes(&sa, s);
            return Err(bad(
                &format!("round trip mismatch: the receiver of {} encodes another state than the receiver of the v1 form", what),
                x,
                y,
            ));
        }
    }
    if let Some(want) = p.want {
        at("a document that applied the v1 form of the update, against the source");
        if let Some((field, x, y)) = facts_differ(want, &fa) {
            return Err(bad(
                &format!("round trip mismatch: the receivers differ from the source ({})", field),
                x,
                y,
            ));
        }
    }
    Ok((da, db))
}

/// A document built by a scenario, and what to check on it.
struct Built {
    doc: Doc,
    gc: bool,
    roots: Roots,
    /// Expected length of every root (`u32::MAX`: not predicted).
    lens: Vec<u32>,
    stickies: Vec<Sticky>,
    /// The update is taken against this state; a receiver applies `pre` first.
    base: StateVector,
    pre: Vec<Vec<u8>>,
    /// See `Pipe::unordered`.
    unordered: bool,
}

impl Built {
    fn new(doc: Doc, gc: bool, roots: Roots, lens: Vec<u32>) -> Built {
        Built {
            doc,
            gc,
            roots,
            lens,
            stickies: Vec::new(),
            base: StateVector::default(),
            pre: Vec::new(),
            unordered: false,
        }
    }
}

fn sticky_of(doc: &Doc, root: &RootRef, s: &Sticky) -> Option<StickyIndex> {
    let txn = doc.transact();
    match root {
        RootRef::Text(t) => t.sticky_index(&txn, s.index, s.assoc),
        RootRef::Array(a) => a.sticky_index(&txn, s.index, s.assoc),
        RootRef::Xml(x) => x.sticky_index(&txn, s.index, s.assoc),
        RootRef::Map(_) => None,
    }
}

fn check_built(b: &Built) -> Result<(), Failure> {
    let src = facts(&b.doc, &b.roots);
    for ((name, _, len), want) in src.roots.iter().zip(b.lens.iter()) {
        if *want != u32::MAX && len != want {
            at("building the document through the public API");
            return Err(bad(BUILT, format!("root {:?} of length {}", brief(name), want), format!("length {}", len)));
        }
    }
    if src.pending {
        at("building the document through the public API");
        return Err(bad(BUILT, "no pending updates", "has_missing_updates()"));
    }
    let (v1, v2, snap) = {
        let txn = b.doc.transact();
        at("ReadTxn::encode_state_as_update_v1");
        let v1 = txn.encode_state_as_update_v1(&b.base);
        at("ReadTxn::encode_state_as_update_v2");
        let v2 = txn.encode_state_as_update_v2(&b.base);
        at("ReadTxn::encode_diff_v1 / encode_diff_v2");
        let (d1, d2) = (txn.encode_diff_v1(&b.base), txn.encode_diff_v2(&b.base));
        if d1 != v1 || d2 != v2 {
            let (x, y) = if d1 != v1 { diff_bytes(&v1, &d1) } else { diff_bytes(&v2, &d2) };
            return Err(bad(
                "round trip mismatch: encode_diff and encode_state_as_update differ for a document without pending updates",
                x,
                y,
            ));
        }
        at("ReadTxn::snapshot");
        (v1, v2, txn.snapshot())
    };
    let full = b.base == StateVector::default();
    let (da, db) = check_pipe(&Pipe {
        v1: &v1,
        v2: &v2,
        roots: &b.roots,
        gc: b.gc,
        pre: &b.pre,
        post: &[],
        want: Some(&src),
        want_sv: if full { Some(&src.sv) } else { None },
        unordered: b.unordered,
    })?;
    round_trip("Snapshot", &snap, &show_snapshot)?;
    round_trip("StateVector", &snap.state_map, &show_sv)?;
    round_trip("IdSet", &snap.delete_set, &show_set)?;
    // sticky indexes of the source, decoded, resolve to the same place everywhere
    if !b.stickies.is_empty() {
        let src_refs = declare(&b.doc, &b.roots);
        let (ra, rb) = (declare(&da, &b.roots), declare(&db, &b.roots));
        let _ = (&ra, &rb);
        for s in &b.stickies {
            at("IndexedSequence::sticky_index on the source");
            let st = match sticky_of(&b.doc, &src_refs[s.root], s) {
                Some(st) => st,
                None => return Err(bad(BUILT, format!("a sticky index at {:?}", s), "None")),
            };
            let show = |x: &StickyIndex| format!("{:?} {:?}", x.scope(), x.assoc);
            round_trip("StickyIndex", &st, &show)?;
            at("StickyIndex::decode_v2(StickyIndex::encode_v2(s))");
            let back = StickyIndex::decode_v2(&st.encode_v2()).map_err(|e| bad(MISMATCH, show(&st), format!("Err({})", e)))?;
            for (what, d) in [("the source", &b.doc), ("the receiver of the v1 form", &da), ("the receiver of the v2 form", &db)] {
                at(&format!("StickyIndex::get_offset on {}", what));
                let txn = d.transact();
                let got = back.get_offset(&txn).map(|o| (o.index, o.assoc));
                if got != Some((s.index, s.assoc)) {
                    let why = if what == "the source" { BUILT } else { MISMATCH };
                    return Err(bad(
                        why,
                        format!("{} resolves to index {} ({:?}) on {}", show(&st), s.index, s.assoc, what),
                        format!("{:?}", got),
                    ));
                }
            }
        }
    }
    Ok(())
}

// ---------------------------------------------------------------------------
// scenario material
// ---------------------------------------------------------------------------

/// A string of exactly `n` UTF-16 units; the letters cycle so that a cut in the
/// wrong place changes the text.
fn units(n: u64, flavour: &str) -> String {
    let ascii = |k: u64, from: u64| -> String { (0..k).map(|i| (b'a' + ((from + i) % 26) as u8) as char).collect() };
    match flavour {
        "astral_end" if n >= 2 => format!("{}😀", ascii(n - 2, 0)),
        "astral_start" if n >= 2 => format!("😀{}", ascii(n - 2, 0)),
        "astral_all" => {
            let mut s: String = (0..n / 2).map(|i| if i % 2 == 0 { '😀' } else { '🎉' }).collect();
            if n % 2 == 1 {
                s.push('z');
            }
            s
        }
        "bmp2" => (0..n).map(|i| if i % 2 == 0 { 'é' } else { 'ü' }).collect(),
        "bmp3" => (0..n).map(|i| if i % 2 == 0 { '€' } else { '語' }).collect(),
        _ => ascii(n, 0),
    }
}

fn tool<T, E: std::fmt::Display>(r: Result<T, E>, what: &str) -> T {
    match r {
        Ok(v) => v,
        Err(e) => panic!("tool error while {}: {}", what, e),
    }
}

fn build() {
    at("building the document through the public API");
}

fn end_stickies(root: usize, len: u32) -> Vec<Sticky> {
    let mut v = vec![Sticky {
        root,
        index: len,
        assoc: Assoc::Before,
    }];
    if len >= 1 {
        v.push(Sticky {
            root,
            index: len - 1,
            assoc: Assoc::After,
        });
    }
    if len >= 2 {
        v.push(Sticky {
            root,
            index: len - 1,
            assoc: Assoc::Before,
        });
    }
    v
}

fn num(i: u64) -> Any {
    Any::Number(i as f64)
}

// ---------------------------------------------------------------------------
// document scenarios
// ---------------------------------------------------------------------------

/// A nested map, `n` entries of the root map with distinct keys, one entry of the nested map,
/// a text insert, all in one transaction (the last two close the parent-info and the info run).
fn s_map_keys(n: u64, opt: &str) -> Built {
    build();
    let gc = opt == "gc";
    let eq = opt == "eqlen";
    let name = if eq { "rootmp" } else { "m" };
    let d = new_doc(1, gc);
    let m = d.get_or_insert_map(name);
    let t = d.get_or_insert_text("t");
    {
        let mut txn = d.transact_mut();
        let inner = m.insert(&mut txn, "inner!", MapPrelim::default());
        for i in 0..n {
            let key = if eq { format!("k{:05}", i) } else { format!("k{}", i) };
            m.insert(&mut txn, key, num(i));
        }
        // same info byte as the entries, but its parent is named by id: closes the parent-info run
        inner.insert(&mut txn, "z", num(1));
        // another info byte: closes the info run
        t.insert(&mut txn, 0, "hello");
    }
    let mut b = Built::new(d, gc, roots(&[(name, Kind::Map), ("t", Kind::Text)]), vec![n as u32 + 1, 5]);
    b.stickies = end_stickies(1, 5);
    b
}

/// One key written `n` times in one transaction: the overwritten entries form one deleted block.
fn s_map_same_key(n: u64, opt: &str) -> Built {
    build();
    let gc = opt == "gc";
    let d = new_doc(1, gc);
    let m = d.get_or_insert_map("m");
    {
        let mut txn = d.transact_mut();
        for i in 0..n {
            m.insert(&mut txn, "k", num(i));
        }
    }
    Built::new(d, gc, roots(&[("m", Kind::Map)]), vec![if n > 0 { 1 } else { 0 }])
}

/// Two clients overwrite one key in turns, `n` times each: `2n` blocks that cannot be
/// squashed, each with an origin of the other client.
fn s_map_pingpong(n: u64, opt: &str) -> Built {
    build();
    let (ca, cb, gc) = match opt {
        "small_gc" => (1, 2, true),
        "u32" => ((1u64 << 32) - 1, 1u64 << 32, false),
        "u53" => (MAX_CLIENT - 1, MAX_CLIENT, false),
        _ => (1, 2, false),
    };
    let a = new_doc(ca, gc);
    let b = new_doc(cb, gc);
    let ma = a.get_or_insert_map("m");
    let mb = b.get_or_insert_map("m");
    for i in 0..n {
        let u = {
            let mut txn = a.transact_mut();
            ma.insert(&mut txn, "k", num(2 * i));
            txn.encode_update_v1()
        };
        tool(b.transact_mut().apply_update(tool(Update::decode_v1(&u), "decoding")), "applying");
        let u = {
            let mut txn = b.transact_mut();
            mb.insert(&mut txn, "k", num(2 * i + 1));
            txn.encode_update_v1()
        };
        tool(a.transact_mut().apply_update(tool(Update::decode_v1(&u), "decoding")), "applying");
    }
    Built::new(a, gc, roots(&[("m", Kind::Map)]), vec![if n > 0 { 1 } else { 0 }])
}

/// `n` single elements inserted at the front in one transaction: `n` blocks, right origins ascending.
fn s_push_front(n: u64, opt: &str) -> Built {
    build();
    let d = new_doc(1, false);
    if opt == "str" {
        let t = d.get_or_insert_text("t");
        {
            let mut txn = d.transact_mut();
            for i in 0..n {
                let c = ((b'a' + (i % 26) as u8) as char).to_string();
                t.insert(&mut txn, 0, &c);
            }
        }
        let mut b = Built::new(d, false, roots(&[("t", Kind::Text)]), vec![n as u32]);
        b.stickies = end_stickies(0, n as u32);
        b
    } else {
        let a = d.get_or_insert_array("a");
        {
            let mut txn = d.transact_mut();
            for i in 0..n {
                a.push_front(&mut txn, num(i));
            }
        }
        let mut b = Built::new(d, false, roots(&[("a", Kind::Array)]), vec![n as u32]);
        b.stickies = end_stickies(0, n as u32);
        b
    }
}

/// One element, then `n` elements inserted at index 1: both origins present, the left one constant.
fn s_insert_at_1(n: u64, _opt: &str) -> Built {
    build();
    let d = new_doc(1, false);
    let a = d.get_or_insert_array("a");
    {
        let mut txn = d.transact_mut();
        a.push_back(&mut txn, num(0));
        for i in 0..n {
            a.insert(&mut txn, 1, num(i + 1));
        }
    }
    Built::new(d, false, roots(&[("a", Kind::Array)]), vec![n as u32 + 1])
}

/// One block holding `n` values.
fn s_array_block(n: u64, _opt: &str) -> Built {
    build();
    let d = new_doc(1, false);
    let a = d.get_or_insert_array("a");
    a.insert_range(&mut d.transact_mut(), 0, (0..n).map(num));
    let mut b = Built::new(d, false, roots(&[("a", Kind::Array)]), vec![n as u32]);
    b.stickies = end_stickies(0, n as u32);
    b
}

/// One text insert of `n` UTF-16 units.
fn s_text_insert(n: u64, opt: &str) -> Built {
    build();
    let d = new_doc(1, false);
    let t = d.get_or_insert_text("t");
    t.insert(&mut d.transact_mut(), 0, &units(n, opt));
    let mut b = Built::new(d, false, roots(&[("t", Kind::Text)]), vec![n as u32]);
    // (an index inside a surrogate pair is not a position: keep to the ASCII end)
    if opt == "ascii" || opt == "astral_start" || opt == "bmp2" || opt == "bmp3" {
        b.stickies = end_stickies(0, n as u32);
    } else {
        b.stickies = vec![Sticky {
            root: 0,
            index: n as u32,
            assoc: Assoc::Before,
        }];
    }
    b
}

/// Client 1 writes a text, client 2 receives it and inserts `n` characters back to front,
/// two positions apart, in ONE transaction: both origin clocks descend by a constant step.
/// `opt`: `full` (whole state) or `diff` (client 2's part only, against client 1's state).
fn s_text_desc(n: u64, opt: &str) -> Built {
    build();
    let a = new_doc(1, false);
    let ta = a.get_or_insert_text("t");
    ta.insert(&mut a.transact_mut(), 0, &units(2 * n + 2, "ascii"));
    let base = a.transact().encode_state_as_update_v1(&StateVector::default());
    let sv_a = a.transact().state_vector();
    let b = new_doc(2, false);
    let tb = b.get_or_insert_text("t");
    tool(b.transact_mut().apply_update(tool(Update::decode_v1(&base), "decoding")), "applying");
    {
        let mut txn = b.transact_mut();
        for j in (1..=n).rev() {
            tb.insert(&mut txn, (2 * j) as u32, "X");
        }
    }
    let mut out = Built::new(b, false, roots(&[("t", Kind::Text)]), vec![(3 * n + 2) as u32]);
    if opt == "diff" {
        out.base = sv_a;
        out.pre = vec![base];
    }
    out
}

/// Client 1 writes `n + 1` map entries, client 2 overwrites them from the last to the first in
/// ONE transaction: `n + 1` blocks whose only origin descends by one (no long block is cut).
fn s_map_desc(n: u64, _opt: &str) -> Built {
    build();
    let a = new_doc(1, false);
    let ma = a.get_or_insert_map("m");
    {
        let mut txn = a.transact_mut();
        for i in 0..=n {
            ma.insert(&mut txn, format!("k{}", i), num(i));
        }
    }
    let base = a.transact().encode_state_as_update_v1(&StateVector::default());
    let b = new_doc(2, false);
    let mb = b.get_or_insert_map("m");
    tool(b.transact_mut().apply_update(tool(Update::decode_v1(&base), "decoding")), "applying");
    {
        let mut txn = b.transact_mut();
        for i in (0..=n).rev() {
            mb.insert(&mut txn, format!("k{}", i), num(i + 1000));
        }
    }
    Built::new(b, false, roots(&[("m", Kind::Map)]), vec![n as u32 + 1])
}

/// Like `s_text_desc` with 4 insertions `n` positions apart (`asc`/`desc`): the magnitude of the step.
fn s_text_steps(n: u64, opt: &str) -> Built {
    build();
    const K: u64 = 4;
    let a = new_doc(1, false);
    let ta = a.get_or_insert_text("t");
    ta.insert(&mut a.transact_mut(), 0, &units(n * (K + 1) + 2, "ascii"));
    let base = a.transact().encode_state_as_update_v1(&StateVector::default());
    let b = new_doc(2, false);
    let tb = b.get_or_insert_text("t");
    tool(b.transact_mut().apply_update(tool(Update::decode_v1(&base), "decoding")), "applying");
    {
        let mut txn = b.transact_mut();
        if opt == "asc" {
            for j in 1..=K {
                tb.insert(&mut txn, (j * n + (j - 1)) as u32, "X");
            }
        } else {
            for j in (1..=K).rev() {
                tb.insert(&mut txn, (j * n) as u32, "X");
            }
        }
    }
    Built::new(b, false, roots(&[("t", Kind::Text)]), vec![(n * (K + 1) + 2 + K) as u32])
}

/// `n` nested types of one kind at the front of a root array, one of another kind (closes the
/// type-ref run), then one child in every nested type (parents named by id).
/// `one_map`: ONE nested map with `n` entries (the same parent id `n` times).
fn s_nested(n: u64, opt: &str) -> Built {
    build();
    let d = new_doc(1, false);
    if opt == "one_map" {
        let m = d.get_or_insert_map("m");
        {
            let mut txn = d.transact_mut();
            let inner = m.insert(&mut txn, "inner", MapPrelim::default());
            for i in 0..n {
                inner.insert(&mut txn, format!("k{}", i), num(i));
            }
            m.insert(&mut txn, "z", num(1));
        }
        return Built::new(d, false, roots(&[("m", Kind::Map)]), vec![2]);
    }
    let a = d.get_or_insert_array("a");
    {
        let mut txn = d.transact_mut();
        match opt {
            "array" => {
                let refs: Vec<ArrayRef> = (0..n).map(|_| a.push_front(&mut txn, ArrayPrelim::default())).collect();
                a.push_front(&mut txn, MapPrelim::default());
                for (i, r) in refs.iter().enumerate() {
                    r.push_back(&mut txn, num(i as u64));
                }
            }
            "text" => {
                let refs: Vec<TextRef> = (0..n).map(|_| a.push_front(&mut txn, TextPrelim::new(""))).collect();
                a.push_front(&mut txn, MapPrelim::default());
                for r in refs.iter() {
                    r.insert(&mut txn, 0, "x");
                }
            }
            _ => {
                let refs: Vec<MapRef> = (0..n).map(|_| a.push_front(&mut txn, MapPrelim::default())).collect();
                a.push_front(&mut txn, ArrayPrelim::default());
                for (i, r) in refs.iter().enumerate() {
                    r.insert(&mut txn, "k", num(i as u64));
                }
            }
        }
    }
    Built::new(d, false, roots(&[("a", Kind::Array)]), vec![n as u32 + 1])
}

/// XML elements (their names are KEYS of the v2 format): `same` / `distinct`: `n` elements
/// at the front of a fragment, then a text node; `long`: one element whose name has `n` units.
fn s_xml(n: u64, opt: &str) -> Built {
    build();
    let d = new_doc(1, false);
    let x = d.get_or_insert_xml_fragment("x");
    let len;
    {
        let mut txn = d.transact_mut();
        if opt == "long" {
            let e = x.insert(&mut txn, 0, XmlElementPrelim::empty(units(n.max(1), "ascii")));
            e.insert_attribute(&mut txn, "id", "1");
            len = 1;
        } else {
            for i in 0..n {
                let name = if opt == "distinct" { format!("e{}", i) } else { "p".to_string() };
                x.insert(&mut txn, 0, XmlElementPrelim::empty(name));
            }
            x.insert(&mut txn, 0, XmlTextPrelim::new("t"));
            len = n as u32 + 1;
        }
    }
    Built::new(d, false, roots(&[("x", Kind::Xml)]), vec![len])
}

/// Formatting attributes on the first character of "ab" (their names are KEYS): `same`: one
/// name, `n` values; `distinct`: `n` names; `long`: one name of `n` units.
fn s_formats(n: u64, opt: &str) -> Built {
    build();
    let d = new_doc(1, false);
    let t = d.get_or_insert_text("t");
    {
        let mut txn = d.transact_mut();
        t.insert(&mut txn, 0, "ab");
        if opt == "long" {
            let key: Arc<str> = units(n.max(1), "ascii").as_str().into();
            t.format(&mut txn, 0, 1, Attrs::from([(key, Any::Bool(true))]));
        } else {
            for i in 0..n {
                let (key, v): (Arc<str>, Any) = if opt == "distinct" {
                    (format!("k{}", i).as_str().into(), Any::Bool(true))
                } else {
                    ("b".into(), num(i))
                };
                t.format(&mut txn, 0, 1, Attrs::from([(key, v)]));
            }
        }
    }
    Built::new(d, false, roots(&[("t", Kind::Text)]), vec![2])
}

/// `n` deleted ranges of one client. `keep` / `gc`: `2n` map entries, every other one removed;
/// `text`: a text of `2n` characters, every other one removed (back to front; cutting a long
/// block again and again is quadratic, so small sizes only).
fn s_delete_ranges(n: u64, opt: &str) -> Built {
    build();
    let gc = opt == "gc";
    let d = new_doc(1, gc);
    if opt != "text" {
        let m = d.get_or_insert_map("m");
        {
            let mut txn = d.transact_mut();
            for i in 0..2 * n {
                m.insert(&mut txn, format!("k{}", i), num(i));
            }
        }
        {
            let mut txn = d.transact_mut();
            for i in 0..n {
                m.remove(&mut txn, &format!("k{}", 2 * i + 1));
            }
        }
        return Built::new(d, gc, roots(&[("m", Kind::Map)]), vec![n as u32]);
    }
    let t = d.get_or_insert_text("t");
    t.insert(&mut d.transact_mut(), 0, &units(2 * n, "ascii"));
    {
        let mut txn = d.transact_mut();
        for i in (0..n).rev() {
            t.remove_range(&mut txn, (2 * i + 1) as u32, 1);
        }
    }
    let mut b = Built::new(d, gc, roots(&[("t", Kind::Text)]), vec![n as u32]);
    b.stickies = end_stickies(0, n as u32);
    b
}

/// One deleted range of `n` elements. `text_keep` / `text_gc` / `array_gc`: inside a sequence of
/// `n + 2` elements; `nested_gc`: a nested array of `n` elements removed from a map of a
/// document that collects garbage (a GC block of length `n`).
fn s_delete_big(n: u64, opt: &str) -> Built {
    build();
    let gc = opt != "text_keep";
    let d = new_doc(1, gc);
    match opt {
        "array_gc" => {
            let a = d.get_or_insert_array("a");
            a.insert_range(&mut d.transact_mut(), 0, (0..n + 2).map(num));
            a.remove_range(&mut d.transact_mut(), 1, n as u32);
            Built::new(d, gc, roots(&[("a", Kind::Array)]), vec![2])
        }
        "nested_gc" => {
            let m = d.get_or_insert_map("m");
            {
                let mut txn = d.transact_mut();
                let arr = m.insert(&mut txn, "arr", ArrayPrelim::default());
                arr.insert_range(&mut txn, 0, (0..n).map(num));
                m.insert(&mut txn, "z", num(1));
            }
            m.remove(&mut d.transact_mut(), "arr");
            Built::new(d, gc, roots(&[("m", Kind::Map)]), vec![1])
        }
        _ => {
            let t = d.get_or_insert_text("t");
            t.insert(&mut d.transact_mut(), 0, &units(n + 2, "ascii"));
            t.remove_range(&mut d.transact_mut(), 1, n as u32);
            let mut b = Built::new(d, gc, roots(&[("t", Kind::Text)]), vec![2]);
            b.stickies = end_stickies(0, 2);
            b
        }
    }
}

/// `n` clients write one map entry each (`distinct` keys, or the `same` key: all entries but
/// one end up deleted); a document that received all of them is the source.
fn s_many_clients(n: u64, opt: &str) -> Built {
    build();
    let main = new_doc(RECEIVER - 1, false);
    let mm = main.get_or_insert_map("m");
    let _ = &mm;
    for c in 1..=n {
        let d = new_doc(c, false);
        let m = d.get_or_insert_map("m");
        let key = if opt == "same" { "k".to_string() } else { format!("k{}", c) };
        m.insert(&mut d.transact_mut(), key, num(c));
        let u = d.transact().encode_state_as_update_v1(&StateVector::default());
        tool(main.transact_mut().apply_update(tool(Update::decode_v1(&u), "decoding")), "applying");
    }
    let len = if opt == "same" { n.min(1) } else { n } as u32;
    Built::new(main, false, roots(&[("m", Kind::Map)]), vec![len])
}

/// A root text whose NAME has `n` units.
fn s_root_name(n: u64, opt: &str) -> Built {
    build();
    let name = units(n.max(1), opt);
    let d = new_doc(1, false);
    let t = d.get_or_insert_text(name.as_str());
    t.insert(&mut d.transact_mut(), 0, "hi");
    let mut b = Built::new(d, false, vec![(name, Kind::Text)], vec![2]);
    b.stickies = end_stickies(0, 2);
    b
}

/// A text of `2n` units in one block; the update is the diff against "the first `n` units":
/// the block is cut at offset `n` (its origin becomes clock `n - 1`).
fn s_diff_offset(n: u64, opt: &str) -> Built {
    build();
    let n = n.max(1);
    let d = new_doc(1, false);
    let t = d.get_or_insert_text("t");
    let all = units(2 * n, if opt == "astral" { "astral_all" } else { "ascii" });
    let cut = all.char_indices().scan(0u64, |u, (i, c)| {
        let at = *u;
        *u += c.len_utf16() as u64;
        Some((at, i))
    });
    let byte = cut.filter(|(u, _)| *u >= n).map(|(_, i)| i).next().unwrap_or(all.len());
    // (with astral characters `n` odd falls inside a pair: cut one unit later)
    let first = &all[..byte];
    let first_units = first.encode_utf16().count() as u32;
    t.insert(&mut d.transact_mut(), 0, first);
    let pre = d.transact().encode_state_as_update_v1(&StateVector::default());
    let base = d.transact().state_vector();
    t.insert(&mut d.transact_mut(), first_units, &all[byte..]);
    let mut b = Built::new(d, false, roots(&[("t", Kind::Text)]), vec![(2 * n) as u32]);
    b.base = base;
    b.pre = vec![pre];
    b
}

fn any_of(n: u64, opt: &str) -> Any {
    match opt {
        "array" => Any::Array((0..n).map(num).collect::<Vec<_>>().into()),
        "map" => {
            let m: HashMap<String, Any> = (0..n).map(|i| (format!("k{}", i), num(i))).collect();
            Any::Map(m.into())
        }
        "buffer" => Any::Buffer((0..n).map(|i| (i % 251) as u8).collect::<Vec<u8>>().into()),
        "depth_array" | "depth_map" | "depth_mixed" => {
            // `n` containers around a leaf
            let mut v = Any::String("leaf".into());
            for i in 0..n {
                let as_map = match opt {
                    "depth_map" => true,
                    "depth_mixed" => i % 2 == 0,
                    _ => false,
                };
                v = if as_map {
                    let mut m = HashMap::new();
                    m.insert("k".to_string(), v);
                    Any::Map(m.into())
                } else {
                    Any::Array(vec![v].into())
                };
            }
            v
        }
        "int_pos" => Any::Number(n as f64),
        "int_neg" => Any::Number(-(n as f64)),
        "key_len" => {
            let mut m = HashMap::new();
            m.insert(units(n, "ascii"), Any::Null);
            Any::Map(m.into())
        }
        s if s.starts_with("string_") => Any::String(units(n, &s[7..]).as_str().into()),
        _ => Any::Null,
    }
}

/// An `Any` of size `n` as a map value (`embed_*`: as an embed of a text) of a document.
fn s_doc_any(n: u64, opt: &str) -> Built {
    build();
    let d = new_doc(1, false);
    if let Some(kind) = opt.strip_prefix("embed_") {
        let t = d.get_or_insert_text("t");
        {
            let mut txn = d.transact_mut();
            t.insert(&mut txn, 0, "ab");
            t.insert_embed(&mut txn, 1, any_of(n, kind));
        }
        return Built::new(d, false, roots(&[("t", Kind::Text)]), vec![3]);
    }
    let m = d.get_or_insert_map("m");
    if opt == "binary" {
        // (a byte vector becomes binary content, not an `Any`)
        m.insert(&mut d.transact_mut(), "v", (0..n).map(|i| (i % 251) as u8).collect::<Vec<u8>>());
    } else {
        m.insert(&mut d.transact_mut(), "v", any_of(n, opt));
    }
    let mut b = Built::new(d, false, roots(&[("m", Kind::Map)]), vec![1]);
    b.unordered = opt == "map";
    b
}

// ---------------------------------------------------------------------------
// updates that no document writes: Skip blocks (merge of non-adjacent updates)
// and clocks the API cannot reach (hand-written v1 bytes)
// ---------------------------------------------------------------------------

/// Three transactions append "ab", `n` units, "yz"; the first and the third update merged
/// carry a Skip of length `n`. A receiver applies the merged update, then the second one.
fn run_skip(n: u64, _opt: &str) -> Result<(), Failure> {
    build();
    let d = new_doc(1, false);
    let t = d.get_or_insert_text("t");
    let mut ups1: Vec<Vec<u8>> = Vec::new();
    let mut ups2: Vec<Vec<u8>> = Vec::new();
    for chunk in ["ab".to_string(), units(n, "ascii"), "yz".to_string()] {
        let mut txn = d.transact_mut();
        t.push(&mut txn, &chunk);
        ups1.push(txn.encode_update_v1());
        ups2.push(txn.encode_update_v2());
    }
    let rs = roots(&[("t", Kind::Text)]);
    let src = facts(&d, &rs);
    at("yrs::merge_updates_v1 of two non-adjacent updates");
    let m1 = yrs::merge_updates_v1(&[&ups1[0], &ups1[2]]).map_err(|e| bad(MISMATCH, "Ok", format!("Err({})", e)))?;
    at("yrs::merge_updates_v2 of two non-adjacent updates");
    let m2 = yrs::merge_updates_v2(&[&ups2[0], &ups2[2]]).map_err(|e| bad(MISMATCH, "Ok", format!("Err({})", e)))?;
    let want_sv = vec![(1u64, 2u32)];
    check_pipe(&Pipe {
        v1: &m1,
        v2: &m2,
        roots: &rs,
        gc: false,
        pre: &[],
        post: &[ups1[1].clone()],
        want: Some(&src),
        want_sv: Some(&want_sv),
        unordered: false,
    })?;
    Ok(())
}

struct W(Vec<u8>);

impl W {
    fn u(&mut self, v: u64) -> &mut Self {
        var_uint(v, &mut self.0);
        self
    }
    fn b(&mut self, v: u8) -> &mut Self {
        self.0.push(v);
        self
    }
    fn s(&mut self, s: &str) -> &mut Self {
        var_uint(s.len() as u64, &mut self.0);
        self.0.extend_from_slice(s.as_bytes());
        self
    }
    /// A string item without origins in the root text "t".
    fn root_str(&mut self, s: &str) -> &mut Self {
        self.b(0x04).u(1).s("t").s(s)
    }
}

const INFO_GC: u8 = 0;
const INFO_SKIP: u8 = 10;
const INFO_STR: u8 = 4;
const HAS_ORIGIN: u8 = 0x80;
const HAS_RIGHT_ORIGIN: u8 = 0x40;

/// Hand-written v1 updates around clock `n`. The v2 form is `decode_v1(v1).encode_v2()`.
fn run_raw_clock(n: u64, opt: &str) -> Result<(), Failure> {
    at("writing the v1 bytes of an update by hand");
    let mut w = W(Vec::new());
    let want_text: Option<&str>;
    let want_sv: Vec<(u64, u32)>;
    match opt {
        // client 5: GC of length n from clock 0, then "ab" at clock n
        "gc_item" => {
            w.u(1).u(2).u(5).u(0);
            w.b(INFO_GC).u(n).root_str("ab");
            w.u(0);
            want_text = Some("ab");
            want_sv = vec![(5, (n + 2) as u32)];
        }
        // client 5: "a", a Skip of length n, "b" (origin "a") at clock n + 1
        "skip_item" => {
            w.u(1).u(3).u(5).u(0);
            w.root_str("a").b(INFO_SKIP).u(n);
            w.b(INFO_STR | HAS_ORIGIN).u(5).u(0).s("b");
            w.u(0);
            // (whether "b" shows before the hole is filled is up to the integration: not predicted)
            want_text = None;
            want_sv = vec![(5, 1)];
        }
        // client 6: GC of length n, "a" at clock n; client 5: "b" whose LEFT origin is (6, n)
        "left_origin" | "right_origin" => {
            w.u(2);
            w.u(2).u(6).u(0).b(INFO_GC).u(n).root_str("a");
            w.u(1).u(5).u(0);
            let flag = if opt == "left_origin" { HAS_ORIGIN } else { HAS_RIGHT_ORIGIN };
            w.b(INFO_STR | flag).u(6).u(n).s("b");
            w.u(0);
            want_text = Some(if opt == "left_origin" { "ab" } else { "ba" });
            want_sv = vec![(5, 1), (6, (n + 1) as u32)];
        }
        // the section of client 5 starts at clock n (nothing before it: it stays pending)
        "start_clock" => {
            w.u(1).u(1).u(5).u(n).root_str("ab");
            w.u(0);
            want_text = None;
            want_sv = vec![];
        }
        // delete set: client 7 (unknown to the receivers) ranges [0, n) and [n + 1, n + 2)
        _ => {
            w.u(1).u(1).u(5).u(0).root_str("ab");
            w.u(2);
            w.u(5).u(1).u(0).u(1);
            w.u(7).u(2).u(0).u(n).u(n + 1).u(1);
            want_text = Some("b");
            want_sv = vec![(5, 2)];
        }
    }
    let v1 = w.0;
    let u = dec1(&v1, "the hand-written v1 bytes")?;
    at("Update::encode_v2 of Update::decode_v1(hand-written v1 bytes)");
    let v2 = u.encode_v2();
    drop(u);
    let rs = roots(&[("t", Kind::Text)]);
    let (da, _db) = check_pipe(&Pipe {
        v1: &v1,
        v2: &v2,
        roots: &rs,
        gc: true,
        pre: &[],
        post: &[],
        want: None,
        want_sv: Some(&want_sv),
        unordered: false,
    })?;
    if let Some(want) = want_text {
        let f = facts(&da, &rs);
        if let RootVal::Text(s, _) = &f.roots[0].1 {
            if s != want {
                at("GetString::get_string of a document that applied the hand-written update");
                return Err(bad(BUILT, format!("{:?}", want), format!("{:?}", brief(s))));
            }
        }
    }
    Ok(())
}

// ---------------------------------------------------------------------------
// value scenarios
// ---------------------------------------------------------------------------

const CLOCKS: [u32; 8] = [0, 1, 127, 128, 16383, 16384, 1 << 21, u32::MAX];

fn sv_of(n: u64, opt: &str) -> StateVector {
    match opt {
        "clock" => [(cid(1), n as u32)].into_iter().collect(),
        "client_id" => [(cid(n), 7u32)].into_iter().collect(),
        _ => (0..n).map(|i| (cid(i + 1), CLOCKS[(i % 8) as usize])).collect(),
    }
}

fn set_of(n: u64, opt: &str) -> IdSet {
    let mut s = IdSet::new();
    match opt {
        "clients" => {
            for i in 0..n {
                s.insert(ID::new(cid(i + 1), (i % 300) as u32), 1 + (i % 3) as u32);
            }
        }
        "len" => s.insert(ID::new(cid(1), 0), n as u32),
        "clock" => {
            s.insert(ID::new(cid(1), 0), 1);
            s.insert(ID::new(cid(1), n as u32), 1);
        }
        "client_id" => s.insert(ID::new(cid(n), 3), 2),
        _ => {
            for i in 0..n {
                s.insert(ID::new(cid(1), (3 * i) as u32), 1 + (i % 2) as u32);
            }
        }
    }
    s
}

fn run_state_vector(n: u64, opt: &str) -> Result<(), Failure> {
    at("building a StateVector through FromIterator");
    let sv = sv_of(n, opt);
    if opt == "clients" && sv.len() != n as usize {
        return Err(bad(BUILT, format!("{} clients", n), format!("{}", sv.len())));
    }
    round_trip("StateVector", &sv, &show_sv)
}

fn run_id_set(n: u64, opt: &str) -> Result<(), Failure> {
    at("building an IdSet through IdSet::insert");
    let s = set_of(n, opt);
    let ranges: usize = read_set(&s).iter().map(|(_, r)| r.len()).sum();
    let want = match opt {
        "ranges" | "clients" => n as usize,
        "clock" => if n <= 1 { 1 } else { 2 },
        _ => 1,
    };
    if ranges != want {
        return Err(bad(BUILT, format!("{} ranges", want), format!("{}", ranges)));
    }
    round_trip("IdSet", &s, &show_set)
}

fn run_snapshot(n: u64, opt: &str) -> Result<(), Failure> {
    at("building a Snapshot through Snapshot::new");
    let snap = match opt {
        "ranges" => Snapshot::new(sv_of(1, "clock"), set_of(n, "ranges")),
        _ => Snapshot::new(sv_of(n, "clients"), set_of(n, "clients")),
    };
    round_trip("Snapshot", &snap, &show_snapshot)
}

fn aw_of(n: u64, opt: &str) -> AwarenessUpdate {
    let entry = |clock: u32, json: &str| AwarenessUpdateEntry {
        clock,
        json: json.into(),
    };
    let mut clients = HashMap::new();
    match opt {
        "clients" => {
            for i in 0..n {
                clients.insert(cid(i + 1), entry(CLOCKS[(i % 8) as usize], if i % 2 == 0 { "{}" } else { "null" }));
            }
        }
        "clock" => {
            clients.insert(cid(1), entry(n as u32, "{}"));
        }
        "client_id" => {
            clients.insert(cid(n), entry(1, "{}"));
        }
        _ => {
            // a JSON string literal of n UTF-16 units in total
            let flavour = opt.strip_prefix("json_").unwrap_or("ascii");
            let json = format!("\"{}\"", units(n.saturating_sub(2), flavour));
            clients.insert(cid(1), entry(3, &json));
            clients.insert(cid(2), entry(4, "null"));
        }
    }
    AwarenessUpdate { clients }
}

fn run_awareness(n: u64, opt: &str) -> Result<(), Failure> {
    at("building an AwarenessUpdate");
    if opt == "via_awareness" {
        // n remote clients arrive at an Awareness instance; what it reports travels on
        let mut aw = Awareness::new(new_doc(MAX_CLIENT, false));
        let incoming = AwarenessUpdate {
            clients: (0..n)
                .map(|i| {
                    (
                        cid(i + 1),
                        AwarenessUpdateEntry {
                            clock: 1 + CLOCKS[(i % 7) as usize],
                            json: format!("{{\"n\":{}}}", i).as_str().into(),
                        },
                    )
                })
                .collect(),
        };
        at("Awareness::apply_update");
        aw.apply_update(incoming.clone()).map_err(|e| bad(MISMATCH, "Ok", format!("Err({})", e)))?;
        at("Awareness::update");
        let out = aw.update().map_err(|e| bad(MISMATCH, "Ok", format!("Err({})", e)))?;
        if out != incoming {
            return Err(bad(MISMATCH, brief(&show_aw(&incoming)), brief(&show_aw(&out))));
        }
        return round_trip("AwarenessUpdate", &out, &show_aw);
    }
    let u = aw_of(n, opt);
    round_trip("AwarenessUpdate", &u, &show_aw)
}

fn run_sticky(n: u64, opt: &str) -> Result<(), Failure> {
    at("StickyIndex::new");
    let scope = match opt {
        "relative_clock" => IndexScope::Relative(ID::new(cid(1), n as u32)),
        "nested_clock" => IndexScope::Nested(ID::new(cid(1), n as u32)),
        "relative_client" => IndexScope::Relative(ID::new(cid(n), 1)),
        "nested_client" => IndexScope::Nested(ID::new(cid(n), 1)),
        "root_astral" => IndexScope::Root(units(n, "astral_end").as_str().into()),
        "root_bmp3" => IndexScope::Root(units(n, "bmp3").as_str().into()),
        _ => IndexScope::Root(units(n, "ascii").as_str().into()),
    };
    let show = |x: &StickyIndex| brief(&format!("{:?} {:?}", x.scope(), x.assoc));
    for assoc in [Assoc::After, Assoc::Before] {
        round_trip("StickyIndex", &StickyIndex::new(scope.clone(), assoc), &show)?;
    }
    Ok(())
}

fn show_id_map(m: &IdMap<String>) -> String {
    let mut v: Vec<(u64, u32, u32, Vec<(String, String)>)> = m
        .iter()
        .map(|(c, r)| {
            let mut attrs: Vec<(String, String)> =
                r.attrs.0.iter().map(|a| (brief(a.name()), brief(a.value()))).collect();
            attrs.sort();
            (c.get(), r.range.start, r.range.end, attrs)
        })
        .collect();
    v.sort();
    format!("{:?}", v)
}

fn run_id_map(n: u64, opt: &str) -> Result<(), Failure> {
    at("building an IdMap::<String> through IdMap::insert");
    let mut m: IdMap<String> = IdMap::new();
    let shared = ContentAttribute::new("insert", "alice".to_string());
    match opt {
        "attrs" => {
            for i in 0..n {
                let a = ContentAttribute::new("insert", format!("user{}", i));
                m.insert(BlockRange::new(ID::new(cid(1), (3 * i) as u32), 1), vec![a]);
            }
        }
        "names" => {
            for i in 0..n {
                let a = ContentAttribute::new(format!("name{}", i), "v".to_string());
                m.insert(BlockRange::new(ID::new(cid(1), (3 * i) as u32), 1), vec![a]);
            }
        }
        "clients" => {
            for i in 0..n {
                m.insert(BlockRange::new(ID::new(cid(i + 1), (i % 200) as u32), 2), vec![shared.clone()]);
            }
        }
        "value_len" => {
            let a = ContentAttribute::new("insert", units(n, "astral_end"));
            m.insert(BlockRange::new(ID::new(cid(1), 0), 2), vec![a]);
        }
        "name_len" => {
            let a = ContentAttribute::new(units(n, "ascii"), "v".to_string());
            m.insert(BlockRange::new(ID::new(cid(1), 0), 2), vec![a]);
        }
        "on_one_range" => {
            let attrs = (0..n).map(|i| ContentAttribute::new(format!("name{}", i), format!("v{}", i))).collect();
            m.insert(BlockRange::new(ID::new(cid(1), 0), 2), attrs);
        }
        "range_len" => m.insert(BlockRange::new(ID::new(cid(1), 1), n as u32), vec![shared.clone()]),
        "clock" => m.insert(BlockRange::new(ID::new(cid(1), n as u32), 1), vec![shared.clone()]),
        _ => {
            for i in 0..n {
                m.insert(BlockRange::new(ID::new(cid(1), (3 * i) as u32), 1), vec![shared.clone()]);
            }
        }
    }
    round_trip("IdMap::<String>", &m, &show_id_map)
}

fn run_message(n: u64, opt: &str) -> Result<(), Failure> {
    at("building a y-sync Message");
    let bytes = || (0..n).map(|i| (i % 253) as u8).collect::<Vec<u8>>();
    let msg = match opt {
        "update" => Message::Sync(SyncMessage::Update(bytes())),
        "step2" => Message::Sync(SyncMessage::SyncStep2(bytes())),
        "step1" => Message::Sync(SyncMessage::SyncStep1(sv_of(n, "clients"))),
        "auth" => Message::Auth(Some(units(n, "ascii"))),
        "auth_astral" => Message::Auth(Some(units(n, "astral_all"))),
        "awareness" => Message::Awareness(aw_of(n, "clients")),
        _ => Message::Custom(77, bytes()),
    };
    let show = |m: &Message| brief(&format!("{:?}", m));
    round_trip("Message", &msg, &show)
}

fn run_any_value(n: u64, opt: &str) -> Result<(), Failure> {
    at("building an Any");
    run_any(&any_of(n, opt))
}

// ---------------------------------------------------------------------------
// the enumeration: scenarios x options x sizes around every threshold
// ---------------------------------------------------------------------------

/// `t - 1 ..= t + 3` for every threshold: a run of `c` equal values is written as `c - 1`
/// (Rle columns) or `c - 2` (the other columns), and some scenarios add a block of their own.
fn around(ts: &[u64]) -> Vec<u64> {
    let mut v = Vec::new();
    for t in ts {
        for n in t - 1..=t + 3 {
            v.push(n);
        }
    }
    v
}

fn merge(lists: &[Vec<u64>]) -> Vec<u64> {
    let mut s: BTreeSet<u64> = BTreeSet::new();
    for l in lists {
        s.extend(l.iter().copied());
    }
    s.into_iter().collect()
}

/// Numbers of blocks / entries (each costs a block or an allocation).
fn runs() -> Vec<u64> {
    merge(&[runs_tiny(), around(&[16384])])
}
/// `t - 1 ..= t + 6` around the small thresholds (cheap; some columns lag a few blocks behind `n`).
fn runs_tiny() -> Vec<u64> {
    let mut v = Vec::new();
    for t in [32u64, 64, 128, 256] {
        v.extend(t - 1..=t + 6);
    }
    v
}
/// The small sizes and the given ones around 2^14: a document of 16 384 blocks costs about a
/// second, so every scenario gets the sizes at which ITS columns cross (see `scale-cover`).
fn runs_with(big: &[u64]) -> Vec<u64> {
    merge(&[runs_tiny(), big.to_vec()])
}
/// Lengths that cost a byte each but are used five times over.
fn mags_mid() -> Vec<u64> {
    merge(&[around(&[32, 64, 128, 256, 4096, 8192, 16384]), vec![65535, 65536, 65537]])
}
fn runs_small() -> Vec<u64> {
    merge(&[around(&[32, 64, 128, 256]), vec![1023, 1024, 1025]])
}
/// Lengths and other magnitudes that cost a byte each.
fn mags() -> Vec<u64> {
    around(&[32, 64, 128, 256, 4096, 8192, 16384, 65536])
}
fn mags_big() -> Vec<u64> {
    merge(&[mags(), vec![(1 << 20) - 1, 1 << 20, (1 << 20) + 1, (1 << 21) - 1, 1 << 21, (1 << 21) + 1, (1 << 21) + 2]])
}
/// Clocks and lengths that cost nothing.
fn clocks() -> Vec<u64> {
    let top = 1u64 << 32;
    merge(&[
        mags(),
        around(&[1 << 19, 1 << 20, 1 << 21, 1 << 27, 1 << 28, 1 << 29, 1 << 30, 1 << 31]),
        (top - 9..=top - 4).collect(),
    ])
}
fn client_ids() -> Vec<u64> {
    merge(&[
        around(&[1 << 6, 1 << 7, 1 << 13, 1 << 14, 1 << 20, 1 << 21, 1 << 27, 1 << 28, 1 << 32, 1 << 35, 1 << 42, 1 << 49]),
        vec![MAX_CLIENT - 2, MAX_CLIENT - 1, MAX_CLIENT],
    ])
}
fn ints() -> Vec<u64> {
    let mut v = Vec::new();
    for k in 5..=53u32 {
        v.extend([(1u64 << k) - 1, 1u64 << k, (1u64 << k) + 1]);
    }
    v
}
fn depths() -> Vec<u64> {
    // `Any::decode` accepts a leaf below at most 512 containers
    vec![1, 2, 63, 64, 65, 127, 128, 129, 255, 256, 257, 510, 511, 512]
}

struct Scn {
    name: &'static str,
    /// `variant` of the witness line.
    group: &'static str,
    opts: &'static [&'static str],
    sizes: fn(&str) -> Vec<u64>,
    /// Largest `n` a recipe may ask for.
    limit: u64,
    run: fn(u64, &str) -> Result<(), Failure>,
}

macro_rules! doc {
    ($f:ident) => {
        |n, opt| check_built(&$f(n, opt))
    };
}

const U32_TOP: u64 = (1 << 32) - 4;

static SCENARIOS: &[Scn] = &[
    Scn {
        name: "map_keys",
        group: "update",
        opts: &["plain", "eqlen", "gc"],
        sizes: |o| match o {
            "plain" => runs_with(&[16383, 16384, 16385]),
            "eqlen" => runs_with(&[16385]),
            _ => runs_tiny(),
        },
        limit: 1 << 18,
        run: doc!(s_map_keys),
    },
    // (`keep`: squashing the overwritten entries is quadratic)
    Scn {
        name: "map_same_key",
        group: "update",
        opts: &["keep", "gc"],
        sizes: |o| if o == "gc" { mags() } else { around(&[32, 64, 128, 256, 4096]) },
        limit: 1 << 17,
        run: doc!(s_map_same_key),
    },
    Scn {
        name: "map_pingpong",
        group: "update",
        opts: &["small", "small_gc", "u32", "u53"],
        sizes: |o| match o {
            "small" => runs_with(&[16385, 16386, 16387]),
            "u32" => merge(&[around(&[64, 128]), vec![16386]]),
            _ => around(&[64, 128]),
        },
        limit: 1 << 16,
        run: doc!(s_map_pingpong),
    },
    Scn {
        name: "push_front",
        group: "update",
        opts: &["any", "str"],
        sizes: |o| if o == "any" { runs_with(&[16385, 16386, 16387, 16388, 16389]) } else { runs_with(&[16384, 16385, 16386]) },
        limit: 1 << 18,
        run: doc!(s_push_front),
    },
    Scn { name: "insert_at_1", group: "update", opts: &[""], sizes: |_| runs_with(&[16386]), limit: 1 << 18, run: doc!(s_insert_at_1) },
    Scn { name: "array_block", group: "update", opts: &[""], sizes: |_| mags(), limit: 1 << 22, run: doc!(s_array_block) },
    Scn {
        name: "text_insert",
        group: "update",
        opts: &["ascii", "astral_end", "astral_start", "astral_all", "bmp2", "bmp3"],
        // (2^20 and 2^21 units: `sticky_index root_ascii`, `awareness json_ascii` reach the v2 string column cheaper)
        sizes: |_| mags(),
        limit: 1 << 23,
        run: doc!(s_text_insert),
    },
    // (cutting the long block of client 1 again and again is quadratic: small sizes; `map_desc` goes on)
    Scn { name: "text_desc", group: "update", opts: &["full", "diff"], sizes: |_| runs_small(), limit: 1 << 14, run: doc!(s_text_desc) },
    Scn { name: "map_desc", group: "update", opts: &[""], sizes: |_| runs_with(&[16385, 16386, 16387]), limit: 1 << 18, run: doc!(s_map_desc) },
    Scn { name: "text_steps", group: "update", opts: &["asc", "desc"], sizes: |_| mags_mid(), limit: 1 << 20, run: doc!(s_text_steps) },
    Scn {
        name: "nested",
        group: "update",
        opts: &["map", "array", "text", "one_map"],
        sizes: |o| match o {
            "map" => runs_with(&[16385, 16386, 16387]),
            "one_map" => runs_with(&[16384, 16385]),
            _ => around(&[64, 128]),
        },
        limit: 1 << 18,
        run: doc!(s_nested),
    },
    Scn {
        name: "xml",
        group: "update",
        opts: &["same", "distinct", "long"],
        sizes: |o| match o {
            "long" => mags(),
            "same" => runs_with(&[16386, 16387, 16388]),
            _ => runs_with(&[16384]),
        },
        limit: 1 << 18,
        run: doc!(s_xml),
    },
    Scn {
        name: "formats",
        group: "update",
        opts: &["same", "distinct", "long"],
        // (every `format` call walks the formatting items in front of the character: quadratic)
        sizes: |o| match o {
            "long" => mags(),
            "same" => runs_small(),
            _ => runs_tiny(),
        },
        limit: 1 << 17,
        run: doc!(s_formats),
    },
    Scn {
        name: "delete_ranges",
        group: "update",
        opts: &["keep", "gc", "text"],
        sizes: |o| match o {
            "text" => runs_small(),
            "keep" => runs_with(&[16384]),
            _ => runs_tiny(),
        },
        limit: 1 << 17,
        run: doc!(s_delete_ranges),
    },
    Scn {
        name: "delete_big",
        group: "update",
        opts: &["text_keep", "text_gc", "array_gc", "nested_gc"],
        sizes: |_| mags(),
        limit: 1 << 23,
        run: doc!(s_delete_big),
    },
    Scn {
        name: "many_clients",
        group: "update",
        opts: &["distinct", "same"],
        // (`same`: resolving n concurrent writes of one key is quadratic)
        sizes: |o| if o == "distinct" { runs_with(&[16384]) } else { runs_tiny() },
        limit: 1 << 15,
        run: doc!(s_many_clients),
    },
    Scn { name: "root_name", group: "update", opts: &["ascii", "astral_end"], sizes: |_| mags(), limit: 1 << 22, run: doc!(s_root_name) },
    Scn { name: "diff_offset", group: "update", opts: &["ascii", "astral"], sizes: |_| mags(), limit: 1 << 22, run: doc!(s_diff_offset) },
    Scn {
        name: "doc_any",
        group: "update",
        opts: &["array", "map", "string_ascii", "string_astral_end", "buffer", "binary", "key_len", "embed_string_ascii", "embed_array"],
        sizes: |o| match o {
            "array" | "embed_array" => runs(),
            "map" => runs_with(&[16384]),
            _ => mags_mid(),
        },
        limit: 1 << 22,
        run: doc!(s_doc_any),
    },
    Scn { name: "doc_any_depth", group: "update", opts: &["depth_array", "depth_map", "depth_mixed"], sizes: |_| depths(), limit: 512, run: doc!(s_doc_any) },
    Scn { name: "skip_block", group: "update", opts: &[""], sizes: |_| mags_mid(), limit: 1 << 23, run: run_skip },
    Scn {
        name: "raw_clock",
        group: "update",
        opts: &["gc_item", "skip_item", "left_origin", "right_origin", "start_clock", "delete_set"],
        sizes: |_| clocks(),
        limit: U32_TOP,
        run: run_raw_clock,
    },
    Scn {
        name: "any",
        group: "any",
        opts: &["array", "map", "buffer", "key_len", "string_ascii", "string_astral_end", "string_astral_start", "string_astral_all", "string_bmp2", "string_bmp3"],
        sizes: |o| match o {
            "buffer" | "string_ascii" | "string_astral_end" => mags_big(),
            "array" | "map" => runs(),
            _ => mags(),
        },
        limit: 1 << 23,
        run: run_any_value,
    },
    Scn { name: "any_depth", group: "any", opts: &["depth_array", "depth_map", "depth_mixed"], sizes: |_| depths(), limit: 512, run: run_any_value },
    Scn { name: "any_int", group: "any", opts: &["int_pos", "int_neg"], sizes: |_| ints(), limit: 1 << 62, run: run_any_value },
    Scn {
        name: "state_vector",
        group: "state_vector",
        opts: &["clients", "clock", "client_id"],
        sizes: |o| match o {
            "clients" => merge(&[runs(), vec![65535, 65536, 65537]]),
            "clock" => clocks(),
            _ => client_ids(),
        },
        limit: MAX_CLIENT,
        run: run_state_vector,
    },
    Scn {
        name: "id_set",
        group: "id_set",
        opts: &["ranges", "clients", "len", "clock", "client_id"],
        sizes: |o| match o {
            "ranges" | "clients" => runs(),
            "client_id" => client_ids(),
            _ => clocks(),
        },
        limit: MAX_CLIENT,
        run: run_id_set,
    },
    Scn { name: "snapshot", group: "snapshot", opts: &["ranges", "clients"], sizes: |_| runs(), limit: 1 << 22, run: run_snapshot },
    Scn {
        name: "awareness",
        group: "awareness",
        opts: &["clients", "via_awareness", "clock", "client_id", "json_ascii", "json_astral_end", "json_astral_all", "json_bmp3"],
        sizes: |o| match o {
            "clients" => runs(),
            "via_awareness" => runs_with(&[16383, 16384, 16385]),
            "clock" => clocks(),
            "client_id" => client_ids(),
            "json_ascii" => mags_big(),
            _ => mags(),
        },
        limit: MAX_CLIENT,
        run: run_awareness,
    },
    Scn {
        name: "sticky_index",
        group: "sticky_index",
        opts: &["relative_clock", "nested_clock", "relative_client", "nested_client", "root_ascii", "root_astral", "root_bmp3"],
        sizes: |o| match o {
            "relative_clock" | "nested_clock" => clocks(),
            "relative_client" | "nested_client" => client_ids(),
            "root_ascii" => mags_big(),
            _ => mags(),
        },
        limit: MAX_CLIENT,
        run: run_sticky,
    },
    Scn {
        name: "id_map",
        group: "id_map",
        opts: &["ranges", "attrs", "names", "clients", "on_one_range", "value_len", "name_len", "range_len", "clock"],
        sizes: |o| match o {
            "range_len" | "clock" => clocks(),
            "value_len" | "name_len" => mags(),
            // (n attributes on one range: quadratic)
            "on_one_range" => runs_small(),
            _ => runs(),
        },
        limit: U32_TOP,
        run: run_id_map,
    },
    Scn {
        name: "message",
        group: "message",
        opts: &["update", "step2", "step1", "auth", "auth_astral", "awareness", "custom"],
        sizes: |o| match o {
            "update" | "custom" => mags_big(),
            "awareness" | "step1" => runs(),
            _ => mags(),
        },
        limit: 1 << 23,
        run: run_message,
    },
];

fn scenario(name: &str) -> Option<&'static Scn> {
    SCENARIOS.iter().find(|s| s.name == name)
}

/// Recipes that disagree with the oracle on the tree the list was recorded on (explicit
/// listing, see the file): `search` leaves them out, `replay` still runs them.
const KNOWN: &str = include_str!("../baseline/scale_known.txt");

/// `scenario opt lo hi` per line.
fn known() -> Vec<(String, String, u64, u64)> {
    KNOWN
        .lines()
        .map(|l| l.trim())
        .filter(|l| !l.is_empty() && !l.starts_with('#'))
        .filter_map(|l| {
            let f: Vec<&str> = l.split_whitespace().collect();
            if f.len() != 4 {
                return None;
            }
            Some((f[0].to_string(), f[1].to_string(), f[2].parse().ok()?, f[3].parse().ok()?))
        })
        .collect()
}

#[derive(Clone, Debug)]
pub struct ScaleCase {
    pub scenario: String,
    pub n: u64,
    pub opt: String,
}

impl ScaleCase {
    pub fn describe(&self) -> (String, J) {
        let group = scenario(&self.scenario).map(|s| s.group).unwrap_or("");
        (
            group.to_string(),
            J::obj(vec![
                ("kind", J::str("scale")),
                ("scenario", J::str(&self.scenario)),
                ("n", J::Num(self.n as i64)),
                ("opt", J::str(&self.opt)),
            ]),
        )
    }

    pub fn from_json(op: &J) -> Result<ScaleCase, String> {
        let name = op.get("scenario").and_then(|s| s.as_str()).ok_or("op.scenario missing")?;
        let scn = scenario(name).ok_or_else(|| {
            format!(
                "unknown scenario {:?}; scenarios: {}",
                name,
                SCENARIOS.iter().map(|s| s.name).collect::<Vec<_>>().join(" ")
            )
        })?;
        let n = op.get("n").and_then(|n| n.as_i64()).ok_or("op.n missing")?;
        if n < 0 || n as u64 > scn.limit {
            return Err(format!("op.n out of range for {} (0..={})", name, scn.limit));
        }
        let opt = op.get("opt").and_then(|s| s.as_str()).unwrap_or("");
        if !scn.opts.contains(&opt) {
            return Err(format!("unknown op.opt {:?} for {}; options: {:?}", opt, name, scn.opts));
        }
        Ok(ScaleCase {
            scenario: name.to_string(),
            n: n as u64,
            opt: opt.to_string(),
        })
    }

    /// Runs on a thread of its own (large stack); a panic of the code under test is a disagreement.
    pub fn run(&self) -> Result<(), Failure> {
        let scn = match scenario(&self.scenario) {
            Some(s) => s,
            None => return Ok(()),
        };
        let (n, opt) = (self.n, self.opt.clone());
        let guarded = move || -> Result<(), Failure> {
            at("");
            match catch_unwind(AssertUnwindSafe(|| (scn.run)(n, &opt))) {
                Ok(r) => r,
                Err(payload) => {
                    let msg = if let Some(s) = payload.downcast_ref::<&str>() {
                        s.to_string()
                    } else if let Some(s) = payload.downcast_ref::<String>() {
                        s.clone()
                    } else {
                        "non-string panic payload".to_string()
                    };
                    Err(Failure {
                        why: format!("panic: {}", msg),
                        expected: J::str("no panic"),
                        actual: J::Null,
                        api: current_api(),
                    })
                }
            }
        };
        let cover = COVER.with(|c| c.borrow_mut().take());
        let spawned = std::thread::Builder::new().stack_size(STACK).spawn(move || {
            COVER.with(|c| *c.borrow_mut() = cover);
            let r = guarded();
            (r, COVER.with(|c| c.borrow_mut().take()))
        });
        match spawned {
            Ok(handle) => match handle.join() {
                Ok((r, cover)) => {
                    COVER.with(|c| *c.borrow_mut() = cover);
                    r
                }
                Err(_) => Err(Failure {
                    why: "panic: the thread of the case died".to_string(),
                    expected: J::str("no panic"),
                    actual: J::Null,
                    api: String::new(),
                }),
            },
            // no thread to be had (a limit of the machine, nothing about the code under test):
            // run the case where we are
            Err(_) => {
                let (n, opt) = (self.n, self.opt.clone());
                at("");
                (scn.run)(n, &opt)
            }
        }
    }

    pub fn actual_json(&self) -> J {
        J::str("every round trip returns an equal value; the receivers of the v1 and the v2 form agree")
    }
}

/// Every case, smallest `n` first (so that the first witness is the smallest one).
pub fn enumerate() -> Vec<ScaleCase> {
    let known = known();
    let mut all: Vec<(u64, usize, usize, ScaleCase)> = Vec::new();
    for (si, s) in SCENARIOS.iter().enumerate() {
        for (oi, opt) in s.opts.iter().enumerate() {
            for n in (s.sizes)(opt) {
                if n > s.limit {
                    continue;
                }
                if known.iter().any(|(k, o, lo, hi)| k == s.name && (o == opt || o == "*") && *lo <= n && n <= *hi) {
                    continue;
                }
                all.push((
                    n,
                    si,
                    oi,
                    ScaleCase {
                        scenario: s.name.to_string(),
                        n,
                        opt: opt.to_string(),
                    },
                ));
            }
        }
    }
    all.sort_by_key(|(n, si, oi, _)| (*n, *si, *oi));
    all.into_iter().map(|(_, _, _, c)| c).collect()
}

/// `VX_SCALE_TIMES=1`: milliseconds per scenario on stderr at the end of a search.
static TIMES: std::sync::Mutex<Vec<(String, u128, u64)>> = std::sync::Mutex::new(Vec::new());

fn note_time(scenario: &str, opt: &str, ms: u128) {
    if std::env::var_os("VX_SCALE_TIMES").is_none() {
        return;
    }
    let key = format!("{} {}", scenario, opt);
    let mut t = TIMES.lock().unwrap();
    match t.iter_mut().find(|(k, _, _)| *k == key) {
        Some(e) => {
            e.1 += ms;
            e.2 += 1;
        }
        None => t.push((key, ms, 1)),
    }
}

/// The cases up to `n = 300` only (part of the target `codecs`: about a second).
pub fn search_scale_small(r: &mut Runner) -> Result<(), XStop> {
    search_tiers(r, &[SMALL_TIER])
}

const SMALL_TIER: u64 = 300;

pub fn search_scale(r: &mut Runner) -> Result<(), XStop> {
    let res = search_tiers(r, &[SMALL_TIER, 20_000, u64::MAX]);
    if std::env::var_os("VX_SCALE_TIMES").is_some() {
        let mut t = TIMES.lock().unwrap().clone();
        t.sort_by_key(|(_, ms, _)| std::cmp::Reverse(*ms));
        let total: u128 = t.iter().map(|(_, ms, _)| *ms).sum();
        for (k, ms, n) in t {
            eprintln!("{:8} ms {:5} cases  {}", ms, n, k);
        }
        eprintln!("{:8} ms in total", total);
    }
    res
}

fn search_tiers(r: &mut Runner, bounds: &[u64]) -> Result<(), XStop> {
    let cases = enumerate();
    // tiers of growing cost: a disagreement at a small size is reported before the large sizes run
    let mut start = 0;
    for bound in bounds {
        let end = cases.iter().position(|c| c.n > *bound).unwrap_or(cases.len());
        let tier = &cases[start..end];
        start = end;
        if tier.is_empty() {
            continue;
        }
        let deadline = r.deadline;
        r.par(tier.len(), &|ctx: &mut Ctx, i: usize| {
            if let Some(d) = deadline {
                if Instant::now() >= d {
                    return Err(XStop::Timeout);
                }
            }
            let t = Instant::now();
            let res = ctx.exec(XCase::Scale(tier[i].clone())).map(|_| ());
            note_time(&tier[i].scenario, &tier[i].opt, t.elapsed().as_millis());
            res
        })?;
    }
    Ok(())
}

/// Hidden subcommand `scale-cover [scenario]`: runs the enumeration sequentially and prints,
/// per v2 column, which coded run counts and magnitudes around the thresholds occurred.
pub fn cmd_cover(args: &[String]) -> i32 {
    COVER.with(|c| *c.borrow_mut() = Some(Cover::default()));
    let only = args.first().cloned();
    let mut failures = 0;
    for case in enumerate() {
        if let Some(o) = &only {
            if case.scenario != *o {
                continue;
            }
        }
        if case.n > 70_000 {
            continue;
        }
        let t = Instant::now();
        // VX_SCALE_COVER_CASES=1: the run counts of every single case (fresh statistics per case)
        let per_case = std::env::var_os("VX_SCALE_COVER_CASES").is_some();
        let saved = if per_case { COVER.with(|c| c.borrow_mut().replace(Cover::default())) } else { None };
        let res = case.run();
        if per_case {
            let mine = COVER.with(|c| c.borrow_mut().take()).unwrap_or_default();
            let mut line = Vec::new();
            for col in COLUMNS {
                if let Some(set) = mine.counts.get(col) {
                    let big: Vec<String> = set.iter().filter(|v| **v >= 20).map(|v| v.to_string()).collect();
                    if !big.is_empty() {
                        line.push(format!("{}:{}", col, big.join(",")));
                    }
                }
            }
            println!("case {} {} {}: {}", case.scenario, case.opt, case.n, line.join(" "));
            let mut merged = saved.unwrap_or_default();
            for (k, v) in mine.counts {
                merged.counts.entry(k).or_default().extend(v);
            }
            for (k, v) in mine.values {
                merged.values.entry(k).or_default().extend(v);
            }
            COVER.with(|c| *c.borrow_mut() = Some(merged));
        }
        if let Err(f) = res {
            failures += 1;
            println!("FAIL {} {} {}: {} [{}]", case.scenario, case.opt, case.n, f.why, f.api);
        }
        let ms = t.elapsed().as_millis();
        if ms > 400 {
            println!("slow {} {} {}: {} ms", case.scenario, case.opt, case.n, ms);
        }
    }
    let cover = COVER.with(|c| c.borrow_mut().take()).unwrap_or_default();
    let near = |set: &BTreeSet<u64>, ts: &[u64]| -> String {
        ts.iter()
            .map(|t| {
                let hit: Vec<String> = (t - 1..=t + 1).map(|v| if set.contains(&v) { v.to_string() } else { "-".to_string() }).collect();
                format!("[{}]", hit.join(" "))
            })
            .collect::<Vec<_>>()
            .join(" ")
    };
    for col in COLUMNS {
        let empty = BTreeSet::new();
        let counts = cover.counts.get(col).unwrap_or(&empty);
        let values = cover.values.get(col).unwrap_or(&empty);
        println!(
            "{:12} coded counts near 64/128/16384: {}   max {:?}",
            col,
            near(counts, &[64, 128, 16384]),
            counts.iter().next_back()
        );
        println!(
            "{:12} coded values near 64/128/8192/16384/2^20: {}   max {:?}",
            "",
            near(values, &[64, 128, 8192, 16384, 1 << 20]),
            values.iter().next_back()
        );
    }
    println!("failures: {}", failures);
    if failures > 0 {
        1
    } else {
        0
    }
}
