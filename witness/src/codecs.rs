//! Target `codecs`: round trips of enumerated VALUES (not bytes):
//! `decode_v1(encode_v1(x)) == x` and `decode_v2(encode_v2(x)) == x` for
//! state vectors, id sets, snapshots, awareness updates, sticky indexes,
//! `Any` values, `IdMap<String>` and document updates (there also: both
//! encodings describe the same update). A case is `(family, index)` in a
//! deterministic enumeration; the witness line carries a rendering of the
//! value, `replay` rebuilds it from the index.

use crate::dec::{any_decode_v2, any_encode_v1, any_encode_v2, any_eq, b_u32, doc_a, doc_descending, hex};
use crate::ext::{at, Ctx, Runner, XCase, XStop};
use crate::json::J;
use crate::model::Failure;
use std::collections::HashMap;
use std::sync::OnceLock;
use yrs::block::BlockRange;
use yrs::encoding::read::Cursor;
use yrs::sync::awareness::AwarenessUpdateEntry;
use yrs::sync::AwarenessUpdate;
use yrs::updates::decoder::Decode;
use yrs::updates::encoder::Encode;
use yrs::{
    Any, Assoc, ClientID, ContentAttribute, Doc, GetString, IdMap, IdSet, IndexScope, ReadTxn, Snapshot, StateVector,
    StickyIndex, Text, Transact, Update, ID,
};

const MAX_CLIENT: u64 = (1 << 53) - 1;

fn cid(c: u64) -> ClientID {
    ClientID::new(c)
}

fn api_now() -> String {
    crate::ext::current_api()
}

fn bad(why: &str, expected: String, actual: String) -> Failure {
    Failure {
        why: why.to_string(),
        expected: J::Str(expected),
        actual: J::Str(actual),
        api: api_now(),
    }
}

// ---------------------------------------------------------------------------
// the values
// ---------------------------------------------------------------------------

type SvSpec = Vec<(u64, u32)>;
type SetSpec = Vec<(u64, Vec<(u32, u32)>)>;
type AwSpec = Vec<(u64, u32, &'static str)>;

#[derive(Clone, Debug)]
struct StickySpec {
    /// 0 relative, 1 root, 2 nested
    scope: u8,
    client: u64,
    clock: u32,
    name: &'static str,
    before: bool,
}

type MapSpec = Vec<(u64, u32, u32, Vec<(&'static str, &'static str)>)>;

struct Values {
    svs: Vec<SvSpec>,
    sets: Vec<SetSpec>,
    snaps: Vec<(SvSpec, SetSpec)>,
    aws: Vec<AwSpec>,
    stickies: Vec<StickySpec>,
    anys: Vec<Any>,
    maps: Vec<MapSpec>,
}

fn all_svs() -> Vec<SvSpec> {
    let clocks = b_u32();
    let clients = [1u64, MAX_CLIENT, 2];
    let mut out: Vec<SvSpec> = vec![vec![]];
    for c in clients {
        for k in &clocks {
            out.push(vec![(c, *k)]);
        }
    }
    for (a, b) in [(1u64, MAX_CLIENT), (1, 2), (2, MAX_CLIENT)] {
        for k in &clocks {
            for l in &clocks {
                out.push(vec![(a, *k), (b, *l)]);
            }
        }
    }
    for k in &clocks {
        for l in &clocks {
            for m in &clocks {
                out.push(vec![(1, *k), (2, *l), (MAX_CLIENT, *m)]);
            }
        }
    }
    out
}

/// Sorted, pairwise non-touching ranges (so that the set keeps them apart).
fn range_lists() -> Vec<Vec<(u32, u32)>> {
    let pool: [(u32, u32); 12] = [
        (0, 1),
        (0, 2),
        (1, 2),
        (3, 127),
        (127, 128),
        (129, 1025),
        (1024, 1025),
        (1027, 1 << 31),
        ((1 << 31) - 1, (1 << 31) + 1),
        ((1 << 31) + 2, u32::MAX - 2),
        (u32::MAX - 1, u32::MAX),
        (0, u32::MAX),
    ];
    let apart = |a: (u32, u32), b: (u32, u32)| a.1 < b.0;
    let mut out = Vec::new();
    for i in 0..pool.len() {
        out.push(vec![pool[i]]);
        for j in i + 1..pool.len() {
            if !apart(pool[i], pool[j]) {
                continue;
            }
            out.push(vec![pool[i], pool[j]]);
            for k in j + 1..pool.len() {
                if apart(pool[j], pool[k]) {
                    out.push(vec![pool[i], pool[j], pool[k]]);
                }
            }
        }
    }
    // a longer run of short ranges: the v2 delta coding of clocks and lengths
    out.push((0..8).map(|i| (i * 3, i * 3 + 1 + i % 2)).collect());
    out.push((0..6).map(|i| (100 + i * 1000, 100 + i * 1000 + 130)).collect());
    out
}

fn all_sets() -> Vec<SetSpec> {
    let lists = range_lists();
    let mut out: Vec<SetSpec> = vec![vec![]];
    for c in [1u64, MAX_CLIENT] {
        for l in &lists {
            out.push(vec![(c, l.clone())]);
        }
    }
    // two clients: every pair of a reduced list
    let reduced: Vec<&Vec<(u32, u32)>> = lists.iter().filter(|l| l.len() != 2).step_by(5).collect();
    for a in &reduced {
        for b in &reduced {
            out.push(vec![(1, (*a).clone()), (MAX_CLIENT, (*b).clone())]);
        }
    }
    out
}

fn all_snaps(svs: &[SvSpec], sets: &[SetSpec]) -> Vec<(SvSpec, SetSpec)> {
    let mut out = Vec::new();
    for sv in svs.iter().step_by(41) {
        for set in sets.iter().step_by(7) {
            out.push((sv.clone(), set.clone()));
        }
    }
    out
}

fn all_aws() -> Vec<AwSpec> {
    let clocks = b_u32();
    let jsons = ["null", "{}"];
    let mut out: Vec<AwSpec> = vec![vec![]];
    let mut singles: Vec<(u32, &'static str)> = Vec::new();
    for k in &clocks {
        for j in jsons {
            singles.push((*k, j));
        }
    }
    for c in [1u64, MAX_CLIENT] {
        for (k, j) in &singles {
            out.push(vec![(c, *k, *j)]);
        }
    }
    for (k, j) in &singles {
        for (l, i) in &singles {
            out.push(vec![(1, *k, *j), (MAX_CLIENT, *l, *i)]);
        }
    }
    out
}

fn all_stickies() -> Vec<StickySpec> {
    let mut out = Vec::new();
    for before in [false, true] {
        for scope in [0u8, 2] {
            for client in [1u64, MAX_CLIENT] {
                for clock in b_u32() {
                    out.push(StickySpec {
                        scope,
                        client,
                        clock,
                        name: "",
                        before,
                    });
                }
            }
        }
        for name in ["", "a", "é", "😀x"] {
            out.push(StickySpec {
                scope: 1,
                client: 0,
                clock: 0,
                name,
                before,
            });
        }
    }
    out
}

fn map_of(entries: Vec<(&str, Any)>) -> Any {
    let m: HashMap<String, Any> = entries.into_iter().map(|(k, v)| (k.to_string(), v)).collect();
    Any::Map(m.into())
}

fn arr_of(items: Vec<Any>) -> Any {
    Any::Array(items.into())
}

fn all_anys() -> Vec<Any> {
    let mut scalars: Vec<Any> = vec![Any::Null, Any::Undefined, Any::Bool(true), Any::Bool(false)];
    for n in [
        0.0f64,
        -0.0,
        1.0,
        -1.0,
        63.0,
        -63.0,
        64.0,
        -64.0,
        65.0,
        8191.0,
        8192.0,
        -8192.0,
        2147483647.0,
        2147483648.0,
        -2147483648.0,
        4294967296.0,
        9007199254740991.0,
        -9007199254740991.0,
        9007199254740992.0,
        -9007199254740992.0,
        1e300,
        0.5,
        -1.5,
        0.1,
        16777217.0 + 0.5,
        f64::MAX,
        f64::MIN,
        f64::MIN_POSITIVE,
        f64::EPSILON,
        f64::INFINITY,
        f64::NEG_INFINITY,
        f64::NAN,
        f32::MAX as f64,
        f32::MIN_POSITIVE as f64,
    ] {
        scalars.push(Any::Number(n));
    }
    for n in [0i64, 1, -1, 63, 64, i64::MAX, i64::MIN, i64::MIN + 1] {
        scalars.push(Any::BigInt(n));
    }
    for s in ["", "a", "é", "😀", "a😀b\u{0}", "\u{FFFF}\u{10000}", "aaaaaaaaaaaaaaaaaaaaaaaaaaaaaaaaaaaaaaaaaaaaaaaaaaaaaaaaaaaaaaaaaaaaaaaaaaaaaaaaaaaaaaaaaaaaaaaaaaaaaaaaaaaaaaaaaaaaaaaaaaaaaaaaaaaaaaaaaaaaaaaaa"] {
        scalars.push(Any::String(s.into()));
    }
    for b in [vec![], vec![0u8], vec![255, 0, 128, 127], vec![7u8; 200]] {
        scalars.push(Any::Buffer(b.into()));
    }
    let mut out = scalars.clone();
    // depth 1: containers of scalars
    let few: Vec<Any> = vec![
        Any::Null,
        Any::Number(-64.0),
        Any::Number(0.5),
        Any::BigInt(i64::MIN),
        Any::String("😀".into()),
        Any::Buffer(vec![1u8, 2].into()),
    ];
    let mut level1: Vec<Any> = vec![arr_of(vec![]), map_of(vec![])];
    for x in &scalars {
        level1.push(arr_of(vec![x.clone()]));
        level1.push(map_of(vec![("", x.clone())]));
    }
    for x in &few {
        for y in &few {
            level1.push(arr_of(vec![x.clone(), y.clone()]));
            level1.push(map_of(vec![("k", x.clone()), ("é😀", y.clone())]));
        }
    }
    out.extend(level1.iter().cloned());
    // depth 2 and 3 over reduced pools
    let pool1: Vec<Any> = level1.iter().step_by(9).cloned().collect();
    let mut level2: Vec<Any> = Vec::new();
    for x in &pool1 {
        level2.push(arr_of(vec![x.clone()]));
        level2.push(map_of(vec![("a", x.clone())]));
        level2.push(arr_of(vec![Any::Null, x.clone(), Any::from("z")]));
        level2.push(map_of(vec![("a", x.clone()), ("b", Any::Undefined)]));
    }
    out.extend(level2.iter().cloned());
    let pool2: Vec<Any> = level2.iter().step_by(5).cloned().collect();
    for x in &pool2 {
        out.push(arr_of(vec![x.clone()]));
        out.push(map_of(vec![("", x.clone())]));
        out.push(arr_of(vec![x.clone(), arr_of(vec![]), x.clone()]));
        out.push(map_of(vec![("x", x.clone()), ("y", map_of(vec![]))]));
    }
    out
}

fn all_maps() -> Vec<MapSpec> {
    let a = ("insert", "alice");
    let b = ("delete", "bob");
    let c = ("insert", "bob");
    let mut out: Vec<MapSpec> = vec![vec![]];
    for client in [1u64, MAX_CLIENT] {
        for (s, e) in [(0u32, 1u32), (1, 3), (127, 129), (1024, 1025), (u32::MAX - 2, u32::MAX)] {
            for attrs in [vec![a], vec![a, b], vec![a, c], vec![a, b, c]] {
                out.push(vec![(client, s, e, attrs)]);
            }
        }
    }
    out.push(vec![(1, 0, 3, vec![a]), (1, 5, 7, vec![a, b]), (1, 7, 8, vec![c])]);
    out.push(vec![(1, 0, 3, vec![a]), (1, 3, 7, vec![b]), (1, 7, 8, vec![a])]);
    out.push(vec![(1, 0, 3, vec![a]), (9, 128, 1152, vec![b]), (MAX_CLIENT, 1, 2, vec![a, c])]);
    out.push(vec![
        (1, 0, 1, vec![a]),
        (1, 2, 3, vec![a]),
        (1, 4, 5, vec![a]),
        (1, 6, 7, vec![b]),
        (2, 0, 1, vec![a]),
        (2, 1000, 2000, vec![c, b]),
    ]);
    out
}

fn values() -> &'static Values {
    static V: OnceLock<Values> = OnceLock::new();
    V.get_or_init(|| {
        let svs = all_svs();
        let sets = all_sets();
        let snaps = all_snaps(&svs, &sets);
        Values {
            snaps,
            svs,
            sets,
            aws: all_aws(),
            stickies: all_stickies(),
            anys: all_anys(),
            maps: all_maps(),
        }
    })
}

pub const FAMILIES: [&str; 8] = [
    "state_vector",
    "id_set",
    "snapshot",
    "awareness",
    "sticky_index",
    "any",
    "id_map",
    "update",
];

const UPDATE_SCENARIOS: [&str; 4] = ["doc_a", "descending_diff", "descending_full", "text_back_to_front"];

pub fn count(family: &str) -> usize {
    let v = values();
    match family {
        "state_vector" => v.svs.len(),
        "id_set" => v.sets.len(),
        "snapshot" => v.snaps.len(),
        "awareness" => v.aws.len(),
        "sticky_index" => v.stickies.len(),
        "any" => v.anys.len(),
        "id_map" => v.maps.len(),
        "update" => UPDATE_SCENARIOS.len(),
        _ => 0,
    }
}

pub fn render(family: &str, i: usize) -> String {
    let v = values();
    match family {
        "state_vector" => format!("{:?}", v.svs[i]),
        "id_set" => format!("{:?}", v.sets[i]),
        "snapshot" => format!("state {:?} deleted {:?}", v.snaps[i].0, v.snaps[i].1),
        "awareness" => format!("{:?}", v.aws[i]),
        "sticky_index" => format!("{:?}", v.stickies[i]),
        "any" => format!("{:?}", v.anys[i]),
        "id_map" => format!("{:?}", v.maps[i]),
        "update" => UPDATE_SCENARIOS[i].to_string(),
        _ => String::new(),
    }
}

// ---------------------------------------------------------------------------
// building and checking
// ---------------------------------------------------------------------------

fn build_sv(spec: &SvSpec) -> StateVector {
    spec.iter().map(|(c, k)| (cid(*c), *k)).collect()
}

fn build_set(spec: &SetSpec) -> IdSet {
    let mut s = IdSet::new();
    for (c, ranges) in spec {
        for (a, b) in ranges {
            s.insert(ID::new(cid(*c), *a), b - a);
        }
    }
    s
}

fn read_sv(sv: &StateVector) -> SvSpec {
    let mut v: SvSpec = sv.iter().map(|(c, k)| (c.get(), *k)).collect();
    v.sort();
    v
}

fn read_set(s: &IdSet) -> SetSpec {
    let mut v: SetSpec = s
        .iter()
        .map(|(c, r)| (c.get(), r.iter().map(|x| (x.start, x.end)).collect()))
        .collect();
    v.sort();
    v
}

fn sorted<T: Ord + Clone>(v: &[T]) -> Vec<T> {
    let mut v = v.to_vec();
    v.sort();
    v
}

/// Both versions: encode, decode, compare with `==` and through `read`.
fn round_trip<T, R>(name: &str, x: &T, want: &R, read: impl Fn(&T) -> R) -> Result<(), Failure>
where
    T: Encode + Decode + PartialEq,
    R: PartialEq + std::fmt::Debug,
{
    if read(x) != *want {
        at(&format!("building the {} through the public API", name));
        return Err(bad(
            "the value does not read back as it was built",
            format!("{:?}", want),
            format!("{:?}", read(x)),
        ));
    }
    for v in [1, 2] {
        at(&format!("{}::encode_v{}", name, v));
        let bytes = if v == 1 { x.encode_v1() } else { x.encode_v2() };
        at(&format!("{n}::decode_v{v}({n}::encode_v{v}(x))", n = name, v = v));
        let back = if v == 1 { T::decode_v1(&bytes) } else { T::decode_v2(&bytes) };
        match back {
            Err(e) => {
                return Err(bad(
                    "round trip mismatch",
                    format!("{:?}", want),
                    format!("Err({}) for the bytes {}", e, hex(&bytes)),
                ))
            }
            Ok(y) => {
                if read(&y) != *want || y != *x {
                    return Err(bad(
                        "round trip mismatch",
                        format!("{:?}", want),
                        format!("{:?} (== says {}) from the bytes {}", read(&y), y == *x, hex(&bytes)),
                    ));
                }
            }
        }
    }
    Ok(())
}

fn run_sticky(spec: &StickySpec) -> Result<(), Failure> {
    let scope = match spec.scope {
        0 => IndexScope::Relative(ID::new(cid(spec.client), spec.clock)),
        2 => IndexScope::Nested(ID::new(cid(spec.client), spec.clock)),
        _ => IndexScope::Root(spec.name.into()),
    };
    let assoc = if spec.before { Assoc::Before } else { Assoc::After };
    let x = StickyIndex::new(scope.clone(), assoc);
    let want = format!("{:?} {:?}", scope, assoc);
    round_trip("StickyIndex", &x, &want, |s: &StickyIndex| format!("{:?} {:?}", s.scope(), s.assoc))
}

fn run_any(x: &Any) -> Result<(), Failure> {
    at("Any::encode(&mut EncoderV1)");
    let e1 = any_encode_v1(x);
    at("Any::decode(&mut Cursor) of Any::encode(&mut EncoderV1)");
    match Any::decode(&mut Cursor::new(&e1)) {
        Ok(y) if any_eq(&y, x) => {}
        Ok(y) => return Err(bad("round trip mismatch", format!("{:?}", x), format!("{:?} from the bytes {}", y, hex(&e1)))),
        Err(e) => return Err(bad("round trip mismatch", format!("{:?}", x), format!("Err({}) for the bytes {}", e, hex(&e1)))),
    }
    at("EncoderV2::write_any");
    let e2 = any_encode_v2(x);
    at("DecoderV2::read_any of EncoderV2::write_any");
    match any_decode_v2(&e2) {
        Ok(y) if any_eq(&y, x) => {}
        Ok(y) => return Err(bad("round trip mismatch", format!("{:?}", x), format!("{:?} from the bytes {}", y, hex(&e2)))),
        Err(e) => return Err(bad("round trip mismatch", format!("{:?}", x), format!("Err({}) for the bytes {}", e, hex(&e2)))),
    }
    Ok(())
}

fn read_map(m: &IdMap<String>) -> Vec<(u64, u32, u32, Vec<(String, String)>)> {
    let mut v: Vec<(u64, u32, u32, Vec<(String, String)>)> = m
        .iter()
        .map(|(c, r)| {
            let mut attrs: Vec<(String, String)> =
                r.attrs.0.iter().map(|a| (a.name().to_string(), a.value().clone())).collect();
            attrs.sort();
            (c.get(), r.range.start, r.range.end, attrs)
        })
        .collect();
    v.sort();
    v
}

fn run_map(spec: &MapSpec) -> Result<(), Failure> {
    let mut m: IdMap<String> = IdMap::new();
    // one shared instance per distinct attribute, as a producer of such a map would have
    let mut known: Vec<((&str, &str), ContentAttribute<String>)> = Vec::new();
    for (c, s, e, attrs) in spec {
        let mut list = Vec::new();
        for a in attrs {
            let attr = match known.iter().find(|k| k.0 == *a) {
                Some(k) => k.1.clone(),
                None => {
                    let n = ContentAttribute::new(a.0, a.1.to_string());
                    known.push((*a, n.clone()));
                    n
                }
            };
            list.push(attr);
        }
        m.insert(BlockRange::new(ID::new(cid(*c), *s), e - s), list);
    }
    let want: Vec<(u64, u32, u32, Vec<(String, String)>)> = spec
        .iter()
        .map(|(c, s, e, attrs)| {
            let mut a: Vec<(String, String)> = attrs.iter().map(|(n, v)| (n.to_string(), v.to_string())).collect();
            a.sort();
            (*c, *s, *e, a)
        })
        .collect();
    round_trip("IdMap::<String>", &m, &sorted(&want), read_map)
}

/// `(document, state vector the diff is taken against, update to apply first on a receiver)`.
fn scenario(name: &str) -> (Doc, StateVector, Option<Vec<u8>>) {
    match name {
        "doc_a" => (doc_a(), StateVector::default(), None),
        "descending_diff" => {
            let (b, sv_a) = doc_descending();
            let first = Doc::with_client_id(1);
            let t = first.get_or_insert_text("t");
            t.insert(&mut first.transact_mut(), 0, "abcdefgh");
            let pre = first.transact().encode_state_as_update_v1(&StateVector::default());
            (b, sv_a, Some(pre))
        }
        "descending_full" => {
            let (b, _) = doc_descending();
            (b, StateVector::default(), None)
        }
        _ => {
            // one client types a text back to front, character by character, in one transaction
            let d = Doc::with_client_id(1);
            let t = d.get_or_insert_text("t");
            {
                let mut txn = d.transact_mut();
                t.insert(&mut txn, 0, "0123456789");
                for i in (1..10).rev().step_by(2) {
                    t.insert(&mut txn, i, "-");
                }
                for i in (1..8).rev().step_by(3) {
                    t.insert(&mut txn, i, "+");
                }
            }
            (d, StateVector::default(), None)
        }
    }
}

fn receive(pre: &Option<Vec<u8>>, u: Update, what: &str) -> Result<(String, Vec<u8>), Failure> {
    let d = Doc::with_client_id(7);
    let t = d.get_or_insert_text("t");
    if let Some(p) = pre {
        at("TransactionMut::apply_update of the sender's earlier state");
        let first = Update::decode_v1(p).map_err(|e| bad("tool error", "Ok".into(), e.to_string()))?;
        d.transact_mut()
            .apply_update(first)
            .map_err(|e| bad("tool error", "Ok".into(), e.to_string()))?;
    }
    at(&format!("TransactionMut::apply_update of the update decoded from {}", what));
    d.transact_mut()
        .apply_update(u)
        .map_err(|e| bad("round trip mismatch", "Ok".into(), format!("Err({})", e)))?;
    let txn = d.transact();
    Ok((t.get_string(&txn), txn.encode_state_as_update_v1(&StateVector::default())))
}

fn run_update(name: &str) -> Result<(), Failure> {
    let (doc, base, pre) = scenario(name);
    let text = doc.get_or_insert_text("t");
    let txn = doc.transact();
    at("ReadTxn::encode_diff_v1");
    let b1 = txn.encode_diff_v1(&base);
    at("ReadTxn::encode_diff_v2");
    let b2 = txn.encode_diff_v2(&base);
    at("Update::decode_v1(ReadTxn::encode_diff_v1(..))");
    let u1 = Update::decode_v1(&b1).map_err(|e| bad("round trip mismatch", "Ok".into(), format!("Err({}) for {}", e, hex(&b1))))?;
    at("Update::decode_v2(ReadTxn::encode_diff_v2(..))");
    let u2 = Update::decode_v2(&b2).map_err(|e| bad("round trip mismatch", "Ok".into(), format!("Err({}) for {}", e, hex(&b2))))?;
    at("Update::decode_v2(encode_diff_v2) against Update::decode_v1(encode_diff_v1)");
    let (s1, s2) = (format!("{:?}", u1), format!("{:?}", u2));
    if s1 != s2 || u1 != u2 {
        return Err(bad("round trip mismatch: the v2 encoding decodes to a different update than the v1 encoding", s1, s2));
    }
    // (the bytes a document writes carry the parent-sub flag of an item that has origins;
    // a decoded update does not: compare decoded updates with each other, not with `b1`)
    at("Update::encode_v1 of Update::decode_v1(encode_diff_v1)");
    let e1 = u1.encode_v1();
    at("Update::decode_v1(Update::encode_v1(u)) re-encoded");
    match Update::decode_v1(&e1) {
        Ok(w) => {
            let again = w.encode_v1();
            if again != e1 || format!("{:?}", w) != s1 {
                return Err(bad("round trip mismatch", hex(&e1), hex(&again)));
            }
        }
        Err(e) => return Err(bad("round trip mismatch", "Ok".into(), format!("Err({}) for {}", e, hex(&e1)))),
    }
    at("Update::encode_v1 of Update::decode_v2(encode_diff_v2)");
    let e21 = u2.encode_v1();
    if e21 != e1 {
        return Err(bad("round trip mismatch", hex(&e1), hex(&e21)));
    }
    at("Update::decode_v2(Update::encode_v2(u)) re-encoded as v1");
    let e2 = u1.encode_v2();
    match Update::decode_v2(&e2) {
        Ok(w) => {
            let again = w.encode_v1();
            if again != e1 || format!("{:?}", w) != s1 {
                return Err(bad("round trip mismatch", hex(&e1), format!("{} (v2 bytes {})", hex(&again), hex(&e2))));
            }
        }
        Err(e) => return Err(bad("round trip mismatch", "Ok".into(), format!("Err({}) for {}", e, hex(&e2)))),
    }
    at("yrs::merge_updates_v1(&[bytes])");
    let merged = yrs::merge_updates_v1(&[&b1]).map_err(|e| bad("round trip mismatch", "Ok".into(), format!("Err({})", e)))?;
    at("yrs::merge_updates_v2(&[bytes])");
    let merged2 = yrs::merge_updates_v2(&[&b2]).map_err(|e| bad("round trip mismatch", "Ok".into(), format!("Err({})", e)))?;
    at("yrs::encode_state_vector_from_update_v1 / _v2");
    let sv1 = yrs::encode_state_vector_from_update_v1(&b1)
        .and_then(|b| StateVector::decode_v1(&b))
        .map_err(|e| bad("round trip mismatch", "Ok".into(), format!("Err({})", e)))?;
    let sv2 = yrs::encode_state_vector_from_update_v2(&b2)
        .and_then(|b| StateVector::decode_v2(&b))
        .map_err(|e| bad("round trip mismatch", "Ok".into(), format!("Err({})", e)))?;
    if sv1 != sv2 || sv1 != u1.state_vector() {
        return Err(bad(
            "round trip mismatch",
            format!("{:?}", read_sv(&u1.state_vector())),
            format!("v1 {:?}, v2 {:?}", read_sv(&sv1), read_sv(&sv2)),
        ));
    }
    let want = text.get_string(&txn);
    let mut states: Vec<Vec<u8>> = Vec::new();
    let merged_u = Update::decode_v1(&merged).map_err(|e| bad("round trip mismatch", "Ok".into(), format!("Err({})", e)))?;
    let merged_u2 = Update::decode_v2(&merged2).map_err(|e| bad("round trip mismatch", "Ok".into(), format!("Err({})", e)))?;
    for (what, u) in [
        ("encode_diff_v1", u1),
        ("encode_diff_v2", u2),
        ("merge_updates_v1", merged_u),
        ("merge_updates_v2", merged_u2),
    ] {
        let (got, state) = receive(&pre, u, what)?;
        if got != want {
            return Err(bad("round trip mismatch: a receiver shows a different text", want, got));
        }
        states.push(state);
    }
    at("documents that received the v1 / v2 / merged encodings");
    if states.iter().any(|s| *s != states[0]) {
        return Err(bad(
            "round trip mismatch: receivers of the v1 and v2 encodings differ",
            hex(&states[0]),
            states.iter().map(|s| hex(s)).collect::<Vec<_>>().join(" / "),
        ));
    }
    Ok(())
}

pub fn run(family: &str, i: usize) -> Result<(), Failure> {
    let v = values();
    match family {
        "state_vector" => {
            let spec = &v.svs[i];
            round_trip("StateVector", &build_sv(spec), &sorted(spec), read_sv)
        }
        "id_set" => {
            let spec = &v.sets[i];
            round_trip("IdSet", &build_set(spec), &sorted(spec), read_set)
        }
        "snapshot" => {
            let (sv, set) = &v.snaps[i];
            let x = Snapshot::new(build_sv(sv), build_set(set));
            round_trip("Snapshot", &x, &(sorted(sv), sorted(set)), |s: &Snapshot| {
                (read_sv(&s.state_map), read_set(&s.delete_set))
            })
        }
        "awareness" => {
            let spec = &v.aws[i];
            let x = AwarenessUpdate {
                clients: spec
                    .iter()
                    .map(|(c, k, j)| {
                        (
                            cid(*c),
                            AwarenessUpdateEntry {
                                clock: *k,
                                json: (*j).into(),
                            },
                        )
                    })
                    .collect(),
            };
            let want: Vec<(u64, u32, String)> = spec.iter().map(|(c, k, j)| (*c, *k, j.to_string())).collect();
            round_trip("AwarenessUpdate", &x, &sorted(&want), |u: &AwarenessUpdate| {
                let mut r: Vec<(u64, u32, String)> =
                    u.clients.iter().map(|(c, e)| (c.get(), e.clock, e.json.to_string())).collect();
                r.sort();
                r
            })
        }
        "sticky_index" => run_sticky(&v.stickies[i]),
        "any" => run_any(&v.anys[i]),
        "id_map" => run_map(&v.maps[i]),
        "update" => run_update(UPDATE_SCENARIOS[i]),
        _ => Ok(()),
    }
}

// ---------------------------------------------------------------------------
// the case as it appears in a witness line; search
// ---------------------------------------------------------------------------

#[derive(Clone, Debug)]
pub struct CodecCase {
    pub family: String,
    pub index: usize,
}

impl CodecCase {
    pub fn describe(&self) -> (String, J) {
        (
            self.family.clone(),
            J::obj(vec![
                ("kind", J::str("round_trip")),
                ("index", J::Num(self.index as i64)),
                ("value", J::Str(render(&self.family, self.index))),
            ]),
        )
    }

    pub fn from_json(variant: &str, op: &J) -> Result<CodecCase, String> {
        if !FAMILIES.contains(&variant) {
            return Err(format!("unknown variant {:?}", variant));
        }
        let index = op.get("index").and_then(|i| i.as_i64()).ok_or("op.index missing")? as usize;
        if index >= count(variant) {
            return Err(format!("op.index out of range (the family has {} values)", count(variant)));
        }
        if let Some(v) = op.get("value").and_then(|v| v.as_str()) {
            if v != render(variant, index) {
                return Err(format!(
                    "op.value does not match value {} of the enumeration ({})",
                    index,
                    render(variant, index)
                ));
            }
        }
        Ok(CodecCase {
            family: variant.to_string(),
            index,
        })
    }

    pub fn run(&self) -> Result<(), Failure> {
        run(&self.family, self.index)
    }

    pub fn actual_json(&self) -> J {
        J::str("every round trip returns an equal value")
    }
}

pub fn search_codecs(r: &mut Runner) -> Result<(), XStop> {
    for family in FAMILIES {
        let n = count(family);
        let units = (n + 31) / 32;
        r.par(units, &|ctx: &mut Ctx, unit: usize| {
            for i in (unit * 32)..((unit + 1) * 32).min(n) {
                ctx.exec(XCase::Codec(CodecCase {
                    family: family.to_string(),
                    index: i,
                }))?;
            }
            Ok(())
        })?;
    }
    Ok(())
}
