//! Targets `lww` (all), `lww_map`, `lww_attr`, `lww_nested`: the last-writer-wins register behind
//! every key of a map / every XML attribute.
//!
//! "For every key of a map (or XML attribute), once all updates are delivered the key's value is
//! the outcome of a write or removal on that key that no other operation on that key causally
//! follows: a value that has been overwritten or removed by an operation that had seen it never
//! resurfaces, and a write concurrent with a removal survives it. The same holds on every replica
//! at every moment with respect to the operations it has received so far, and overwriting or
//! removing a nested shared type removes its whole subtree."
//!
//! Two or three replicas (client ids from {1, 2, 3, 2^32+1} in every order, GC on and off) hold ONE
//! host: the root Map `m`, a Map nested in the root map `h` (key `n`), the attributes of an
//! XmlElement `<p>` / of an XmlText (first child of the root fragment `x`; hosts are created by a
//! set-up document, client 9, and copied to every replica), or - `lww_nested` - the root Map `m`
//! whose VALUES are nested Map / Array / Text types that other replicas write INTO.
//!
//! Steps: `forced_gc` (stages with skip_gc: `TransactionMut::gc(None)` in an otherwise empty
//! transaction; nothing a replica reads may change, (L1); references to nested types that are not
//! current are dropped before it, the collection frees them), `transaction` (1..3 operations: set a
//! key to a fresh unique number / nested type - also an EMPTY Map / Array, recognised by the
//! `BranchID` its insertion returned -, remove, clear, write into the nested type under a key), `deliver` (ONE captured update, named by the
//! ordinal of the transaction step that produced it, v1 or v2 form, to any replica, in any order,
//! duplicates included), `sync` (`encode_state_as_update_v1|v2` against the receiver's state vector).
//!
//! THE ORACLE knows nothing of yrs' bookkeeping. Per replica: `recv`, the set of updates handed to
//! it. Per update: `deps` = `recv` of its author when it was made (upper bound of what it can
//! depend on); `closed(recv)` = largest subset of `recv` closed under `deps` (surely integrated);
//! `seen` = `closed(recv(author))` plus the author's own earlier updates. `o1 < o2` (o2 causally
//! follows o1, "had seen it") iff o1's update is in `seen(o2)` (or same update, earlier index).
//! Per operation on a key: set (write number) or removal, and its `target`: the write whose value
//! the acting replica READ under the key right before (what a removal removes).
//!
//!  (L0) the point reads and the listing reads of the host agree (needed to speak of "the value").
//!  (L1) LOCAL EFFECT: right after a local set the acting replica reads that value, right after a
//!       local remove / clear it reads nothing (inside the open transaction and after the commit).
//!  (L2) MAXIMAL OUTCOME, with C = operations on the key in `closed(recv)`, R = those in `recv`:
//!       a value read is the value of a set in R that no operation of C follows; "nothing" is read
//!       only if C is empty or some removal r in R is followed by no operation of C AND no set s of
//!       C had seen the value r removed without r having seen s ("a write that had seen the removed
//!       value survives the concurrent removal").
//!       `"write_survives_any_removal":true` (OFF by default, see REPORT below) adds the literal
//!       clause: with R = C, if any maximal operation is a set, "nothing" must not be read.
//!       `"atomic_updates":true` (OFF by default) forbids the leniency for a received update whose
//!       causal past is incomplete: by default a set of R \ C counts as a removal of its target
//!       (yrs applies the delete set of an update at once while its blocks wait in the stash).
//!  (L3) NO RESURFACING: the message of (L2) when the value read belongs to a received write that
//!       an operation of C follows.
//!  (L4) AGREEMENT: replicas with the same `recv` read the same value for every key, the same len.
//!  (L5) SUBTREE (`lww_nested`, skip_gc = true: with GC the branch behind a held reference is
//!       freed): a MapRef / ArrayRef / TextRef obtained while the nested type was readable shows no
//!       content (len 0, nothing iterated, no key readable, empty string) once (a) an operation that
//!       follows the write of the nested type is in `closed(recv)`, or (b) the write itself is in
//!       `closed(recv)` and the key reads as something else (it lost against a concurrent write),
//!       whatever arrives later.
//!
//! REPORT (unchanged tree): the literal clause "a write concurrent with a removal survives it" does
//! not hold when the write is ALSO concurrent with the removed value and loses the client-id
//! arbitration against it: replica 2 (client 2) sets a=1 and removes a, replica 1 (client 1) sets
//! a=2 concurrently; everywhere the entry of client 2 is the rightmost, it is deleted, the key
//! reads nothing. Hence the flag.
//!
//! OBSERVATION (unchanged tree, `"atomic_updates":true` reports it): an update whose blocks wait in
//! the stash (an earlier update of its client is missing) has its delete set applied at once, and
//! this tree integrates an independent later block behind a gap: a replica can read "nothing" for
//! a key on which it has received only writes, until the missing update arrives.
//!
//! ENUMERATION: breadth first over the number of steps, all stages in turn at every depth (the
//! cheap `core` alphabets one step ahead; the `lww_nested` stages with GC in a second pass);
//! adjacent independent steps in one order only; a history of full depth is closed by delivering
//! everything outstanding (ascending creation order on odd replicas, descending on even ones);
//! a duplicate delivery is checked, not extended. Universe 6: 134 stages, 8.8 million cases,
//! about a minute on 8 jobs (release profile). Debugging aids: VX_LWW_ONLY, VX_LWW_TIMES,
//! VX_LWW_TRACE, VX_LWW_STRICT, VX_LWW_ATOMIC (see `cmd_search`, `Stage::case`).
//!
//! SANITY (scratch copy of /repo, one breakage at a time, all found at `--universe 6`, the case
//! replays as failing there and as passing on the real tree): `ItemPtr::splice` map-pointer fix-up
//! after `item.right = ..` (L1, 6 steps, 5 s); `Item::needs_deletion` parent test only without
//! `parent_sub` (L5; with GC that tree crashes the process); `Xml::insert_attribute` / `Map::insert`
//! with left = None after a removal (L1); `integrate_item` keeps the overridden entry (L5);
//! `Map::clear` skips foreign entries (L1); remote delete set ignored for map entries (L3).
//! Uses the search harness of evt.rs.

use crate::evt::{at, finish, finish_replay, guarded, Found, Hunt, Stop, Tally};
use crate::json::J;
use crate::model::Failure;
use std::collections::BTreeMap;
use std::sync::{Arc, Mutex};
use std::time::Instant;
use yrs::types::ToJson;
use yrs::updates::decoder::Decode;
use yrs::{
    Any, Array, ArrayPrelim, ArrayRef, ClientID, Doc, GetString, In, Map, MapPrelim, MapRef, Options, Out, ReadTxn, StateVector,
    Subscription, Text, TextPrelim, TextRef, Transact, TransactionMut, Update, Xml, XmlElementPrelim, XmlElementRef, XmlFragment,
    XmlOut, XmlTextPrelim, XmlTextRef,
};

pub const TARGETS: &str = "lww | lww_map | lww_attr | lww_nested";

pub fn is_target(target: &str) -> bool {
    matches!(target, "lww" | "lww_map" | "lww_attr" | "lww_nested")
}

/// Is this witness line one of ours?
pub fn owns(j: &J) -> bool {
    j.get("target").and_then(|t| t.as_str()).map(is_target).unwrap_or(false)
}

const ROOT_MAP: &str = "m";
const OUTER_MAP: &str = "h";
const NESTED_KEY: &str = "n";
const XML_ROOT: &str = "x";
const KEYS: [&str; 2] = ["a", "b"];
const SETUP_CLIENT: u64 = 9;
const BIG: u64 = (1u64 << 32) + 1;
const MAX_UPDATES: usize = 60;

// ---------------------------------------------------------------------------
// cases
// ---------------------------------------------------------------------------

#[derive(Clone, Copy, Debug, PartialEq, Eq)]
pub enum Host {
    Root,
    Nested,
    Elem,
    Text,
    Values,
}

const HOSTS: [Host; 5] = [Host::Root, Host::Nested, Host::Elem, Host::Text, Host::Values];

impl Host {
    fn name(self) -> &'static str {
        match self {
            Host::Root => "root_map",
            Host::Nested => "map_in_map",
            Host::Elem => "xml_element_attributes",
            Host::Text => "xml_text_attributes",
            Host::Values => "root_map_nested_values",
        }
    }
    fn is_xml(self) -> bool {
        matches!(self, Host::Elem | Host::Text)
    }
}

#[derive(Clone, Copy, Debug, PartialEq, Eq)]
pub enum Kind {
    Map,
    Array,
    Text,
    /// `MapPrelim::default()` / an `ArrayPrelim` without elements: no content that names the write;
    /// recognised by the `BranchID` the insertion returned (an opaque identity, nothing else is used)
    EmptyMap,
    EmptyArray,
}

const KINDS: [Kind; 5] = [Kind::Map, Kind::Array, Kind::Text, Kind::EmptyMap, Kind::EmptyArray];

impl Kind {
    fn name(self) -> &'static str {
        match self {
            Kind::Map => "map",
            Kind::Array => "array",
            Kind::Text => "text",
            Kind::EmptyMap => "empty_map",
            Kind::EmptyArray => "empty_array",
        }
    }
}

#[derive(Clone, Debug, PartialEq)]
pub enum Op {
    /// set the key to a fresh unique number
    Set { key: u8 },
    /// set the key to a nested type whose initial content carries the fresh unique number
    SetType { key: u8, kind: Kind },
    Remove { key: u8 },
    Clear,
    /// write a fresh unique number INTO the nested type read under the key
    Inner { key: u8 },
}

impl Op {
    fn json(&self) -> J {
        let k = |key: &u8| J::str(KEYS[*key as usize]);
        match self {
            Op::Set { key } => J::obj(vec![("op", J::str("set")), ("key", k(key))]),
            Op::SetType { key, kind } => J::obj(vec![("op", J::str("set")), ("key", k(key)), ("value", J::str(kind.name()))]),
            Op::Remove { key } => J::obj(vec![("op", J::str("remove")), ("key", k(key))]),
            Op::Clear => J::obj(vec![("op", J::str("clear"))]),
            Op::Inner { key } => J::obj(vec![("op", J::str("inner_write")), ("key", k(key))]),
        }
    }

    fn from_json(j: &J, what: &str) -> Result<Op, String> {
        let key = || -> Result<u8, String> {
            let name = j.get("key").and_then(|k| k.as_str()).ok_or_else(|| format!("{}.key missing", what))?;
            KEYS.iter().position(|n| *n == name).map(|p| p as u8).ok_or_else(|| format!("{}.key: expected one of {:?}", what, KEYS))
        };
        match j.get("op").and_then(|o| o.as_str()) {
            Some("set") => match j.get_non_null("value").map(|v| v.as_str()) {
                None => Ok(Op::Set { key: key()? }),
                Some(Some(name)) => match KINDS.into_iter().find(|k| k.name() == name) {
                    Some(kind) => Ok(Op::SetType { key: key()?, kind }),
                    None => Err(format!("{}.value: expected map | array | text | empty_map | empty_array (or absent: a number)", what)),
                },
                _ => Err(format!("{}.value: expected a string", what)),
            },
            Some("remove") => Ok(Op::Remove { key: key()? }),
            Some("clear") => Ok(Op::Clear),
            Some("inner_write") => Ok(Op::Inner { key: key()? }),
            _ => Err(format!("{}.op: expected set | remove | clear | inner_write", what)),
        }
    }
}

#[derive(Clone, Debug, PartialEq)]
pub enum Step {
    Txn { replica: usize, ops: Vec<Op> },
    /// `upd`: ordinal (0-based) of the transaction step whose update is delivered
    Deliver { to: usize, upd: usize, v2: bool },
    Sync { to: usize, from: usize, v2: bool },
    /// `TransactionMut::gc(None)` inside an otherwise empty transaction (a replica with skip_gc)
    Gc { replica: usize },
}

impl Step {
    fn json(&self) -> J {
        let fmt = |v2: &bool| J::str(if *v2 { "v2" } else { "v1" });
        match self {
            Step::Txn { replica, ops } => J::obj(vec![
                ("step", J::str("transaction")),
                ("replica", J::Num(*replica as i64 + 1)),
                ("ops", J::Arr(ops.iter().map(|o| o.json()).collect())),
            ]),
            Step::Deliver { to, upd, v2 } => J::obj(vec![
                ("step", J::str("deliver")),
                ("to_replica", J::Num(*to as i64 + 1)),
                ("update_of_transaction", J::Num(*upd as i64 + 1)),
                ("format", fmt(v2)),
            ]),
            Step::Sync { to, from, v2 } => J::obj(vec![
                ("step", J::str("sync")),
                ("to_replica", J::Num(*to as i64 + 1)),
                ("from_replica", J::Num(*from as i64 + 1)),
                ("format", fmt(v2)),
            ]),
            Step::Gc { replica } => J::obj(vec![("step", J::str("forced_gc")), ("replica", J::Num(*replica as i64 + 1))]),
        }
    }
}

#[derive(Clone, Debug)]
pub struct Case {
    pub target: String,
    pub variant: String,
    pub host: Host,
    pub clients: Vec<u64>,
    pub gc: bool,
    /// the literal clause "a write concurrent with a removal survives it" (off by default)
    pub strict_survive: bool,
    /// no leniency for updates whose causal past is incomplete (off by default)
    pub atomic: bool,
    pub steps: Vec<Step>,
}

impl Case {
    fn fields(&self, steps: &[Step]) -> Vec<(&'static str, J)> {
        vec![
            ("target", J::str(&self.target)),
            ("variant", J::str(&self.variant)),
            (
                "op",
                J::obj(vec![
                    ("kind", J::str("lww")),
                    ("host", J::str(self.host.name())),
                    ("clients", J::Arr(self.clients.iter().map(|c| J::Num(*c as i64)).collect())),
                    ("gc", J::Bool(self.gc)),
                    ("write_survives_any_removal", J::Bool(self.strict_survive)),
                    ("atomic_updates", J::Bool(self.atomic)),
                    ("steps", J::Arr(steps.iter().map(|s| s.json()).collect())),
                ]),
            ),
        ]
    }

    pub fn from_json(j: &J) -> Result<Case, String> {
        let target = j.get("target").and_then(|t| t.as_str()).unwrap_or("lww").to_string();
        let variant = j.get("variant").and_then(|t| t.as_str()).unwrap_or("replay").to_string();
        let op = j.get("op").ok_or("op missing")?;
        let host = match op.get_non_null("host").map(|h| h.as_str()) {
            None => Host::Root,
            Some(Some(s)) => HOSTS.into_iter().find(|h| h.name() == s).ok_or_else(|| format!("op.host: unknown host {:?}", s))?,
            _ => return Err("op.host: expected a string".into()),
        };
        let mut clients: Vec<u64> = Vec::new();
        let cs = op.get("clients").and_then(|c| c.as_arr()).ok_or("op.clients: expected an array of 2 or 3 client ids")?;
        for c in cs {
            match c.as_i64() {
                Some(n) if n >= 0 && (n as u64) < (1u64 << 53) && n as u64 != SETUP_CLIENT => clients.push(n as u64),
                _ => return Err(format!("op.clients: expected 53-bit client ids other than {}", SETUP_CLIENT)),
            }
        }
        if clients.len() < 2 || clients.len() > 3 {
            return Err("op.clients: expected 2 or 3 client ids".into());
        }
        for i in 0..clients.len() {
            if clients[..i].contains(&clients[i]) {
                return Err("op.clients: the client ids must differ".into());
            }
        }
        let flag = |name: &str, default: bool| -> Result<bool, String> {
            match op.get_non_null(name) {
                None => Ok(default),
                Some(J::Bool(b)) => Ok(*b),
                _ => Err(format!("op.{}: expected true | false", name)),
            }
        };
        let replica = |j: Option<&J>, what: &str| -> Result<usize, String> {
            match j.and_then(|v| v.as_i64()) {
                Some(n) if n >= 1 && (n as usize) <= clients.len() => Ok(n as usize - 1),
                _ => Err(format!("{}: expected a replica in 1..={}", what, clients.len())),
            }
        };
        let format = |st: &J, what: &str| -> Result<bool, String> {
            match st.get_non_null("format").map(|f| f.as_str()) {
                None | Some(Some("v1")) => Ok(false),
                Some(Some("v2")) => Ok(true),
                _ => Err(format!("{}.format: expected v1 | v2", what)),
            }
        };
        let arr = op.get("steps").and_then(|s| s.as_arr()).ok_or("op.steps: expected an array")?;
        let mut steps = Vec::new();
        let mut txns = 0usize;
        for (i, st) in arr.iter().enumerate() {
            let what = format!("op.steps[{}]", i);
            match st.get("step").and_then(|s| s.as_str()) {
                Some("transaction") => {
                    let r = replica(st.get("replica"), &format!("{}.replica", what))?;
                    let ops_j = st.get("ops").and_then(|o| o.as_arr()).ok_or_else(|| format!("{}.ops missing", what))?;
                    let mut ops = Vec::new();
                    for (k, o) in ops_j.iter().enumerate() {
                        let op = Op::from_json(o, &format!("{}.ops[{}]", what, k))?;
                        if host.is_xml() && matches!(op, Op::Clear) {
                            return Err(format!("{}.ops[{}]: the XML attribute API has no clear", what, k));
                        }
                        ops.push(op);
                    }
                    if ops.is_empty() {
                        return Err(format!("{}.ops: empty", what));
                    }
                    txns += 1;
                    if txns > MAX_UPDATES {
                        return Err(format!("at most {} transactions", MAX_UPDATES));
                    }
                    steps.push(Step::Txn { replica: r, ops });
                }
                Some("deliver") => {
                    let to = replica(st.get("to_replica"), &format!("{}.to_replica", what))?;
                    let upd = match st.get("update_of_transaction").and_then(|v| v.as_i64()) {
                        Some(n) if n >= 1 && (n as usize) <= txns => n as usize - 1,
                        _ => return Err(format!("{}.update_of_transaction: expected the ordinal of an earlier transaction step", what)),
                    };
                    steps.push(Step::Deliver { to, upd, v2: format(st, &what)? });
                }
                Some("sync") => {
                    let to = replica(st.get("to_replica"), &format!("{}.to_replica", what))?;
                    let from = replica(st.get("from_replica"), &format!("{}.from_replica", what))?;
                    if to == from {
                        return Err(format!("{}: to_replica and from_replica must differ", what));
                    }
                    steps.push(Step::Sync { to, from, v2: format(st, &what)? });
                }
                Some("forced_gc") => steps.push(Step::Gc { replica: replica(st.get("replica"), &format!("{}.replica", what))? }),
                _ => return Err(format!("{}.step: expected transaction | deliver | sync | forced_gc", what)),
            }
        }
        Ok(Case {
            target,
            variant,
            host,
            clients,
            gc: flag("gc", true)?,
            strict_survive: flag("write_survives_any_removal", false)?,
            atomic: flag("atomic_updates", false)?,
            steps,
        })
    }
}

// ---------------------------------------------------------------------------
// reading
// ---------------------------------------------------------------------------

/// What a key reads as.
#[derive(Clone, Debug, PartialEq)]
enum Obs {
    None,
    /// the number of the write
    Val(i64),
    /// a nested type whose initial content carries the number of the write
    Type(Kind, i64),
    Other(String),
}

impl Obs {
    fn json(&self) -> J {
        match self {
            Obs::None => J::str("nothing"),
            Obs::Val(n) => J::Num(*n),
            Obs::Type(k, n) => J::obj(vec![("nested", J::str(k.name())), ("of_write", J::Num(*n))]),
            Obs::Other(s) => J::obj(vec![("unexpected", J::str(s))]),
        }
    }
    fn write(&self) -> Option<i64> {
        match self {
            Obs::Val(n) | Obs::Type(_, n) => Some(*n),
            _ => None,
        }
    }
}

#[derive(Clone)]
enum Held {
    Map(MapRef),
    Array(ArrayRef),
    Text(TextRef),
}

fn number(o: &Out) -> Option<i64> {
    match o {
        Out::Any(Any::Number(f)) if f.fract() == 0.0 && f.abs() < 1e15 => Some(*f as i64),
        Out::Any(Any::BigInt(n)) => Some(*n),
        _ => None,
    }
}

/// Identity of the nested types written EMPTY: (client, clock) of the `BranchID` -> (kind, write number).
type Ids = Vec<((u64, u32), (Kind, i64))>;

fn branch_key(b: &yrs::branch::Branch) -> Option<(u64, u32)> {
    match b.id() {
        yrs::BranchID::Nested(id) => Some((id.client.get(), id.clock)),
        yrs::BranchID::Root(_) => None,
    }
}

fn decode<T: ReadTxn>(txn: &T, o: &Out, ids: &Ids) -> (Obs, Option<Held>) {
    if let Some(n) = number(o) {
        return (Obs::Val(n), None);
    }
    // a type written empty: named by its identity, whatever it holds by now
    let known = |b: &yrs::branch::Branch| branch_key(b).and_then(|k| ids.iter().find(|(i, _)| *i == k).map(|(_, v)| *v));
    match o {
        Out::YMap(m) if known(m.as_ref()).is_some() => {
            let (kind, n) = known(m.as_ref()).unwrap();
            return (Obs::Type(kind, n), Some(Held::Map(m.clone())));
        }
        Out::YArray(a) if known(a.as_ref()).is_some() => {
            let (kind, n) = known(a.as_ref()).unwrap();
            return (Obs::Type(kind, n), Some(Held::Array(a.clone())));
        }
        _ => {}
    }
    match o {
        Out::YMap(m) => {
            at("Map::get (nested map)");
            let obs = match m.get(txn, "v").as_ref().and_then(number) {
                Some(n) => Obs::Type(Kind::Map, n),
                None => Obs::Other("a nested Map without its initial entry \"v\"".to_string()),
            };
            (obs, Some(Held::Map(m.clone())))
        }
        Out::YArray(a) => {
            at("Array::get (nested array)");
            let obs = match a.get(txn, 0).as_ref().and_then(number) {
                Some(n) => Obs::Type(Kind::Array, n),
                None => Obs::Other("a nested Array without its initial element".to_string()),
            };
            (obs, Some(Held::Array(a.clone())))
        }
        Out::YText(t) => {
            at("Text::get_string (nested text)");
            let s = t.get_string(txn);
            let obs = match s.split(';').next().and_then(|p| p.parse::<i64>().ok()) {
                Some(n) => Obs::Type(Kind::Text, n),
                None => Obs::Other(format!("a nested Text without its initial content: {:?}", s)),
            };
            (obs, Some(Held::Text(t.clone())))
        }
        Out::Any(a) => (Obs::Other(format!("{:?}", a)), None),
        _ => (Obs::Other("a shared type no script wrote".to_string()), None),
    }
}

enum HostRef {
    Map(MapRef),
    Elem(XmlElementRef),
    Text(XmlTextRef),
}

fn read_point<T: ReadTxn>(host: &HostRef, txn: &T, key: &str) -> Option<Out> {
    match host {
        HostRef::Map(m) => {
            at("Map::get");
            m.get(txn, key)
        }
        HostRef::Elem(e) => {
            at("Xml::get_attribute");
            e.get_attribute(txn, key)
        }
        HostRef::Text(t) => {
            at("Xml::get_attribute");
            t.get_attribute(txn, key)
        }
    }
}

struct Reading {
    obs: Vec<Obs>,
    refs: Vec<Option<Held>>,
    len: usize,
}

impl Reading {
    fn json(&self) -> J {
        let mut f: Vec<(&str, J)> = KEYS.iter().zip(self.obs.iter()).map(|(k, o)| (*k, o.json())).collect();
        f.push(("len", J::Num(self.len as i64)));
        J::obj(f)
    }
}

/// Reads every key through the point reads and the listing reads; `Err`: they disagree (L0).
fn read_all<T: ReadTxn>(host: &HostRef, txn: &T, ids: &Ids) -> Result<Reading, String> {
    let mut obs = Vec::new();
    let mut refs = Vec::new();
    for k in KEYS.iter() {
        let (o, h) = match read_point(host, txn, k) {
            Some(out) => decode(txn, &out, ids),
            None => (Obs::None, None),
        };
        obs.push(o);
        refs.push(h);
    }
    let listed: Vec<(String, Out)> = match host {
        HostRef::Map(m) => {
            at("Map::iter");
            m.iter(txn).map(|(k, v)| (k.to_string(), v)).collect()
        }
        HostRef::Elem(e) => {
            at("Xml::attributes");
            e.attributes(txn).map(|(k, v)| (k.to_string(), v)).collect()
        }
        HostRef::Text(t) => {
            at("Xml::attributes");
            t.attributes(txn).map(|(k, v)| (k.to_string(), v)).collect()
        }
    };
    let mut seen: BTreeMap<String, Obs> = BTreeMap::new();
    for (k, v) in listed.iter() {
        if !KEYS.contains(&k.as_str()) {
            return Err(format!("the listing read yields key {:?}, which no script wrote", k));
        }
        if seen.insert(k.clone(), decode(txn, v, ids).0).is_some() {
            return Err(format!("the listing read yields key {:?} twice", k));
        }
    }
    for (i, k) in KEYS.iter().enumerate() {
        let l = seen.get(*k).cloned().unwrap_or(Obs::None);
        if l != obs[i] {
            return Err(format!("key {:?}: the point read yields {}, the listing read yields {}", k, obs[i].json(), l.json()));
        }
    }
    let live = obs.iter().filter(|o| **o != Obs::None).count();
    if let HostRef::Map(m) = host {
        at("Map::len");
        let len = m.len(txn) as usize;
        if len != live {
            return Err(format!("Map::len is {}, {} keys read as present", len, live));
        }
        for (i, k) in KEYS.iter().enumerate() {
            at("Map::contains_key");
            let c = m.contains_key(txn, k);
            if c != (obs[i] != Obs::None) {
                return Err(format!("Map::contains_key({:?}) is {}, Map::get yields {}", k, c, obs[i].json()));
            }
        }
        at("MapRef::to_json");
        match m.to_json(txn) {
            Any::Map(j) => {
                for (i, k) in KEYS.iter().enumerate() {
                    if j.contains_key(*k) != (obs[i] != Obs::None) {
                        return Err(format!("MapRef::to_json {} key {:?}, Map::get yields {}", if j.contains_key(*k) { "shows" } else { "lacks" }, k, obs[i].json()));
                    }
                    if let (Some(Any::Number(f)), Obs::Val(n)) = (j.get(*k), &obs[i]) {
                        if *f != *n as f64 {
                            return Err(format!("MapRef::to_json()[{:?}] is {}, Map::get yields {}", k, f, n));
                        }
                    }
                }
                if j.len() != live {
                    return Err(format!("MapRef::to_json has {} members, {} keys read as present", j.len(), live));
                }
            }
            _ => return Err("MapRef::to_json is not an object".to_string()),
        }
    }
    Ok(Reading { obs, refs, len: live })
}

/// A held reference to a nested type that was overwritten / removed: what it still shows (None: nothing).
fn held_content<T: ReadTxn>(h: &Held, txn: &T) -> Option<String> {
    match h {
        Held::Map(m) => {
            at("Map::len / iter / get (held reference)");
            let len = m.len(txn);
            let listed: Vec<String> = m.iter(txn).map(|(k, _)| k.to_string()).collect();
            let point: Vec<&str> = ["v", "w"].into_iter().filter(|k| m.get(txn, k).is_some()).collect();
            if len != 0 || !listed.is_empty() || !point.is_empty() {
                return Some(format!("Map: len {}, iter yields keys {:?}, get finds keys {:?}", len, listed, point));
            }
            None
        }
        Held::Array(a) => {
            at("Array::len / iter (held reference)");
            let len = a.len(txn);
            let n = a.iter(txn).count();
            if len != 0 || n != 0 {
                return Some(format!("Array: len {}, iter yields {} elements", len, n));
            }
            None
        }
        Held::Text(t) => {
            at("Text::len / get_string (held reference)");
            let len = t.len(txn);
            let s = t.get_string(txn);
            if len != 0 || !s.is_empty() {
                return Some(format!("Text: len {}, get_string {:?}", len, s));
            }
            None
        }
    }
}

// ---------------------------------------------------------------------------
// replicas and the oracle's tables
// ---------------------------------------------------------------------------

type Log = Arc<Mutex<Vec<Vec<u8>>>>;

fn lock<T>(m: &Mutex<T>) -> std::sync::MutexGuard<'_, T> {
    m.lock().unwrap_or_else(|e| e.into_inner())
}

struct Rep {
    _subs: Vec<Subscription>,
    host: HostRef,
    log1: Log,
    log2: Log,
    recv: u64,
    /// (write number, reference) of every nested type this replica has read (skip_gc only)
    held: Vec<(i64, Held)>,
    doc: Doc,
}

struct UpdRec {
    author: usize,
    deps: u64,
    seen: u64,
    v1: Option<Vec<u8>>,
    v2: Option<Vec<u8>>,
}

#[derive(Clone, Debug)]
struct OpRec {
    upd: usize,
    idx: usize,
    key: u8,
    /// Some(n): set with write number n; None: a removal
    set: Option<i64>,
    /// the write whose value the acting replica read under the key right before
    target: Option<i64>,
}

fn invalid(why: String) -> Failure {
    Failure {
        why: format!("invalid case: {}", why),
        expected: J::Null,
        actual: J::Null,
        api: "(none)".to_string(),
    }
}

fn is_invalid(f: &Failure) -> bool {
    f.why.starts_with("invalid case: ")
}

fn new_doc(client: u64, gc: bool) -> Doc {
    at("Doc::with_options");
    let mut o = Options::with_client_id(ClientID::new(client));
    o.skip_gc = !gc;
    Doc::with_options(o)
}

fn apply_bytes(doc: &Doc, bytes: &[u8], v2: bool) -> Result<(), Failure> {
    at(if v2 { "Update::decode_v2" } else { "Update::decode_v1" });
    let update = if v2 { Update::decode_v2(bytes) } else { Update::decode_v1(bytes) }
        .map_err(|e| invalid(format!("an update just encoded does not decode: {}", e)))?;
    at("TransactionMut::apply_update");
    let mut txn = doc.transact_mut();
    txn.apply_update(update).map_err(|e| invalid(format!("apply_update failed: {}", e)))?;
    at("TransactionMut::commit (remote update)");
    drop(txn);
    Ok(())
}

fn setup(case: &Case) -> Result<Vec<Rep>, Failure> {
    let seed: Option<Vec<u8>> = match case.host {
        Host::Root | Host::Values => None,
        Host::Nested => {
            let d = new_doc(SETUP_CLIENT, case.gc);
            let outer = d.get_or_insert_map(OUTER_MAP);
            at("Map::insert (set-up)");
            outer.insert(&mut d.transact_mut(), NESTED_KEY, MapPrelim::default());
            let bytes = d.transact().encode_state_as_update_v1(&StateVector::default());
            Some(bytes)
        }
        Host::Elem | Host::Text => {
            let d = new_doc(SETUP_CLIENT, case.gc);
            let frag = d.get_or_insert_xml_fragment(XML_ROOT);
            at("XmlFragment::insert (set-up)");
            if case.host == Host::Elem {
                frag.insert(&mut d.transact_mut(), 0, XmlElementPrelim::empty("p"));
            } else {
                frag.insert(&mut d.transact_mut(), 0, XmlTextPrelim::new("t"));
            }
            let bytes = d.transact().encode_state_as_update_v1(&StateVector::default());
            Some(bytes)
        }
    };
    let missing = |what: &str| invalid(format!("set-up: {} is not readable on a replica", what));
    let mut reps = Vec::new();
    for c in case.clients.iter() {
        let doc = new_doc(*c, case.gc);
        let host = match case.host {
            Host::Root | Host::Values => HostRef::Map(doc.get_or_insert_map(ROOT_MAP)),
            Host::Nested => {
                let outer = doc.get_or_insert_map(OUTER_MAP);
                apply_bytes(&doc, seed.as_ref().unwrap(), false)?;
                let got = outer.get(&doc.transact(), NESTED_KEY);
                match got {
                    Some(Out::YMap(m)) => HostRef::Map(m),
                    _ => return Err(missing("the nested map")),
                }
            }
            Host::Elem | Host::Text => {
                let frag = doc.get_or_insert_xml_fragment(XML_ROOT);
                apply_bytes(&doc, seed.as_ref().unwrap(), false)?;
                let got = frag.get(&doc.transact(), 0);
                match got {
                    Some(XmlOut::Element(e)) if case.host == Host::Elem => HostRef::Elem(e),
                    Some(XmlOut::Text(t)) if case.host == Host::Text => HostRef::Text(t),
                    _ => return Err(missing("the XML node")),
                }
            }
        };
        let (log1, log2): (Log, Log) = (Arc::new(Mutex::new(Vec::new())), Arc::new(Mutex::new(Vec::new())));
        let mut subs = Vec::new();
        at("Doc::observe_update_v1");
        let sink = log1.clone();
        subs.push(
            doc.observe_update_v1(move |_, e| lock(&sink).push(e.update.clone()))
                .map_err(|_| invalid("the update observer cannot be attached".to_string()))?,
        );
        at("Doc::observe_update_v2");
        let sink = log2.clone();
        subs.push(
            doc.observe_update_v2(move |_, e| lock(&sink).push(e.update.clone()))
                .map_err(|_| invalid("the update observer cannot be attached".to_string()))?,
        );
        reps.push(Rep {
            _subs: subs,
            host,
            log1,
            log2,
            recv: 0,
            held: Vec::new(),
            doc,
        });
    }
    Ok(reps)
}

struct World<'a> {
    case: &'a Case,
    reps: Vec<Rep>,
    upds: Vec<UpdRec>,
    ops: Vec<OpRec>,
    ids: Ids,
    next: i64,
}

/// Where a check happens.
struct Ctx {
    step: usize,
    moment: String,
}

impl<'a> World<'a> {
    fn closed(&self, recv: u64) -> u64 {
        let mut c = 0u64;
        for (i, u) in self.upds.iter().enumerate() {
            if (recv >> i) & 1 == 1 && u.deps & !c == 0 {
                c |= 1 << i;
            }
        }
        c
    }

    /// `b` causally follows `a`.
    fn precedes(&self, a: &OpRec, b: &OpRec) -> bool {
        if a.upd == b.upd {
            a.idx < b.idx
        } else {
            (self.upds[b.upd].seen >> a.upd) & 1 == 1
        }
    }

    fn write_of(&self, key: u8, n: i64) -> Option<&OpRec> {
        self.ops.iter().find(|o| o.key == key && o.set == Some(n))
    }

    fn op_json(&self, o: &OpRec, recv: u64, closed: u64) -> J {
        let followers: Vec<J> = self
            .ops
            .iter()
            .filter(|p| p.key == o.key && self.precedes(o, p))
            .map(|p| J::str(&format!("t{}.{}", p.upd + 1, p.idx + 1)))
            .collect();
        J::obj(vec![
            ("id", J::str(&format!("t{}.{}", o.upd + 1, o.idx + 1))),
            (
                "op",
                match o.set {
                    Some(n) => J::str(&format!("set -> {}", n)),
                    None => J::str(&format!("remove (of {})", o.target.map(|t| t.to_string()).unwrap_or("?".into()))),
                },
            ),
            ("by_replica", J::Num(self.upds[o.upd].author as i64 + 1)),
            ("received", J::Bool((recv >> o.upd) & 1 == 1)),
            ("causal_past_received", J::Bool((closed >> o.upd) & 1 == 1)),
            ("followed_by", J::Arr(followers)),
        ])
    }

    fn failure(&self, ctx: &Ctx, x: usize, oracle: &str, why: String, key: Option<u8>, read: J, api: &str) -> Failure {
        let recv = self.reps[x].recv;
        let closed = self.closed(recv);
        let ops: Vec<J> = self
            .ops
            .iter()
            .filter(|o| key.map(|k| k == o.key).unwrap_or(true))
            .map(|o| self.op_json(o, recv, closed))
            .collect();
        Failure {
            why: format!("({}) {}", oracle, why),
            expected: J::obj(vec![
                ("oracle", J::str(oracle)),
                ("step", J::Num(ctx.step as i64 + 1)),
                ("moment", J::str(&ctx.moment)),
                ("replica", J::Num(x as i64 + 1)),
                ("key", key.map(|k| J::str(KEYS[k as usize])).unwrap_or(J::Null)),
                ("operations_on_the_key", J::Arr(ops)),
            ]),
            actual: J::obj(vec![("read", read)]),
            api: api.to_string(),
        }
    }

    fn host_api(&self) -> &'static str {
        if self.case.host.is_xml() {
            "Xml::get_attribute / Xml::attributes"
        } else {
            "Map::get / contains_key / len / iter / to_json"
        }
    }

    /// (L2) / (L3) for one key of replica `x`.
    fn check_key(&self, ctx: &Ctx, x: usize, key: u8, obs: &Obs) -> Result<(), Failure> {
        let recv = self.reps[x].recv;
        let closed = self.closed(recv);
        let in_r = |o: &OpRec| (recv >> o.upd) & 1 == 1;
        let in_c = |o: &OpRec| (closed >> o.upd) & 1 == 1;
        let on_key: Vec<&OpRec> = self.ops.iter().filter(|o| o.key == key).collect();
        let c_ops: Vec<&OpRec> = on_key.iter().copied().filter(|o| in_c(o)).collect();
        let bad = |oracle: &str, why: String| Err(self.failure(ctx, x, oracle, why, Some(key), obs.json(), self.host_api()));
        let k = KEYS[key as usize];
        match obs {
            Obs::Other(s) => bad("L2", format!("key {:?} reads as something no write produced: {}", k, s)),
            Obs::Val(n) | Obs::Type(_, n) => {
                let w = match self.write_of(key, *n) {
                    Some(w) => w,
                    None => return bad("L2", format!("key {:?} reads as {}, which no write on this key produced", k, n)),
                };
                if !in_r(w) {
                    return bad("L2", format!("key {:?} reads as {}, the value of a write this replica has not received", k, n));
                }
                if let Some(o) = c_ops.iter().find(|o| self.precedes(w, o)) {
                    return bad(
                        "L3",
                        format!(
                            "key {:?} reads as {}: that value was {} by operation t{}.{}, which had seen it and which this replica has received with its whole causal past; it resurfaced",
                            k,
                            n,
                            if o.set.is_some() { "overwritten" } else { "removed" },
                            o.upd + 1,
                            o.idx + 1
                        ),
                    );
                }
                Ok(())
            }
            Obs::None => {
                if c_ops.is_empty() {
                    return Ok(());
                }
                // operations that may have removed the entry they targeted
                let justified = on_key.iter().any(|r| {
                    let remover = r.set.is_none() || (!self.case.atomic && !in_c(r) && r.target.is_some());
                    if !remover || !in_r(r) {
                        return false;
                    }
                    if c_ops.iter().any(|o| self.precedes(r, o)) {
                        return false;
                    }
                    let target = r.target.and_then(|t| self.write_of(key, t));
                    if let Some(t) = target {
                        if c_ops.iter().any(|s| s.set.is_some() && self.precedes(t, s) && !self.precedes(s, r) && !std::ptr::eq(*s, *r)) {
                            return false;
                        }
                    }
                    true
                });
                if !justified {
                    let any_removal = on_key.iter().any(|r| r.set.is_none() && in_r(r));
                    return bad(
                        "L2",
                        if any_removal {
                            format!("key {:?} reads as nothing, but every removal this replica has received is followed by a received operation, or removed a value that a received write had seen without the removal having seen that write (the write must survive)", k)
                        } else {
                            format!("key {:?} reads as nothing, but this replica has received writes on it and no removal", k)
                        },
                    );
                }
                if self.case.strict_survive && on_key.iter().all(|o| !in_r(o) || in_c(o)) {
                    let maximal_set = c_ops.iter().find(|o| o.set.is_some() && !c_ops.iter().any(|p| self.precedes(o, p)));
                    if let Some(s) = maximal_set {
                        return bad(
                            "L2-strict",
                            format!(
                                "key {:?} reads as nothing, but the write t{}.{} (value {}) is followed by no received operation: a write concurrent with a removal survives it",
                                k,
                                s.upd + 1,
                                s.idx + 1,
                                s.set.unwrap_or(0)
                            ),
                        );
                    }
                }
                Ok(())
            }
        }
    }

    /// (L0), (L2), (L3), (L5) on replica `x`; returns what it reads.
    fn check_replica(&mut self, ctx: &Ctx, x: usize) -> Result<Reading, Failure> {
        let hold = self.case.host == Host::Values && !self.case.gc;
        let (reading, dead) = {
            let rep = &self.reps[x];
            at("Doc::transact");
            let txn = rep.doc.transact();
            let reading = match read_all(&rep.host, &txn, &self.ids) {
                Ok(r) => r,
                Err(why) => return Err(self.failure(ctx, x, "L0", format!("the read paths disagree: {}", why), None, J::Null, self.host_api())),
            };
            // (L5): held references whose write has a follower in closed(recv)
            let mut dead: Option<(i64, u8, String, String)> = None;
            if hold {
                let closed = self.closed(rep.recv);
                for (n, h) in rep.held.iter() {
                    let w = match self.ops.iter().find(|o| o.set == Some(*n)) {
                        Some(w) => w,
                        None => continue,
                    };
                    let killer = self.ops.iter().find(|o| o.key == w.key && (closed >> o.upd) & 1 == 1 && self.precedes(w, o));
                    // (b) the write is surely integrated here and is not what the key reads: it was overwritten,
                    // removed, or lost against a concurrent write; either way it is gone for good
                    let lost = (closed >> w.upd) & 1 == 1 && reading.obs[w.key as usize].write() != Some(*n);
                    if killer.is_some() || lost {
                        if let Some(content) = held_content(h, &txn) {
                            let by = match killer {
                                Some(kl) => format!("operation t{}.{} (received with its whole causal past)", kl.upd + 1, kl.idx + 1),
                                None => format!("a concurrent operation (the key reads as {} on this replica, which has received the write with its whole causal past)", reading.obs[w.key as usize].json()),
                            };
                            dead = Some((*n, w.key, by, content));
                            break;
                        }
                    }
                }
            }
            (reading, dead)
        };
        if let Some((n, key, killer, content)) = dead {
            return Err(self.failure(
                ctx,
                x,
                "L5",
                format!(
                    "the nested type written by write {} under key {:?} was overwritten / removed by {}, yet a reference to it obtained earlier still shows content: {}",
                    n, KEYS[key as usize], killer, content
                ),
                Some(key),
                J::str(&content),
                "Map / Array / Text reads through a held reference",
            ));
        }
        for (i, o) in reading.obs.iter().enumerate() {
            self.check_key(ctx, x, i as u8, o)?;
        }
        if hold {
            for (i, h) in reading.refs.iter().enumerate() {
                if let (Some(h), Some(n)) = (h, reading.obs[i].write()) {
                    if !self.reps[x].held.iter().any(|(m, _)| *m == n) {
                        self.reps[x].held.push((n, h.clone()));
                    }
                }
            }
        }
        Ok(reading)
    }

    /// References to the nested types the keys read as are taken after EVERY step, checked or not.
    fn collect_refs(&mut self) {
        if !(self.case.host == Host::Values && !self.case.gc) {
            return;
        }
        let ids = &self.ids;
        for rep in self.reps.iter_mut() {
            let txn = rep.doc.transact();
            for k in KEYS.iter() {
                if let Some(out) = read_point(&rep.host, &txn, k) {
                    if let (obs, Some(h)) = decode(&txn, &out, ids) {
                        if let Some(n) = obs.write() {
                            if !rep.held.iter().any(|(m, _)| *m == n) {
                                rep.held.push((n, h));
                            }
                        }
                    }
                }
            }
        }
    }

    /// Everything after a step: every replica, then (L4) for every pair with the same `recv`.
    fn check_all(&mut self, ctx: &Ctx) -> Result<Vec<Reading>, Failure> {
        let mut readings = Vec::new();
        for x in 0..self.reps.len() {
            readings.push(self.check_replica(ctx, x)?);
        }
        for x in 0..self.reps.len() {
            for y in x + 1..self.reps.len() {
                if self.reps[x].recv != self.reps[y].recv {
                    continue;
                }
                if readings[x].obs != readings[y].obs || readings[x].len != readings[y].len {
                    let key = (0..KEYS.len()).find(|i| readings[x].obs[*i] != readings[y].obs[*i]).map(|i| i as u8);
                    return Err(self.failure(
                        ctx,
                        y,
                        "L4",
                        format!("replicas {} and {} have received the same updates and read different content", x + 1, y + 1),
                        key,
                        J::obj(vec![
                            (&format!("replica_{}", x + 1), readings[x].json()),
                            (&format!("replica_{}", y + 1), readings[y].json()),
                        ]),
                        self.host_api(),
                    ));
                }
            }
        }
        Ok(readings)
    }

    /// (L1) for `key` on the acting replica.
    fn local_effect<T: ReadTxn>(&self, ctx: &Ctx, x: usize, txn: &T, key: Option<u8>, want: &Obs, what: &str) -> Result<(), Failure> {
        let reading = match read_all(&self.reps[x].host, txn, &self.ids) {
            Ok(r) => r,
            Err(why) => return Err(self.failure(ctx, x, "L0", format!("the read paths disagree: {}", why), key, J::Null, self.host_api())),
        };
        match key {
            Some(k) => {
                if reading.obs[k as usize] != *want {
                    return Err(self.failure(
                        ctx,
                        x,
                        "L1",
                        format!("right after the local {} key {:?} must read as {}", what, KEYS[k as usize], want.json()),
                        key,
                        reading.obs[k as usize].json(),
                        self.host_api(),
                    ));
                }
            }
            None => {
                if reading.len != 0 || reading.obs.iter().any(|o| *o != Obs::None) {
                    return Err(self.failure(ctx, x, "L1", format!("right after the local {} every key must read as nothing", what), None, reading.json(), self.host_api()));
                }
            }
        }
        Ok(())
    }
}

// ---------------------------------------------------------------------------
// execution
// ---------------------------------------------------------------------------

fn write_value(host: &HostRef, txn: &mut TransactionMut, key: &str, kind: Option<Kind>, n: i64) -> Option<(u64, u32)> {
    macro_rules! put {
        ($v:expr) => {
            match host {
                HostRef::Map(m) => {
                    at("Map::insert");
                    let _ = m.insert(txn, key, $v);
                }
                HostRef::Elem(e) => {
                    at("Xml::insert_attribute");
                    let _ = e.insert_attribute(txn, key, $v);
                }
                HostRef::Text(t) => {
                    at("Xml::insert_attribute");
                    let _ = t.insert_attribute(txn, key, $v);
                }
            }
        };
    }
    let f = n as f64;
    match kind {
        None => put!(f),
        Some(Kind::Map) => put!(MapPrelim::from([("v", In::Any(Any::Number(f)))])),
        Some(Kind::Array) => put!(ArrayPrelim::from([In::Any(Any::Number(f))])),
        Some(Kind::Text) => put!(TextPrelim::new(format!("{};", n))),
        Some(Kind::EmptyMap) => {
            if let HostRef::Map(m) = host {
                at("Map::insert");
                let r: MapRef = m.insert(txn, key, MapPrelim::default());
                return branch_key(r.as_ref());
            }
        }
        Some(Kind::EmptyArray) => {
            if let HostRef::Map(m) = host {
                at("Map::insert");
                let r: ArrayRef = m.insert(txn, key, ArrayPrelim::default());
                return branch_key(r.as_ref());
            }
        }
    }
    None
}

fn remove_key(host: &HostRef, txn: &mut TransactionMut, key: &str) {
    match host {
        HostRef::Map(m) => {
            at("Map::remove");
            let _ = m.remove(txn, key);
        }
        HostRef::Elem(e) => {
            at("Xml::remove_attribute");
            e.remove_attribute(txn, &key);
        }
        HostRef::Text(t) => {
            at("Xml::remove_attribute");
            t.remove_attribute(txn, &key);
        }
    }
}

/// What a passing run tells about the final state (needed to extend the history).
#[derive(Clone, Debug, Default)]
pub struct Info {
    /// bit k of entry r: replica r reads key k as present / as a nested type
    visible: Vec<u8>,
    types: Vec<u8>,
    recv: Vec<u64>,
    all_closed: Vec<bool>,
    authors: Vec<usize>,
    bytes: Vec<bool>,
    /// the last step was a duplicate delivery: not extended
    noop: bool,
}

impl<'a> World<'a> {
    fn do_txn(&mut self, ctx: &mut Ctx, r: usize, ops: &[Op], check_inside: bool, done_ops: &mut dyn FnMut(&Op)) -> Result<(), Failure> {
        let u = self.upds.len();
        if u >= MAX_UPDATES {
            return Err(invalid(format!("more than {} transactions", MAX_UPDATES)));
        }
        lock(&self.reps[r].log1).clear();
        lock(&self.reps[r].log2).clear();
        let before = self.reps[r].recv;
        let own: u64 = self.upds.iter().enumerate().filter(|(_, p)| p.author == r).map(|(i, _)| 1u64 << i).sum();
        let seen = self.closed(before) | own;
        // the expected local effect per key after the commit
        let mut last: BTreeMap<u8, Obs> = BTreeMap::new();
        let mut new_ops: Vec<OpRec> = Vec::new();
        {
            at("Doc::transact_mut");
            let doc = self.reps[r].doc.clone();
            let mut txn = doc.transact_mut();
            for (idx, op) in ops.iter().enumerate() {
                done_ops(op);
                ctx.moment = format!("inside the open transaction, after operation {} of the step", idx + 1);
                let current = |this: &World, txn: &TransactionMut, key: u8| -> (Obs, Option<Held>) {
                    match read_point(&this.reps[r].host, txn, KEYS[key as usize]) {
                        Some(out) => decode(txn, &out, &this.ids),
                        None => (Obs::None, None),
                    }
                };
                match op {
                    Op::Set { key } | Op::SetType { key, .. } => {
                        let kind = if let Op::SetType { kind, .. } = op { Some(*kind) } else { None };
                        if kind.is_some() && self.case.host.is_xml() {
                            return Err(invalid("nested types as XML attribute values are not part of this target".to_string()));
                        }
                        let target = current(self, &txn, *key).0.write();
                        self.next += 1;
                        let n = self.next;
                        let identity = write_value(&self.reps[r].host, &mut txn, KEYS[*key as usize], kind, n);
                        if let (Some(id), Some(k)) = (identity, kind) {
                            self.ids.push((id, (k, n)));
                        }
                        new_ops.push(OpRec { upd: u, idx, key: *key, set: Some(n), target });
                        let want = match kind {
                            Some(k) => Obs::Type(k, n),
                            None => Obs::Val(n),
                        };
                        if check_inside {
                            self.local_effect(ctx, r, &txn, Some(*key), &want, "set")?;
                        }
                        last.insert(*key, want);
                    }
                    Op::Remove { key } => {
                        let cur = current(self, &txn, *key).0;
                        remove_key(&self.reps[r].host, &mut txn, KEYS[*key as usize]);
                        if cur != Obs::None {
                            new_ops.push(OpRec { upd: u, idx, key: *key, set: None, target: cur.write() });
                        }
                        if check_inside {
                            self.local_effect(ctx, r, &txn, Some(*key), &Obs::None, "remove")?;
                        }
                        last.insert(*key, Obs::None);
                    }
                    Op::Clear => {
                        let m = match &self.reps[r].host {
                            HostRef::Map(m) => m.clone(),
                            _ => return Err(invalid("clear on XML attributes".to_string())),
                        };
                        for key in 0..KEYS.len() as u8 {
                            let cur = current(self, &txn, key).0;
                            if cur != Obs::None {
                                new_ops.push(OpRec { upd: u, idx, key, set: None, target: cur.write() });
                            }
                            last.insert(key, Obs::None);
                        }
                        at("Map::clear");
                        m.clear(&mut txn);
                        if check_inside {
                            self.local_effect(ctx, r, &txn, None, &Obs::None, "clear")?;
                        }
                    }
                    Op::Inner { key } => {
                        let held = match current(self, &txn, *key) {
                            (Obs::Type(..), Some(h)) => h,
                            _ => return Err(invalid(format!("inner_write: key {:?} holds no nested type on replica {}", KEYS[*key as usize], r + 1))),
                        };
                        self.next += 1;
                        let n = self.next;
                        let shown = match &held {
                            Held::Map(m) => {
                                at("Map::insert (nested map)");
                                m.insert(&mut txn, "w", n as f64);
                                m.get(&txn, "w").as_ref().and_then(number) == Some(n)
                            }
                            Held::Array(a) => {
                                at("Array::push_back (nested array)");
                                a.push_back(&mut txn, n as f64);
                                let len = a.len(&txn);
                                len > 0 && a.get(&txn, len - 1).as_ref().and_then(number) == Some(n)
                            }
                            Held::Text(t) => {
                                at("Text::push (nested text)");
                                t.push(&mut txn, &format!("{};", n));
                                t.get_string(&txn).ends_with(&format!(";{};", n))
                            }
                        };
                        if check_inside && !shown {
                            return Err(self.failure(
                                ctx,
                                r,
                                "L1",
                                format!("right after the local write of {} into the nested type under key {:?} the nested type must show it", n, KEYS[*key as usize]),
                                Some(*key),
                                J::str("the nested type does not show the value"),
                                "Map::insert / Array::push_back / Text::push on the nested type",
                            ));
                        }
                    }
                }
            }
            at("TransactionMut::commit");
            drop(txn);
        }
        let v1 = lock(&self.reps[r].log1).pop();
        let v2 = lock(&self.reps[r].log2).pop();
        let has_bytes = v1.is_some() && v2.is_some();
        self.ops.extend(new_ops);
        self.upds.push(UpdRec {
            author: r,
            deps: before,
            seen,
            v1: if has_bytes { v1 } else { None },
            v2: if has_bytes { v2 } else { None },
        });
        if has_bytes {
            self.reps[r].recv |= 1 << u;
        } else {
            // a transaction without any effect: trivially received by everybody
            for rep in self.reps.iter_mut() {
                rep.recv |= 1 << u;
            }
        }
        ctx.moment = "after the commit".to_string();
        {
            let doc = self.reps[r].doc.clone();
            let txn = doc.transact();
            for (key, want) in last.iter() {
                self.local_effect(ctx, r, &txn, Some(*key), want, "transaction (its last operation on the key)")?;
            }
        }
        Ok(())
    }

    fn do_deliver(&mut self, to: usize, upd: usize, v2: bool) -> Result<bool, Failure> {
        let rec = self.upds.get(upd).ok_or_else(|| invalid("deliver: no such transaction".to_string()))?;
        if rec.author == to {
            return Err(invalid("deliver: an update is not delivered to its author".to_string()));
        }
        let bytes = match if v2 { rec.v2.as_ref() } else { rec.v1.as_ref() } {
            Some(b) => b.clone(),
            None => return Err(invalid("deliver: that transaction produced no update".to_string())),
        };
        let dup = (self.reps[to].recv >> upd) & 1 == 1;
        apply_bytes(&self.reps[to].doc, &bytes, v2)?;
        self.reps[to].recv |= 1 << upd;
        Ok(dup)
    }

    /// Forced collection on replica `x`: nothing it reads may change. References to nested types
    /// that are not what their key reads right now are dropped BEFORE the collection (it frees the
    /// branch behind them; a nested type that is not current is deleted, hence collected).
    fn do_gc(&mut self, ctx: &Ctx, x: usize) -> Result<(), Failure> {
        let doc = self.reps[x].doc.clone();
        let before = {
            let txn = doc.transact();
            match read_all(&self.reps[x].host, &txn, &self.ids) {
                Ok(r) => r,
                Err(why) => return Err(self.failure(ctx, x, "L0", format!("the read paths disagree: {}", why), None, J::Null, self.host_api())),
            }
        };
        let current: Vec<i64> = before.obs.iter().filter_map(|o| o.write()).collect();
        self.reps[x].held.retain(|(n, _)| current.contains(n));
        {
            at("Doc::transact_mut");
            let mut txn = doc.transact_mut();
            at("TransactionMut::gc");
            txn.gc(None);
            at("TransactionMut::commit (forced GC)");
            drop(txn);
        }
        let txn = doc.transact();
        let after = match read_all(&self.reps[x].host, &txn, &self.ids) {
            Ok(r) => r,
            Err(why) => return Err(self.failure(ctx, x, "L0", format!("the read paths disagree: {}", why), None, J::Null, "TransactionMut::gc")),
        };
        if after.obs != before.obs || after.len != before.len {
            let key = (0..KEYS.len()).find(|i| after.obs[*i] != before.obs[*i]).map(|i| i as u8);
            return Err(self.failure(
                ctx,
                x,
                "L1",
                format!("a forced garbage collection is no operation on any key, yet the replica read {} before it and reads something else after it", before.json()),
                key,
                after.json(),
                "TransactionMut::gc",
            ));
        }
        Ok(())
    }

    fn do_sync(&mut self, to: usize, from: usize, v2: bool) -> Result<(), Failure> {
        let have = self.reps[from].recv;
        if self.closed(have) != have {
            return Err(invalid("sync: the sender has received updates whose causal past it lacks (what its state holds is not known to the oracle)".to_string()));
        }
        at("ReadTxn::state_vector");
        let sv = self.reps[to].doc.transact().state_vector();
        at(if v2 { "ReadTxn::encode_state_as_update_v2" } else { "ReadTxn::encode_state_as_update_v1" });
        let bytes = {
            let txn = self.reps[from].doc.transact();
            if v2 {
                txn.encode_state_as_update_v2(&sv)
            } else {
                txn.encode_state_as_update_v1(&sv)
            }
        };
        apply_bytes(&self.reps[to].doc, &bytes, v2)?;
        self.reps[to].recv |= have;
        Ok(())
    }
}

/// Runs the steps. `check_every`: all oracles after every step (replay); otherwise only after the
/// last one (the prefixes are cases of their own). `close`: afterwards everything outstanding is
/// delivered (as explicit steps, so that a witness replays without this flag), checking after every
/// delivery. On a disagreement returns the steps cut after the failing operation.
fn execute(case: &Case, check_every: bool, close: bool) -> Result<Info, (Vec<Step>, Failure)> {
    let mut done: Vec<Step> = Vec::new();
    let r = guarded(|| {
        let reps = setup(case)?;
        let mut w = World {
            case,
            reps,
            upds: Vec::new(),
            ops: Vec::new(),
            ids: Vec::new(),
            next: 0,
        };
        let mut noop = false;
        let count = case.steps.len();
        if count == 0 || check_every {
            w.check_all(&Ctx { step: 0, moment: "before the first step".to_string() })?;
        }
        for (si, step) in case.steps.iter().enumerate() {
            let is_last = si + 1 == count;
            let mut ctx = Ctx { step: si, moment: String::new() };
            match step {
                Step::Txn { replica, ops } => {
                    done.push(Step::Txn { replica: *replica, ops: Vec::new() });
                    let done_ref = &mut done;
                    w.do_txn(&mut ctx, *replica, ops, check_every || is_last, &mut |op: &Op| {
                        if let Some(Step::Txn { ops, .. }) = done_ref.last_mut() {
                            ops.push(op.clone());
                        }
                    })?;
                }
                Step::Deliver { to, upd, v2 } => {
                    done.push(step.clone());
                    noop = w.do_deliver(*to, *upd, *v2)? && is_last;
                    ctx.moment = "after the delivery".to_string();
                }
                Step::Sync { to, from, v2 } => {
                    done.push(step.clone());
                    w.do_sync(*to, *from, *v2)?;
                    ctx.moment = "after the sync".to_string();
                }
                Step::Gc { replica } => {
                    done.push(step.clone());
                    ctx.moment = "after the forced garbage collection".to_string();
                    w.do_gc(&ctx, *replica)?;
                }
            }
            if check_every || is_last {
                w.check_all(&ctx)?;
            } else {
                w.collect_refs();
            }
        }
        if close {
            let v2 = case.steps.iter().any(|s| matches!(s, Step::Deliver { v2: true, .. } | Step::Sync { v2: true, .. }));
            for x in 0..w.reps.len() {
                let mut order: Vec<usize> = (0..w.upds.len()).filter(|u| w.upds[*u].v1.is_some() && (w.reps[x].recv >> u) & 1 == 0).collect();
                if x % 2 == 1 {
                    order.reverse();
                }
                for u in order {
                    done.push(Step::Deliver { to: x, upd: u, v2 });
                    w.do_deliver(x, u, v2)?;
                    w.check_all(&Ctx { step: done.len() - 1, moment: "after the delivery (closing phase)".to_string() })?;
                }
            }
        }
        let mut info = Info {
            noop,
            ..Info::default()
        };
        for rep in w.reps.iter() {
            let txn = rep.doc.transact();
            let (mut vis, mut ty) = (0u8, 0u8);
            for (k, name) in KEYS.iter().enumerate() {
                match read_point(&rep.host, &txn, name) {
                    Some(Out::Any(_)) => vis |= 1 << k,
                    Some(_) => {
                        vis |= 1 << k;
                        ty |= 1 << k;
                    }
                    None => {}
                }
            }
            info.visible.push(vis);
            info.types.push(ty);
            info.recv.push(rep.recv);
            info.all_closed.push(w.closed(rep.recv) == rep.recv);
        }
        info.authors = w.upds.iter().map(|u| u.author).collect();
        info.bytes = w.upds.iter().map(|u| u.v1.is_some()).collect();
        Ok(info)
    });
    r.map_err(|f| (done, f))
}

// ---------------------------------------------------------------------------
// enumeration
// ---------------------------------------------------------------------------

struct Stage {
    name: String,
    host: Host,
    clients: Vec<u64>,
    gc: bool,
    menu: Vec<Vec<Op>>,
    depth: usize,
    /// steps this stage runs ahead of the common depth
    lead: usize,
    v2: bool,
    sync: bool,
    dups: bool,
    /// forced collections are steps (stages with skip_gc)
    force_gc: bool,
}

/// Can replica state (visible keys, keys holding a nested type) run the transaction?
fn enabled(ops: &[Op], mut vis: u8, mut ty: u8) -> bool {
    for op in ops {
        match op {
            Op::Set { key } => {
                vis |= 1 << key;
                ty &= !(1 << key);
            }
            Op::SetType { key, .. } => {
                vis |= 1 << key;
                ty |= 1 << key;
            }
            Op::Remove { key } => {
                if vis & (1 << key) == 0 {
                    return false;
                }
                vis &= !(1 << key);
                ty &= !(1 << key);
            }
            Op::Clear => {
                if vis == 0 {
                    return false;
                }
                vis = 0;
                ty = 0;
            }
            Op::Inner { key } => {
                if ty & (1 << key) == 0 {
                    return false;
                }
            }
        }
    }
    true
}

fn prio(s: &Step) -> (u8, usize) {
    match s {
        Step::Deliver { to, .. } | Step::Sync { to, .. } => (0, *to),
        Step::Txn { replica, .. } => (1, *replica),
        Step::Gc { replica } => (2, *replica),
    }
}

/// `x` (the last step; `last_upd`: the update it created, if a transaction) and `y` commute.
fn independent(x: &Step, y: &Step, last_upd: usize) -> bool {
    // a forced collection touches its replica only
    match (x, y) {
        (Step::Gc { replica: a }, Step::Gc { replica: b }) => return a != b,
        (Step::Gc { replica: a }, Step::Txn { replica: b, .. }) | (Step::Txn { replica: b, .. }, Step::Gc { replica: a }) => return a != b,
        (Step::Gc { replica: a }, Step::Deliver { to: b, .. }) | (Step::Deliver { to: b, .. }, Step::Gc { replica: a }) => return a != b,
        (Step::Gc { replica: a }, Step::Sync { to, from, .. }) | (Step::Sync { to, from, .. }, Step::Gc { replica: a }) => {
            return a != to && a != from
        }
        _ => {}
    }
    match (x, y) {
        (Step::Gc { .. }, _) | (_, Step::Gc { .. }) => false,
        (Step::Txn { replica: a, .. }, Step::Txn { replica: b, .. }) => a != b,
        (Step::Txn { replica, .. }, Step::Deliver { to, upd, .. }) => to != replica && *upd != last_upd,
        (Step::Deliver { to, .. }, Step::Txn { replica, .. }) => to != replica,
        (Step::Deliver { to: a, .. }, Step::Deliver { to: b, .. }) => a != b,
        (Step::Sync { to, from, .. }, Step::Txn { replica, .. }) | (Step::Txn { replica, .. }, Step::Sync { to, from, .. }) => {
            replica != to && replica != from
        }
        (Step::Sync { to, from, .. }, Step::Deliver { to: t, .. }) | (Step::Deliver { to: t, .. }, Step::Sync { to, from, .. }) => {
            t != to && t != from
        }
        (Step::Sync { to: a, from: f, .. }, Step::Sync { to: b, from: g, .. }) => a != b && a != g && b != f,
    }
}

impl Stage {
    fn case(&self, target: &str, steps: Vec<Step>) -> Case {
        Case {
            target: target.to_string(),
            variant: self.name.clone(),
            host: self.host,
            clients: self.clients.clone(),
            gc: self.gc,
            // debugging aids: VX_LWW_STRICT=1 / VX_LWW_ATOMIC=1 switch the optional clauses on for a search
            strict_survive: std::env::var_os("VX_LWW_STRICT").is_some(),
            atomic: std::env::var_os("VX_LWW_ATOMIC").is_some(),
            steps,
        }
    }

    fn children(&self, steps: &[Step], info: &Info) -> Vec<Vec<Step>> {
        let n = self.clients.len();
        let mut cands: Vec<Step> = Vec::new();
        for to in 0..n {
            for u in 0..info.authors.len() {
                if info.authors[u] != to && info.bytes[u] {
                    let have = (info.recv[to] >> u) & 1 == 1;
                    if !have || self.dups {
                        cands.push(Step::Deliver { to, upd: u, v2: self.v2 });
                    }
                }
            }
        }
        if self.sync {
            for to in 0..n {
                for from in 0..n {
                    if to != from && info.recv[from] & !info.recv[to] != 0 && info.all_closed[from] {
                        cands.push(Step::Sync { to, from, v2: false });
                        cands.push(Step::Sync { to, from, v2: true });
                    }
                }
            }
        }
        if info.authors.len() < MAX_UPDATES {
            for r in 0..n {
                for ops in self.menu.iter() {
                    if enabled(ops, info.visible[r], info.types[r]) {
                        cands.push(Step::Txn { replica: r, ops: ops.clone() });
                    }
                }
            }
        }
        if self.force_gc && !info.authors.is_empty() {
            for r in 0..n {
                // twice in a row on one replica: the second one finds nothing
                if !matches!(steps.last(), Some(Step::Gc { replica }) if *replica == r) {
                    cands.push(Step::Gc { replica: r });
                }
            }
        }
        let last_upd = info.authors.len().wrapping_sub(1);
        let mut out = Vec::new();
        for y in cands {
            if let Some(x) = steps.last() {
                if independent(x, &y, last_upd) && prio(&y) < prio(x) {
                    continue;
                }
            }
            let mut s = steps.to_vec();
            s.push(y);
            out.push(s);
        }
        out
    }
}

fn stages(target: &str, universe: u32) -> Vec<Stage> {
    let d = universe.clamp(3, 8) as usize;
    let set = |key: u8| Op::Set { key };
    let rem = |key: u8| Op::Remove { key };
    let core: Vec<Vec<Op>> = vec![vec![set(0)], vec![rem(0)], vec![set(0), rem(0)]];
    let shapes = |clear: bool| -> Vec<Vec<Op>> {
        let mut m = vec![
            vec![set(0)],
            vec![rem(0)],
            vec![set(0), rem(0)],
            vec![set(0), set(0)],
            vec![set(0), rem(0), set(0)],
            vec![set(0), set(0), rem(0)],
            vec![rem(0), set(0)],
            vec![set(1)],
            vec![rem(1)],
            vec![set(0), set(1)],
        ];
        if clear {
            m.push(vec![Op::Clear]);
            m.push(vec![Op::Clear, set(0)]);
        }
        m
    };
    let small = |clear: bool| -> Vec<Vec<Op>> {
        let mut m = vec![vec![set(0)], vec![rem(0)]];
        if clear {
            m.push(vec![Op::Clear]);
        }
        m
    };
    let mut out: Vec<Stage> = Vec::new();
    let mut push = |name: String, host: Host, clients: &[u64], gc: bool, menu: Vec<Vec<Op>>, depth: usize, v2: bool, sync: bool, dups: bool| {
        let ids: Vec<String> = clients.iter().map(|c| if *c == BIG { "big".to_string() } else { c.to_string() }).collect();
        out.push(Stage {
            name: format!("{}_{}_{}_clients_{}", host.name(), name, if gc { "gc" } else { "nogc" }, ids.join("_")),
            host,
            clients: clients.to_vec(),
            gc,
            menu,
            depth: depth.max(1),
            lead: if name == "core" || name == "values_core" || name.contains("forced_gc") { 1 } else { 0 },
            v2,
            sync,
            dups,
            force_gc: name.contains("forced_gc") && !gc,
        });
    };
    let mut hosts: Vec<Host> = Vec::new();
    if target == "lww" || target == "lww_map" {
        hosts.extend([Host::Root, Host::Nested]);
    }
    if target == "lww" || target == "lww_attr" {
        hosts.extend([Host::Elem, Host::Text]);
    }
    const PERMS3: [[u64; 3]; 6] = [[1, 2, 3], [1, 3, 2], [2, 1, 3], [2, 3, 1], [3, 1, 2], [3, 2, 1]];
    for host in hosts {
        let clear = !host.is_xml();
        for gc in [true, false] {
            // tombstones of one client squashed, split again by a concurrent write: both client orders
            for clients in [[2u64, 1], [1, 2]] {
                push("core".into(), host, &clients, gc, core.clone(), d + 1, false, false, false);
            }
            for clients in [[BIG, 1u64], [1, BIG]] {
                push("core".into(), host, &clients, gc, core.clone(), d, false, false, false);
            }
            if !gc && !host.is_xml() {
                // skip_gc replicas with explicit collections (`TransactionMut::gc`) as steps
                let mut menu = core.clone();
                menu.push(vec![set(0), set(0), rem(0)]);
                for clients in [[2u64, 1], [1, 2]] {
                    push("core_forced_gc".into(), host, &clients, gc, menu.clone(), d, false, false, false);
                }
            }
            for clients in [[2u64, 1], [1, 2]] {
                push("shapes".into(), host, &clients, gc, shapes(clear), if matches!(host, Host::Root | Host::Elem) { d - 1 } else { d - 2 }, false, false, false);
                push("small_v2_sync_dups".into(), host, &clients, gc, small(clear), d, true, true, true);
            }
            for clients in PERMS3 {
                push("3_replicas".into(), host, &clients, gc, small(false), d, false, false, false);
            }
            push("3_replicas_v2_sync".into(), host, &[1, BIG, 2], gc, small(clear), d - 1, true, true, false);
        }
    }
    if target == "lww" || target == "lww_nested" {
        let ty = |key: u8, kind: Kind| Op::SetType { key, kind };
        let inner = |key: u8| Op::Inner { key };
        let core_values: Vec<Vec<Op>> = vec![vec![ty(0, Kind::Map)], vec![rem(0)], vec![set(0)], vec![inner(0)]];
        let wide_values: Vec<Vec<Op>> = vec![
            vec![ty(0, Kind::Map)],
            vec![ty(0, Kind::Array)],
            vec![ty(0, Kind::Text)],
            vec![rem(0)],
            vec![set(0)],
            vec![inner(0)],
            vec![Op::Clear],
            vec![ty(0, Kind::Map), inner(0)],
            vec![inner(0), rem(0)],
        ];
        for gc in [false, true] {
            for clients in [[2u64, 1], [1, 2]] {
                push("values_core".into(), Host::Values, &clients, gc, core_values.clone(), d, false, false, false);
                push("values_wide".into(), Host::Values, &clients, gc, wide_values.clone(), d - 1, false, false, false);
                push("values_wide_v2_sync".into(), Host::Values, &clients, gc, wide_values.clone(), d - 2, true, true, false);
            }
            push("values_3_replicas".into(), Host::Values, &[2, 1, 3], gc, core_values.clone(), d - 1, false, false, false);
            if !gc {
                // one key overwritten again and again with EMPTY nested types, then collected by force:
                // the tombstones squash into one block while the live entry stays the current one
                let empty_values: Vec<Vec<Op>> = vec![
                    vec![ty(0, Kind::EmptyMap)],
                    vec![ty(0, Kind::EmptyArray)],
                    vec![ty(0, Kind::EmptyMap), ty(0, Kind::EmptyMap), ty(0, Kind::EmptyMap)],
                    vec![rem(0)],
                    vec![inner(0)],
                    vec![set(0)],
                ];
                for clients in [[2u64, 1], [1, 2]] {
                    push("values_empty_forced_gc".into(), Host::Values, &clients, gc, empty_values.clone(), d - 1, false, false, false);
                }
            }
        }
    }
    out
}

// ---------------------------------------------------------------------------
// search / replay
// ---------------------------------------------------------------------------

pub fn cmd_search(target: &str, universe: u32, jobs: usize, deadline: Option<Instant>) -> i32 {
    use std::sync::atomic::{AtomicU64, Ordering};
    let mut h = Hunt {
        jobs: jobs.max(1),
        deadline,
        cases: 0,
    };
    let mut stages = stages(target, universe);
    // debugging aids: VX_LWW_ONLY=<substring of a stage name>, VX_LWW_TIMES=1 (cases and milliseconds per stage on stderr)
    if let Ok(only) = std::env::var("VX_LWW_ONLY") {
        stages.retain(|s| s.name.contains(&only));
    }
    let times = std::env::var_os("VX_LWW_TIMES").is_some();
    // VX_LWW_TRACE=1 prints every case on stderr before it runs (for a crash of the process itself)
    let trace = std::env::var_os("VX_LWW_TRACE").is_some();
    let deepest = stages.iter().map(|s| s.depth).max().unwrap_or(0);
    let mut frontiers: Vec<Vec<(Vec<Step>, Info)>> = stages.iter().map(|_| Vec::new()).collect();
    let mut counts = vec![0u64; stages.len()];
    let mut millis = vec![0u128; stages.len()];
    let dropped = AtomicU64::new(0);
    let closed_histories = AtomicU64::new(0);
    let mut completed_depth = 0usize;
    let mut res: Result<(), Stop> = Ok(());
    // Two passes: the `lww_nested` stages with GC come last, after everything else has reached its full
    // depth. With GC a nested type that lost its parent is freed memory: a tree that leaves live
    // entries in it (self-test (b)) kills the process there, while the same history without GC is a
    // clean (L5) verdict.
    'deepening: for (pass, d) in (0..=deepest).map(|d| (0, d)).chain((0..=deepest).map(|d| (1, d))) {
        for (si, st) in stages.iter().enumerate() {
            // a stage with a lead runs that many steps ahead of the others (the cheap alphabets go deeper sooner)
            for dd in (if d == 0 { 0 } else { d + st.lead })..=(d + st.lead) {
            if dd > st.depth || pass != (st.host == Host::Values && st.gc) as usize {
                continue;
            }
            let started = Instant::now();
            let before = h.cases;
            let run_one = |tally: &mut Tally, steps: Vec<Step>| -> Result<Option<(Vec<Step>, Info)>, Stop> {
                if tally.expired() {
                    return Err(Stop::Timeout);
                }
                let close = steps.len() == st.depth;
                let case = st.case(target, steps);
                if trace {
                    // the case about to run: the last line on stderr names the one that killed the process
                    eprintln!("{}", J::obj(case.fields(&case.steps)));
                }
                match execute(&case, false, close) {
                    Ok(info) => {
                        tally.cases += 1;
                        if close {
                            closed_histories.fetch_add(1, Ordering::Relaxed);
                            return Ok(None);
                        }
                        if info.noop {
                            return Ok(None);
                        }
                        Ok(Some((case.steps, info)))
                    }
                    Err((_, f)) if is_invalid(&f) => {
                        dropped.fetch_add(1, Ordering::Relaxed);
                        Ok(None)
                    }
                    Err((done, failure)) => Err(Stop::Found(Box::new(Found {
                        fields: case.fields(&done),
                        failure,
                    }))),
                }
            };
            let produced: Result<Vec<Vec<(Vec<Step>, Info)>>, Stop> = if dd == 0 {
                h.par(1, &|tally: &mut Tally, _| Ok(run_one(tally, Vec::new())?.into_iter().collect()))
            } else {
                let fr = &frontiers[si];
                h.par(fr.len(), &|tally: &mut Tally, i: usize| {
                    let (steps, info) = &fr[i];
                    let mut kept = Vec::new();
                    for child in st.children(steps, info) {
                        if let Some(k) = run_one(tally, child)? {
                            kept.push(k);
                        }
                    }
                    Ok(kept)
                })
            };
            counts[si] += h.cases - before;
            millis[si] += started.elapsed().as_millis();
            match produced {
                Ok(lists) => frontiers[si] = lists.into_iter().flatten().collect(),
                Err(stop) => {
                    res = Err(stop);
                    break 'deepening;
                }
            }
            }
        }
        if pass == 1 || !stages.iter().any(|st| st.host == Host::Values && st.gc) {
            completed_depth = d;
        }
    }
    if times {
        for (si, st) in stages.iter().enumerate() {
            eprintln!("{:70} depth {} {:>9} cases {:>8} ms", st.name, st.depth, counts[si], millis[si]);
        }
    }
    let extra = vec![
        ("stages", J::Num(stages.len() as i64)),
        ("steps_per_history_completed", J::Num(completed_depth as i64)),
        ("steps_per_history_deepest", J::Num(deepest as i64)),
        ("histories_closed_by_full_delivery", J::Num(closed_histories.load(Ordering::Relaxed) as i64)),
        ("cases_dropped_as_not_executable", J::Num(dropped.load(Ordering::Relaxed) as i64)),
    ];
    finish(target, universe, res, &h, extra)
}

/// `replay` of a witness of this module; `Err`: usage error (exit 2).
pub fn cmd_replay(j: &J) -> Result<i32, String> {
    let case = Case::from_json(j)?;
    match execute(&case, true, false) {
        Ok(info) => Ok(finish_replay(Ok(J::obj(vec![
            ("all_oracles_hold_after_every_step", J::Bool(true)),
            ("steps", J::Num(case.steps.len() as i64)),
            ("updates", J::Num(info.authors.len() as i64)),
        ])))),
        Err((_, f)) if is_invalid(&f) => Err(f.why),
        Err((done, mut f)) => {
            if let J::Obj(_) = f.actual {
                f.actual.push_field("failed_after_steps", J::Arr(done.iter().map(|s| s.json()).collect()));
            }
            Ok(finish_replay(Err(f)))
        }
    }
}
