//! Target `decoders`: every public decoding entry point of yrs is fed a small
//! GRAMMAR of byte strings (exhaustive within its bounds, see `FAMILIES`) and
//! must return `Ok` or `Err` without panic, abort, stack overflow, an
//! allocation request unrelated to the input length, or taking seconds; a
//! value that was decoded can be encoded again and decodes to an equal value.
//!
//! Process structure. The code under test may kill the process it runs in
//! (stack overflow, `handle_alloc_error`, a non-unwinding panic), so `search
//! decoders` is a SUPERVISOR over `--jobs` WORKER processes (`dec-worker`,
//! hidden subcommand): the supervisor hands out units of 64 inputs, a worker
//! runs every (entry point, input) of its unit in-process (`catch_unwind`,
//! allocation accounting, clock) and answers on its stdout. A worker that
//! dies in a unit is replaced and the unit is run again in verbose mode (the
//! worker announces every case before it runs it): the case it dies in is the
//! culprit, is confirmed in a `run-one` CHILD process ("process aborted:
//! signal N") and the unit continues behind it. Inputs that are expected to be
//! able to kill a process (deep nesting, bare `Any` counts) and decoded values
//! that hold invalid UTF-8 go to a `run-one` child from the start. `replay`
//! always uses a `run-one` child.

use crate::alloc;
use crate::ext::{Runner, XCase, XStop};
use crate::json::J;
use crate::model::Failure;
use std::cell::RefCell;
use std::io::{BufRead, BufReader, Read as IoRead, Write as IoWrite};
use std::panic::{catch_unwind, AssertUnwindSafe};
use std::process::{Child, ChildStdin, ChildStdout, Command, Stdio};
use std::sync::atomic::{AtomicBool, AtomicU64, AtomicUsize, Ordering};
use std::sync::{Mutex, OnceLock};
use std::time::{Duration, Instant};
use yrs::block::BlockRange;
use yrs::encoding::read::{Cursor, Error as ReadError};
use yrs::sync::awareness::AwarenessUpdateEntry;
use yrs::sync::{AwarenessUpdate, Message, SyncMessage};
use yrs::types::xml::XmlFragment;
use yrs::updates::decoder::{Decode, Decoder, DecoderV2};
use yrs::updates::encoder::{Encode, Encoder, EncoderV1, EncoderV2};
use yrs::{
    Any, Array, ArrayPrelim, Assoc, ClientID, ContentAttribute, Doc, IdMap, IdSet, IndexScope, Map, MapPrelim,
    ReadTxn, Snapshot, StateVector, StickyIndex, Text, Transact, Update, Xml, XmlElementPrelim, XmlTextPrelim, ID,
};

pub const EXPECTED: &str = "Ok or Err without panic/abort/oversized allocation";

/// Bytes of the tiny-string family and of the payload tails.
pub const ALPHABET: [u8; 10] = [0x00, 0x01, 0x02, 0x7E, 0x7F, 0x80, 0xFF, 0x75, 0x76, 0x77];

/// Boundary values of the var-int fields.
pub const B: [u64; 17] = [
    0,
    1,
    2,
    127,
    128,
    1023,
    1024,
    1025,
    (1 << 31) - 1,
    1 << 31,
    (1 << 32) - 1,
    1 << 32,
    (1 << 53) - 1,
    1 << 53,
    (1 << 53) + 1,
    1 << 63,
    u64::MAX,
];

/// `B` restricted to u32 (clocks of the `codecs` target).
pub fn b_u32() -> Vec<u32> {
    B.iter().filter(|v| **v <= u32::MAX as u64).map(|v| *v as u32).collect()
}

pub const NEST_DEPTHS: [usize; 8] = [1, 2, 511, 512, 513, 514, 2000, 20000];
/// Nesting inputs at least this deep run in a child process.
const ISOLATE_DEPTH: usize = 500;

/// A single request above `64 * input_len + SLACK` is unrelated to the input length.
const ALLOC_FACTOR: usize = 64;
const ALLOC_SLACK: usize = 1 << 20;
/// A case may take this long (ms).
const TIME_LIMIT_MS: u128 = 2000;
/// A child / an in-process case that has not returned after this long is stopped (ms).
const KILL_MS: u64 = 10_000;
/// Exit code of a worker whose watchdog met a case that does not return.
const EXIT_HANG: i32 = 86;
/// Stack of the thread that runs the cases (in a worker and in `run-one`).
const STACK: usize = 2 << 20;
/// Inputs per unit of work.
const UNIT: usize = 64;

/// Flag byte and the nine (empty) column buffers of a lib0 v2 payload: what
/// follows is read by the main cursor of `DecoderV2`.
pub const V2_HEADER: [u8; 11] = [0, 0, 0, 0, 0, 0, 1, 0, 0, 0, 0];

/// What `--ignore` has to name to skip the cases whose decoded value holds invalid UTF-8.
const HAZARD: &str = "invalid UTF-8 in a decoded string";

pub fn var_uint(mut v: u64, out: &mut Vec<u8>) {
    while v >= 0x80 {
        out.push((v as u8 & 0x7f) | 0x80);
        v >>= 7;
    }
    out.push(v as u8);
}

pub fn hex(b: &[u8]) -> String {
    const D: &[u8; 16] = b"0123456789abcdef";
    let mut s = String::with_capacity(b.len() * 2);
    for x in b {
        s.push(D[(x >> 4) as usize] as char);
        s.push(D[(x & 15) as usize] as char);
    }
    s
}

pub fn unhex(s: &str) -> Result<Vec<u8>, String> {
    let s = s.trim();
    if s.len() % 2 != 0 || !s.is_ascii() {
        return Err("hex: odd number of digits".to_string());
    }
    (0..s.len() / 2)
        .map(|i| u8::from_str_radix(&s[2 * i..2 * i + 2], 16).map_err(|_| "hex: bad digit".to_string()))
        .collect()
}

// ---------------------------------------------------------------------------
// options (--ignore / --collect), shared by supervisor and workers
// ---------------------------------------------------------------------------

#[derive(Default, Debug)]
pub struct Opts {
    /// A disagreement whose `"<entry>: <why>"` contains one of these is counted, not reported.
    pub ignore: Vec<String>,
    /// Report the first disagreement of every (entry, kind of disagreement) instead of stopping at the first one.
    pub collect: bool,
    /// Enumerate these input families only (all of them if empty).
    pub only: Vec<String>,
}

pub static OPTS: OnceLock<Opts> = OnceLock::new();

fn opts() -> &'static Opts {
    OPTS.get_or_init(Opts::default)
}

fn is_ignored(entry: &str, why: &str) -> bool {
    let o = opts();
    if o.ignore.is_empty() {
        return false;
    }
    let key = format!("{}: {}", entry, why);
    o.ignore.iter().any(|p| key.contains(p.as_str()))
}

static IGNORED: AtomicU64 = AtomicU64::new(0);

/// In a worker: a decoded value that holds invalid UTF-8 is not touched any
/// further in-process (re-encoding it may abort the process); the case goes
/// to a child. `run-one` itself goes on.
static ROUTE_HAZARDS: AtomicBool = AtomicBool::new(false);

// ---------------------------------------------------------------------------
// entry points
// ---------------------------------------------------------------------------

thread_local! {
    /// The public call that is running (names the call a caught panic came from).
    static API: RefCell<String> = RefCell::new(String::new());
}

fn at2(a: &str, b: &str) {
    API.with(|c| {
        let mut c = c.borrow_mut();
        c.clear();
        c.push_str(a);
        c.push_str(b);
    });
}

fn api_now() -> String {
    API.with(|c| c.borrow().clone())
}

/// The re-encoded value does not decode to the value it came from.
pub struct Mis {
    api: String,
    actual: J,
}

pub enum Out {
    /// Decoded, re-encoded, decoded again: equal.
    Ok,
    /// The decoder returned an error.
    Err(ReadError),
    /// Decoded; the value holds a string that is not valid UTF-8 and was left alone.
    Hazard,
}

type Res = Result<Out, Mis>;

fn mis(api: String, version: &str, reencoded: &[u8], got: String) -> Mis {
    Mis {
        api,
        actual: J::obj(vec![
            ("result", J::str("Ok")),
            ("reencoded_as", J::str(version)),
            ("reencoded_hex", J::str(&hex(reencoded))),
            ("decoded_again", J::Str(got)),
        ]),
    }
}

fn valid(s: &str) -> bool {
    std::str::from_utf8(s.as_bytes()).is_ok()
}

fn no_strings<T>(_: &T) -> bool {
    false
}

fn aw_hazard(u: &AwarenessUpdate) -> bool {
    u.clients.values().any(|e| !valid(&e.json))
}

fn sticky_hazard(s: &StickyIndex) -> bool {
    match s.scope() {
        IndexScope::Root(name) => !valid(name),
        _ => false,
    }
}

fn msg_hazard(m: &Message) -> bool {
    match m {
        Message::Auth(Some(reason)) => !valid(reason),
        Message::Awareness(u) => aw_hazard(u),
        _ => false,
    }
}

fn any_hazard(a: &Any) -> bool {
    match a {
        Any::String(s) => !valid(s),
        Any::Array(items) => items.iter().any(any_hazard),
        Any::Map(m) => m.iter().any(|(k, v)| !valid(k) || any_hazard(v)),
        _ => false,
    }
}

fn id_map_hazard(m: &IdMap<String>) -> bool {
    m.iter()
        .any(|(_, r)| r.attrs.0.iter().any(|a| !valid(a.name()) || !valid(a.value())))
}

/// Check (5) for a type with `Encode + Decode + PartialEq`.
fn reencode<T: Decode + Encode + PartialEq>(name: &str, v: &T) -> Result<(), Mis> {
    at2(name, "::encode_v1 of the decoded value");
    let e1 = v.encode_v1();
    at2(name, "::decode_v1 of the re-encoded value");
    match T::decode_v1(&e1) {
        Ok(w) => {
            if w != *v {
                return Err(mis(api_now(), "v1", &e1, "a different value".to_string()));
            }
        }
        Err(e) => return Err(mis(api_now(), "v1", &e1, format!("Err({})", e))),
    }
    at2(name, "::encode_v2 of the decoded value");
    let e2 = v.encode_v2();
    at2(name, "::decode_v2 of the re-encoded value");
    match T::decode_v2(&e2) {
        Ok(w) => {
            if w != *v {
                return Err(mis(api_now(), "v2", &e2, "a different value".to_string()));
            }
        }
        Err(e) => return Err(mis(api_now(), "v2", &e2, format!("Err({})", e))),
    }
    Ok(())
}

fn codec<T: Decode + Encode + PartialEq>(name: &'static str, v2: bool, bytes: &[u8], hazard: fn(&T) -> bool) -> Res {
    at2(name, if v2 { "::decode_v2" } else { "::decode_v1" });
    let r = if v2 { T::decode_v2(bytes) } else { T::decode_v1(bytes) };
    match r {
        Err(e) => Ok(Out::Err(e)),
        Ok(v) => {
            if ROUTE_HAZARDS.load(Ordering::Relaxed) && hazard(&v) {
                return Ok(Out::Hazard);
            }
            reencode(name, &v)?;
            Ok(Out::Ok)
        }
    }
}

/// Equal, or the same bytes in another order: an update that embeds a sub-document carries
/// its `Options` as an `Any` map of four keys, which every `HashMap` instance writes in its
/// own order; any other difference between two encodings changes the multiset of bytes.
fn same_encoding(a: &[u8], b: &[u8]) -> bool {
    if a == b {
        return true;
    }
    if a.len() != b.len() {
        return false;
    }
    let (mut x, mut y) = (a.to_vec(), b.to_vec());
    x.sort_unstable();
    y.sort_unstable();
    x == y
}

/// `Update: PartialEq` looks at block ids only; the encoding has to be a fixed point as well.
fn update_fixpoint(u: &Update) -> Result<(), Mis> {
    at2("Update", "::encode_v1 of the decoded value");
    let e1 = u.encode_v1();
    at2("Update", "::decode_v1 of the re-encoded value");
    match Update::decode_v1(&e1) {
        Ok(w) => {
            at2("Update", "::encode_v1 of the value decoded again");
            let again = w.encode_v1();
            if !same_encoding(&again, &e1) || w != *u {
                return Err(mis(
                    "Update::encode_v1 -> Update::decode_v1 -> Update::encode_v1".to_string(),
                    "v1",
                    &e1,
                    format!("a different value (encodes as {})", hex(&again)),
                ));
            }
        }
        Err(e) => return Err(mis(api_now(), "v1", &e1, format!("Err({})", e))),
    }
    at2("Update", "::encode_v2 of the decoded value");
    let e2 = u.encode_v2();
    at2("Update", "::decode_v2 of the re-encoded value");
    match Update::decode_v2(&e2) {
        Ok(w) => {
            at2("Update", "::encode_v1 of the value decoded again");
            let again = w.encode_v1();
            if !same_encoding(&again, &e1) || w != *u {
                return Err(mis(
                    "Update::encode_v2 -> Update::decode_v2 -> Update::encode_v1".to_string(),
                    "v2",
                    &e2,
                    format!("a different value (encodes in v1 as {}, expected {})", hex(&again), hex(&e1)),
                ));
            }
        }
        Err(e) => return Err(mis(api_now(), "v2", &e2, format!("Err({})", e))),
    }
    Ok(())
}

fn update_entry(v2: bool, bytes: &[u8]) -> Res {
    at2("Update", if v2 { "::decode_v2" } else { "::decode_v1" });
    let r = if v2 { Update::decode_v2(bytes) } else { Update::decode_v1(bytes) };
    match r {
        Err(e) => Ok(Out::Err(e)),
        Ok(u) => {
            update_fixpoint(&u)?;
            Ok(Out::Ok)
        }
    }
}

/// `==` except that two NaN with the same bits are equal.
pub fn any_eq(a: &Any, b: &Any) -> bool {
    match (a, b) {
        (Any::Number(x), Any::Number(y)) => x == y || (x.is_nan() && y.is_nan() && x.to_bits() == y.to_bits()),
        (Any::Array(x), Any::Array(y)) => x.len() == y.len() && x.iter().zip(y.iter()).all(|(p, q)| any_eq(p, q)),
        (Any::Map(x), Any::Map(y)) => {
            x.len() == y.len() && x.iter().all(|(k, p)| y.get(k).map(|q| any_eq(p, q)).unwrap_or(false))
        }
        _ => a == b,
    }
}

pub fn any_encode_v1(a: &Any) -> Vec<u8> {
    let mut e = EncoderV1::new();
    a.encode(&mut e);
    e.to_vec()
}

pub fn any_encode_v2(a: &Any) -> Vec<u8> {
    let mut e = EncoderV2::new();
    e.write_any(a);
    e.to_vec()
}

pub fn any_decode_v2(bytes: &[u8]) -> Result<Any, ReadError> {
    let mut d = DecoderV2::new(Cursor::new(bytes))?;
    d.read_any()
}

fn any_entry(bytes: &[u8]) -> Res {
    at2("Any::decode", "(&mut Cursor)");
    let mut cursor = Cursor::new(bytes);
    match Any::decode(&mut cursor) {
        Err(e) => Ok(Out::Err(e)),
        Ok(v) => {
            if ROUTE_HAZARDS.load(Ordering::Relaxed) && any_hazard(&v) {
                return Ok(Out::Hazard);
            }
            at2("Any::encode", "(&mut EncoderV1) of the decoded value");
            let e1 = any_encode_v1(&v);
            at2("Any::decode", "(&mut Cursor) of the re-encoded value");
            match Any::decode(&mut Cursor::new(&e1)) {
                Ok(w) => {
                    if !any_eq(&w, &v) {
                        return Err(mis(api_now(), "v1", &e1, "a different value".to_string()));
                    }
                }
                Err(e) => return Err(mis(api_now(), "v1", &e1, format!("Err({})", e))),
            }
            at2("EncoderV2::write_any", " of the decoded value");
            let e2 = any_encode_v2(&v);
            at2("DecoderV2::read_any", " of the re-encoded value");
            match any_decode_v2(&e2) {
                Ok(w) => {
                    if !any_eq(&w, &v) {
                        return Err(mis(api_now(), "v2", &e2, "a different value".to_string()));
                    }
                }
                Err(e) => return Err(mis(api_now(), "v2", &e2, format!("Err({})", e))),
            }
            Ok(Out::Ok)
        }
    }
}

/// The functions of `yrs::alt`: the bytes they return have to decode.
fn bytes_out(name: &str, r: Result<Vec<u8>, ReadError>, check: fn(&[u8]) -> Result<(), ReadError>) -> Res {
    match r {
        Err(e) => Ok(Out::Err(e)),
        Ok(out) => {
            at2(name, ": decoding the returned bytes");
            match check(&out) {
                Ok(()) => Ok(Out::Ok),
                Err(e) => Err(Mis {
                    api: api_now(),
                    actual: J::obj(vec![
                        ("result", J::str("Ok")),
                        ("returned_hex", J::str(&hex(&out))),
                        ("decoded_again", J::Str(format!("Err({})", e))),
                    ]),
                }),
            }
        }
    }
}

fn is_update_v1(b: &[u8]) -> Result<(), ReadError> {
    Update::decode_v1(b).map(|_| ())
}
fn is_update_v2(b: &[u8]) -> Result<(), ReadError> {
    Update::decode_v2(b).map(|_| ())
}
fn is_sv_v1(b: &[u8]) -> Result<(), ReadError> {
    StateVector::decode_v1(b).map(|_| ())
}
fn is_sv_v2(b: &[u8]) -> Result<(), ReadError> {
    StateVector::decode_v2(b).map(|_| ())
}

pub struct Entry {
    pub name: &'static str,
    /// Reads lib0 v2: structured inputs get `V2_HEADER` in front.
    pub v2: bool,
    /// Decodes v1 document updates (the `*_in_update` families are for these).
    pub update_v1: bool,
    run: fn(&[u8]) -> Res,
}

const fn entry(name: &'static str, v2: bool, update_v1: bool, run: fn(&[u8]) -> Res) -> Entry {
    Entry {
        name,
        v2,
        update_v1,
        run,
    }
}

/// The other argument of `diff_updates_*` (a state vector / an update made by the crate).
fn fixed_sv_v1() -> &'static [u8] {
    &[0]
}
fn fixed_sv_v2() -> &'static [u8] {
    static SV: OnceLock<Vec<u8>> = OnceLock::new();
    SV.get_or_init(|| StateVector::default().encode_v2())
}
fn fixed_update(v2: bool) -> &'static [u8] {
    static U: OnceLock<(Vec<u8>, Vec<u8>)> = OnceLock::new();
    let u = U.get_or_init(|| {
        let doc = doc_a();
        let txn = doc.transact();
        (
            txn.encode_state_as_update_v1(&StateVector::default()),
            txn.encode_state_as_update_v2(&StateVector::default()),
        )
    });
    if v2 {
        &u.1
    } else {
        &u.0
    }
}

pub static ENTRIES: [Entry; 26] = [
    entry("StateVector::decode_v1", false, false, |b| {
        codec::<StateVector>("StateVector", false, b, no_strings)
    }),
    entry("StateVector::decode_v2", true, false, |b| {
        codec::<StateVector>("StateVector", true, b, no_strings)
    }),
    entry("IdSet::decode_v1", false, false, |b| codec::<IdSet>("IdSet", false, b, no_strings)),
    entry("IdSet::decode_v2", true, false, |b| codec::<IdSet>("IdSet", true, b, no_strings)),
    entry("Snapshot::decode_v1", false, false, |b| codec::<Snapshot>("Snapshot", false, b, no_strings)),
    entry("Snapshot::decode_v2", true, false, |b| codec::<Snapshot>("Snapshot", true, b, no_strings)),
    entry("AwarenessUpdate::decode_v1", false, false, |b| {
        codec::<AwarenessUpdate>("AwarenessUpdate", false, b, aw_hazard)
    }),
    entry("AwarenessUpdate::decode_v2", true, false, |b| {
        codec::<AwarenessUpdate>("AwarenessUpdate", true, b, aw_hazard)
    }),
    entry("Any::decode", false, false, any_entry),
    entry("StickyIndex::decode_v1", false, false, |b| {
        codec::<StickyIndex>("StickyIndex", false, b, sticky_hazard)
    }),
    entry("StickyIndex::decode_v2", true, false, |b| {
        codec::<StickyIndex>("StickyIndex", true, b, sticky_hazard)
    }),
    entry("Message::decode_v1", false, false, |b| codec::<Message>("Message", false, b, msg_hazard)),
    entry("Message::decode_v2", true, false, |b| codec::<Message>("Message", true, b, msg_hazard)),
    entry("Update::decode_v1", false, true, |b| update_entry(false, b)),
    entry("Update::decode_v2", true, false, |b| update_entry(true, b)),
    entry("IdMap::<String>::decode_v1", false, false, |b| {
        codec::<IdMap<String>>("IdMap::<String>", false, b, id_map_hazard)
    }),
    entry("IdMap::<String>::decode_v2", true, false, |b| {
        codec::<IdMap<String>>("IdMap::<String>", true, b, id_map_hazard)
    }),
    entry("merge_updates_v1", false, true, |b| {
        at2("yrs::merge_updates_v1", "(&[bytes])");
        bytes_out("yrs::merge_updates_v1", yrs::merge_updates_v1(&[b]), is_update_v1)
    }),
    entry("merge_updates_v2", true, false, |b| {
        at2("yrs::merge_updates_v2", "(&[bytes])");
        bytes_out("yrs::merge_updates_v2", yrs::merge_updates_v2(&[b]), is_update_v2)
    }),
    entry("encode_state_vector_from_update_v1", false, true, |b| {
        at2("yrs::encode_state_vector_from_update_v1", "(bytes)");
        bytes_out(
            "yrs::encode_state_vector_from_update_v1",
            yrs::encode_state_vector_from_update_v1(b),
            is_sv_v1,
        )
    }),
    entry("encode_state_vector_from_update_v2", true, false, |b| {
        at2("yrs::encode_state_vector_from_update_v2", "(bytes)");
        bytes_out(
            "yrs::encode_state_vector_from_update_v2",
            yrs::encode_state_vector_from_update_v2(b),
            is_sv_v2,
        )
    }),
    entry("diff_updates_v1", false, true, |b| {
        at2("yrs::diff_updates_v1", "(bytes, empty state vector)");
        bytes_out("yrs::diff_updates_v1", yrs::diff_updates_v1(b, fixed_sv_v1()), is_update_v1)
    }),
    entry("diff_updates_v2", true, false, |b| {
        at2("yrs::diff_updates_v2", "(bytes, empty state vector)");
        bytes_out("yrs::diff_updates_v2", yrs::diff_updates_v2(b, fixed_sv_v2()), is_update_v2)
    }),
    entry("diff_updates_v1[state_vector]", false, false, |b| {
        at2("yrs::diff_updates_v1", "(update of a small document, bytes)");
        bytes_out("yrs::diff_updates_v1", yrs::diff_updates_v1(fixed_update(false), b), is_update_v1)
    }),
    entry("diff_updates_v2[state_vector]", true, false, |b| {
        at2("yrs::diff_updates_v2", "(update of a small document, bytes)");
        bytes_out("yrs::diff_updates_v2", yrs::diff_updates_v2(fixed_update(true), b), is_update_v2)
    }),
    entry("SyncMessage::decode_v1", false, false, |b| {
        codec::<SyncMessage>("SyncMessage", false, b, no_strings)
    }),
];

pub fn entry_index(name: &str) -> Option<usize> {
    ENTRIES.iter().position(|e| e.name == name)
}

// ---------------------------------------------------------------------------
// valid payloads produced by the crate itself
// ---------------------------------------------------------------------------

fn cid(c: u64) -> ClientID {
    ClientID::new(c)
}

/// A small document of client 1 with most kinds of content (text with
/// origins on both sides, a deletion, formatting, an embed, map entries with
/// `Any` values, nested shared types, XML). Built in a deterministic order.
pub fn doc_a() -> Doc {
    let doc = Doc::with_client_id(1);
    let text = doc.get_or_insert_text("t");
    let map = doc.get_or_insert_map("m");
    let array = doc.get_or_insert_array("a");
    let xml = doc.get_or_insert_xml_fragment("x");
    {
        let mut txn = doc.transact_mut();
        text.insert(&mut txn, 0, "abcd");
        text.insert(&mut txn, 1, "é😀");
        text.remove_range(&mut txn, 0, 1);
        let mut attrs = yrs::types::Attrs::new();
        attrs.insert("b".into(), Any::Bool(true));
        text.insert_with_attributes(&mut txn, 2, "xy", attrs);
        text.insert_embed(&mut txn, 0, Any::from(7.5));
    }
    {
        let mut txn = doc.transact_mut();
        let mut inner = std::collections::HashMap::new();
        inner.insert(
            "k".to_string(),
            Any::Array(vec![Any::Null, Any::from(-64.0), Any::BigInt(i64::MIN), Any::from("s")].into()),
        );
        map.insert(&mut txn, "any", Any::Map(inner.into()));
        map.insert(&mut txn, "num", 1.5f64);
        map.insert(&mut txn, "any", "again");
        map.insert(&mut txn, "nested", MapPrelim::from([("z", 1i64)]));
        map.insert(&mut txn, "buf", Any::Buffer(vec![0u8, 255, 128].into()));
    }
    {
        let mut txn = doc.transact_mut();
        array.push_back(&mut txn, 1i64);
        array.push_back(&mut txn, "x");
        array.push_back(&mut txn, ArrayPrelim::from([1i64, 2]));
        array.remove_range(&mut txn, 0, 1);
        array.insert(&mut txn, 1, Any::Undefined);
    }
    {
        let mut txn = doc.transact_mut();
        let p = xml.push_back(&mut txn, XmlElementPrelim::empty("p"));
        p.insert_attribute(&mut txn, "id", "1");
        p.push_back(&mut txn, XmlTextPrelim::new("hi"));
    }
    doc
}

/// Client 1 writes "abcdefgh"; client 2 receives it and, in ONE transaction,
/// inserts three characters back to front: the left/right origin clocks of
/// its items descend by a constant step (a negative run in the v2 clock
/// columns). Returns client 2's document and client 1's state vector.
pub fn doc_descending() -> (Doc, StateVector) {
    let a = Doc::with_client_id(1);
    let ta = a.get_or_insert_text("t");
    ta.insert(&mut a.transact_mut(), 0, "abcdefgh");
    let sv_a = a.transact().state_vector();
    let b = Doc::with_client_id(2);
    let tb = b.get_or_insert_text("t");
    let bytes = a.transact().encode_state_as_update_v1(&StateVector::default());
    b.transact_mut()
        .apply_update(Update::decode_v1(&bytes).expect("own update decodes"))
        .expect("own update applies");
    {
        let mut txn = b.transact_mut();
        tb.insert(&mut txn, 6, "X");
        tb.insert(&mut txn, 4, "Y");
        tb.insert(&mut txn, 2, "Z");
    }
    (b, sv_a)
}

pub fn id_map_sample() -> IdMap<String> {
    let mut m: IdMap<String> = IdMap::new();
    let a = ContentAttribute::new("insert", "alice".to_string());
    let b = ContentAttribute::new("delete", "bob".to_string());
    let c = ContentAttribute::new("insert", "bob".to_string());
    m.insert(BlockRange::new(ID::new(cid(1), 0), 3), vec![a.clone()]);
    m.insert(BlockRange::new(ID::new(cid(1), 5), 2), vec![a.clone(), b.clone()]);
    m.insert(BlockRange::new(ID::new(cid(1), 7), 1), vec![c.clone()]);
    m.insert(BlockRange::new(ID::new(cid(9), 128), 1024), vec![b]);
    m.insert(BlockRange::new(ID::new(cid((1 << 53) - 1), 1), 1), vec![a, c]);
    m
}

/// `(label, bytes)`: payloads the crate encodes itself; every truncation and
/// single-byte mutation of each is an input of the `mutation` family.
pub fn valid_payloads() -> Vec<(&'static str, Vec<u8>)> {
    let mut out: Vec<(&'static str, Vec<u8>)> = Vec::new();
    let doc = doc_a();
    let text = doc.get_or_insert_text("t");
    let txn = doc.transact();
    let empty = StateVector::default();
    let u1 = txn.encode_state_as_update_v1(&empty);
    let u2 = txn.encode_state_as_update_v2(&empty);
    out.push(("update_v1", u1.clone()));
    out.push(("update_v2", u2.clone()));
    let sv = txn.state_vector();
    out.push(("state_vector_v1", sv.encode_v1()));
    out.push(("state_vector_v2", sv.encode_v2()));
    let snapshot = txn.snapshot();
    out.push(("snapshot_v1", snapshot.encode_v1()));
    out.push(("snapshot_v2", snapshot.encode_v2()));
    let mut ds = IdSet::new();
    ds.insert(ID::new(cid(1), 0), 2);
    ds.insert(ID::new(cid(1), 5), 1);
    ds.insert(ID::new(cid(1), 130), 1000);
    ds.insert(ID::new(cid((1 << 53) - 1), 7), 3);
    out.push(("id_set_v1", ds.encode_v1()));
    out.push(("id_set_v2", ds.encode_v2()));
    // two clients, written by hand: the map of an AwarenessUpdate has no fixed iteration order
    let mut aw = Vec::new();
    var_uint(2, &mut aw);
    for (c, k, j) in [(1u64, 3u32, "{\"a\":1}"), ((1 << 53) - 1, u32::MAX, "null")] {
        var_uint(c, &mut aw);
        var_uint(k as u64, &mut aw);
        var_uint(j.len() as u64, &mut aw);
        aw.extend_from_slice(j.as_bytes());
    }
    out.push(("awareness_v1", aw.clone()));
    let one = AwarenessUpdate {
        clients: [(
            cid(2),
            AwarenessUpdateEntry {
                clock: 128,
                json: "{}".into(),
            },
        )]
        .into_iter()
        .collect(),
    };
    out.push(("awareness_v2", one.encode_v2()));
    if let Some(s) = yrs::IndexedSequence::sticky_index(&text, &txn, 2, Assoc::After) {
        out.push(("sticky_relative_v1", s.encode_v1()));
        out.push(("sticky_relative_v2", s.encode_v2()));
    }
    let root = StickyIndex::new(IndexScope::Root("é".into()), Assoc::Before);
    out.push(("sticky_root_v1", root.encode_v1()));
    out.push(("sticky_root_v2", root.encode_v2()));
    let nested = StickyIndex::new(IndexScope::Nested(ID::new(cid((1 << 53) - 1), u32::MAX)), Assoc::Before);
    out.push(("sticky_nested_v1", nested.encode_v1()));
    for (label, m) in [
        ("msg_sync_step1", Message::Sync(SyncMessage::SyncStep1(sv.clone()))),
        ("msg_sync_step2", Message::Sync(SyncMessage::SyncStep2(u1.clone()))),
        ("msg_update", Message::Sync(SyncMessage::Update(vec![0, 0]))),
        ("msg_auth_denied", Message::Auth(Some("no é".to_string()))),
        ("msg_auth_granted", Message::Auth(None)),
        ("msg_awareness_query", Message::AwarenessQuery),
        ("msg_awareness", Message::Awareness(one.clone())),
        ("msg_custom", Message::Custom(7, vec![1, 2, 3])),
    ] {
        out.push((label, m.encode_v1()));
    }
    out.push(("msg_auth_denied_v2", Message::Auth(Some("no".to_string())).encode_v2()));
    let m = id_map_sample();
    out.push(("id_map_v1", m.encode_v1()));
    out.push(("id_map_v2", m.encode_v2()));
    let (b, sv_a) = doc_descending();
    let tb = b.transact();
    out.push(("update_descending_v1", tb.encode_diff_v1(&sv_a)));
    out.push(("update_descending_v2", tb.encode_diff_v2(&sv_a)));
    out.push(("update_two_clients_v2", tb.encode_state_as_update_v2(&empty)));
    let mut inner = std::collections::HashMap::new();
    inner.insert(
        "k".to_string(),
        Any::Array(vec![Any::Null, Any::from(1.5), Any::from("é"), Any::Buffer(vec![1u8, 2].into())].into()),
    );
    let any = Any::Array(vec![Any::Map(inner.into()), Any::BigInt(-1), Any::from(f64::MAX), Any::Bool(false)].into());
    out.push(("any", any_encode_v1(&any)));
    out
}

// ---------------------------------------------------------------------------
// the input grammar
// ---------------------------------------------------------------------------

#[derive(Clone, Copy, Debug, PartialEq)]
pub enum Applies {
    /// Every entry point, bytes as they are.
    All,
    /// Every entry point; entries that read lib0 v2 get `V2_HEADER` in front.
    Structured,
    /// `Any::decode` only.
    AnyOnly,
    /// The entry points that decode a v1 document update.
    UpdatesV1,
}

#[derive(Default)]
pub struct FamData {
    data: Vec<u8>,
    offs: Vec<usize>,
    /// Runs in a child process from the start.
    isolated: Vec<bool>,
    /// `mutation` family: what was done to which payload (one per input).
    notes: Vec<String>,
}

impl FamData {
    fn new() -> FamData {
        FamData {
            offs: vec![0],
            ..FamData::default()
        }
    }
    fn push(&mut self, bytes: &[u8], isolated: bool) {
        self.data.extend_from_slice(bytes);
        self.offs.push(self.data.len());
        self.isolated.push(isolated);
    }
    pub fn len(&self) -> usize {
        self.isolated.len()
    }
    pub fn get(&self, i: usize) -> &[u8] {
        &self.data[self.offs[i]..self.offs[i + 1]]
    }
}

pub struct Family {
    pub name: &'static str,
    pub applies: Applies,
    /// Number of inputs where it is known without building them.
    known_len: Option<usize>,
    build: fn() -> FamData,
    data: OnceLock<FamData>,
}

impl Family {
    pub fn data(&self) -> &FamData {
        self.data.get_or_init(self.build)
    }
    pub fn len(&self) -> usize {
        match self.known_len {
            Some(n) => n,
            None => self.data().len(),
        }
    }
}

const fn family(name: &'static str, applies: Applies, known_len: Option<usize>, build: fn() -> FamData) -> Family {
    Family {
        name,
        applies,
        known_len,
        build,
        data: OnceLock::new(),
    }
}

const NB: usize = B.len();
const NA: usize = ALPHABET.len();
const TAILS_2: usize = 1 + NA + NA * NA;
const TAILS_1: usize = 1 + NA;

/// Enumeration order: smallest inputs first.
pub static FAMILIES: [Family; 10] = [
    family("bytes", Applies::All, None, build_bytes),
    family("fields_1", Applies::Structured, Some(NB * TAILS_2), || build_fields(1)),
    family("fields_2", Applies::Structured, Some(NB * NB * TAILS_2), || build_fields(2)),
    family("any_count", Applies::AnyOnly, None, || build_any_count(false)),
    family("any_count_in_update", Applies::UpdatesV1, None, || build_any_count(true)),
    family("nesting", Applies::AnyOnly, None, || build_nesting(false)),
    family("nesting_in_update", Applies::UpdatesV1, None, || build_nesting(true)),
    family("mutation", Applies::All, None, build_mutation),
    family("fields_3", Applies::Structured, Some(NB * NB * NB * TAILS_2), || build_fields(3)),
    family("fields_4", Applies::Structured, Some(NB * NB * NB * NB * TAILS_1), || build_fields(4)),
];

/// Every byte string of length 0..=3 over the alphabet.
fn build_bytes() -> FamData {
    let mut d = FamData::new();
    d.push(&[], false);
    for a in ALPHABET {
        d.push(&[a], false);
    }
    for a in ALPHABET {
        for b in ALPHABET {
            d.push(&[a, b], false);
        }
    }
    for a in ALPHABET {
        for b in ALPHABET {
            for c in ALPHABET {
                d.push(&[a, b, c], false);
            }
        }
    }
    d
}

/// Truncations and single-byte mutations of payloads the crate made itself.
fn build_mutation() -> FamData {
    let mut d = FamData::new();
    for (label, p) in valid_payloads() {
        for cut in (0..=p.len()).rev() {
            d.notes.push(if cut == p.len() {
                format!("{}: the valid payload itself", label)
            } else {
                format!("{}: first {} of {} bytes", label, cut, p.len())
            });
            d.push(&p[..cut], false);
        }
        for pos in 0..p.len() {
            let old = p[pos];
            let mut seen: Vec<u8> = vec![old];
            for (what, new) in [
                ("^ 0x80", old ^ 0x80),
                ("= 0xff", 0xff),
                ("= 0x7f", 0x7f),
                ("= 0x3f", 0x3f),
                ("^ 0x01", old ^ 0x01),
                ("= 0x00", 0x00),
            ] {
                if seen.contains(&new) {
                    continue;
                }
                seen.push(new);
                let mut m = p.clone();
                m[pos] = new;
                d.notes.push(format!("{}: byte {} (0x{:02x}) {}", label, pos, old, what));
                d.push(&m, false);
            }
        }
    }
    d
}

/// Item of client 1 in root "a" whose content is ONE `Any`, in front of the
/// `Any`; followed by `UPDATE_SUFFIX` (empty delete set).
const UPDATE_PREFIX: [u8; 9] = [1, 1, 1, 0, 8, 1, 1, b'a', 1];
const UPDATE_SUFFIX: [u8; 1] = [0];

fn in_update(any: &[u8]) -> Vec<u8> {
    let mut v = UPDATE_PREFIX.to_vec();
    v.extend_from_slice(any);
    v.extend_from_slice(&UPDATE_SUFFIX);
    v
}

/// A tag of an `Any` array / map with a count from B, plus at most one more byte.
fn build_any_count(wrapped: bool) -> FamData {
    let mut d = FamData::new();
    let mut push = |v: &[u8]| {
        if wrapped {
            d.push(&in_update(v), false);
        } else {
            d.push(v, true);
        }
    };
    for tag in [0x75u8, 0x76] {
        for count in B {
            let mut head = vec![tag];
            var_uint(count, &mut head);
            push(&head);
            for tail in ALPHABET {
                let mut v = head.clone();
                v.push(tail);
                push(&v);
            }
        }
    }
    d
}

pub fn nesting_input(shape: &str, depth: usize) -> Vec<u8> {
    let mut v = Vec::with_capacity(depth * 3 + 1);
    for i in 0..depth {
        let map = match shape {
            "array" => false,
            "map" => true,
            _ => i % 2 == 1,
        };
        if map {
            v.extend_from_slice(&[0x76, 0x01, 0x00]);
        } else {
            v.extend_from_slice(&[0x75, 0x01]);
        }
    }
    v.push(0x7E);
    v
}

fn build_nesting(wrapped: bool) -> FamData {
    let mut d = FamData::new();
    for depth in NEST_DEPTHS {
        for shape in ["array", "map", "alternating"] {
            let v = nesting_input(shape, depth);
            let isolated = depth >= ISOLATE_DEPTH;
            if wrapped {
                d.push(&in_update(&v), isolated);
            } else {
                d.push(&v, isolated);
            }
        }
    }
    d
}

/// `nf` var-int fields over B, then 0..=2 payload bytes (0..=1 after four fields).
fn build_fields(nf: usize) -> FamData {
    let mut tails: Vec<Vec<u8>> = vec![vec![]];
    for a in ALPHABET {
        tails.push(vec![a]);
    }
    if nf < 4 {
        for a in ALPHABET {
            for b in ALPHABET {
                tails.push(vec![a, b]);
            }
        }
    }
    let enc: Vec<Vec<u8>> = B
        .iter()
        .map(|v| {
            let mut o = Vec::new();
            var_uint(*v, &mut o);
            o
        })
        .collect();
    let mut d = FamData::new();
    let total = NB.pow(nf as u32) * tails.len();
    d.data.reserve(total * (nf * 5 + 1));
    d.offs.reserve(total);
    d.isolated.reserve(total);
    let mut idx = vec![0usize; nf];
    let mut buf: Vec<u8> = Vec::new();
    'tuples: loop {
        buf.clear();
        for i in &idx {
            buf.extend_from_slice(&enc[*i]);
        }
        let head = buf.len();
        for t in &tails {
            buf.truncate(head);
            buf.extend_from_slice(t);
            d.push(&buf, false);
        }
        let mut p = nf;
        loop {
            if p == 0 {
                break 'tuples;
            }
            p -= 1;
            idx[p] += 1;
            if idx[p] < NB {
                break;
            }
            idx[p] = 0;
        }
    }
    d
}

/// Does family `applies` feed entry `e`?
fn applies_to(applies: Applies, e: &Entry) -> bool {
    match applies {
        Applies::All | Applies::Structured => true,
        Applies::AnyOnly => e.name == "Any::decode",
        Applies::UpdatesV1 => e.update_v1,
    }
}

/// The bytes entry `e` gets for input `i` of `fam`.
fn input_for<'a>(fam: &'a Family, i: usize, e: &Entry, scratch: &'a mut Vec<u8>) -> &'a [u8] {
    let raw = fam.data().get(i);
    if fam.applies == Applies::Structured && e.v2 {
        scratch.clear();
        scratch.extend_from_slice(&V2_HEADER);
        scratch.extend_from_slice(raw);
        scratch
    } else {
        raw
    }
}

// ---------------------------------------------------------------------------
// running one case
// ---------------------------------------------------------------------------

fn limit_for(len: usize) -> usize {
    ALLOC_FACTOR * len + ALLOC_SLACK
}

fn usage_json(result: &str, u: &alloc::Usage, ms: u128) -> J {
    J::obj(vec![
        ("result", J::str(result)),
        ("largest_allocation", J::Num(u.max_request as i64)),
        ("allocated_in_total", J::Num(u.total as i64)),
        ("ms", J::Num(ms as i64)),
    ])
}

fn panic_text(payload: Box<dyn std::any::Any + Send>) -> String {
    if let Some(s) = payload.downcast_ref::<&str>() {
        s.to_string()
    } else if let Some(s) = payload.downcast_ref::<String>() {
        s.clone()
    } else {
        "non-string panic payload".to_string()
    }
}

/// What an in-process run of a case says.
pub enum Verdict {
    /// The call returned (`Ok` / `Err(..)`), every check passed.
    Pass(String),
    /// The decoded value holds invalid UTF-8: nothing further was done in-process.
    Hazard,
    Fail(Failure),
}

/// Runs entry `e` on `bytes` in this thread: checks (1), (3), (4), (5).
pub fn check_case(e: &Entry, bytes: &[u8]) -> Verdict {
    at2(e.name, "");
    let t0 = Instant::now();
    alloc::start();
    let r = catch_unwind(AssertUnwindSafe(|| (e.run)(bytes)));
    let usage = alloc::stop();
    let ms = t0.elapsed().as_millis();
    let expected = J::str(EXPECTED);
    let (text, mismatch, hazard) = match r {
        Err(payload) => {
            return Verdict::Fail(Failure {
                why: format!("panic: {}", panic_text(payload)),
                expected,
                actual: usage_json("panic", &usage, ms),
                api: api_now(),
            })
        }
        Ok(Ok(Out::Ok)) => ("Ok".to_string(), None, false),
        Ok(Ok(Out::Hazard)) => ("Ok".to_string(), None, true),
        Ok(Ok(Out::Err(err))) => (format!("Err({})", err), None, false),
        Ok(Err(m)) => ("Ok".to_string(), Some(m), false),
    };
    if usage.max_request > limit_for(bytes.len()) {
        return Verdict::Fail(Failure {
            why: format!(
                "allocation of {} bytes for an input of {} bytes",
                usage.max_request,
                bytes.len()
            ),
            expected,
            actual: usage_json(
                &if usage.refused > 0 {
                    format!("{} (the request was refused by the test allocator)", text)
                } else {
                    text
                },
                &usage,
                ms,
            ),
            api: e.name.to_string(),
        });
    }
    if ms > TIME_LIMIT_MS {
        return Verdict::Fail(Failure {
            why: format!("took {} ms", ms),
            expected,
            actual: usage_json(&text, &usage, ms),
            api: e.name.to_string(),
        });
    }
    if let Some(m) = mismatch {
        return Verdict::Fail(Failure {
            why: "re-encode mismatch".to_string(),
            expected: J::str("the decoded value encodes (v1, v2) to bytes that decode to an equal value"),
            actual: m.actual,
            api: m.api,
        });
    }
    if hazard {
        return Verdict::Hazard;
    }
    Verdict::Pass(text)
}

/// Runs the case in a `run-one` child process: check (2) on top of the others.
pub fn run_in_child(e: &Entry, bytes: &[u8]) -> Result<String, Failure> {
    let expected = J::str(EXPECTED);
    let tool = |msg: String| Failure {
        why: format!("tool error: {}", msg),
        expected: J::str("a run-one child process"),
        actual: J::Null,
        api: e.name.to_string(),
    };
    let exe = std::env::current_exe().map_err(|x| tool(x.to_string()))?;
    let mut child = Command::new(exe)
        .arg("run-one")
        .arg(e.name)
        .env("RUST_BACKTRACE", "0")
        .stdin(Stdio::piped())
        .stdout(Stdio::piped())
        .stderr(Stdio::piped())
        .spawn()
        .map_err(|x| tool(x.to_string()))?;
    if let Some(mut stdin) = child.stdin.take() {
        // a child that dies before it has read everything is noticed below
        let _ = stdin.write_all(bytes);
    }
    let t0 = Instant::now();
    let status = loop {
        match child.try_wait() {
            Ok(Some(s)) => break s,
            Ok(None) => {
                if t0.elapsed().as_millis() as u64 > KILL_MS {
                    let _ = child.kill();
                    let _ = child.wait();
                    return Err(Failure {
                        why: format!("took more than {} ms (process killed)", KILL_MS),
                        expected,
                        actual: J::obj(vec![("result", J::str("no return"))]),
                        api: e.name.to_string(),
                    });
                }
                std::thread::sleep(Duration::from_micros(500));
            }
            Err(x) => return Err(tool(x.to_string())),
        }
    };
    let mut out = String::new();
    let mut err = Vec::new();
    if let Some(mut s) = child.stdout.take() {
        let _ = s.read_to_string(&mut out);
    }
    if let Some(mut s) = child.stderr.take() {
        let _ = s.read_to_end(&mut err);
    }
    let err = String::from_utf8_lossy(&err).into_owned();
    #[cfg(unix)]
    let signal = std::os::unix::process::ExitStatusExt::signal(&status);
    #[cfg(not(unix))]
    let signal: Option<i32> = None;
    if let Some(sig) = signal {
        let refused: Option<u64> = err
            .lines()
            .filter_map(|l| l.strip_prefix("vx-pending alloc "))
            .filter_map(|l| l.split_whitespace().nth(2).and_then(|n| n.parse().ok()))
            .last();
        let mut said: Vec<&str> = err
            .lines()
            .map(|l| l.trim())
            .filter(|l| !l.is_empty() && !l.starts_with("vx-"))
            .collect();
        said.dedup();
        let mut said = said.join(" | ");
        if said.len() > 400 {
            let mut cut = 400;
            while !said.is_char_boundary(cut) {
                cut -= 1;
            }
            said.truncate(cut);
        }
        let mut why = format!("process aborted: signal {}", sig);
        if let Some(n) = refused {
            why.push_str(&format!(
                " (after an allocation of {} bytes for an input of {} bytes was refused)",
                n,
                bytes.len()
            ));
        }
        if !said.is_empty() {
            why.push_str(&format!(" [{}]", said));
        }
        return Err(Failure {
            why,
            expected,
            actual: J::obj(vec![("signal", J::num(sig)), ("stderr", J::Str(said))]),
            api: e.name.to_string(),
        });
    }
    let line = out.lines().last().unwrap_or("");
    let j = crate::json::parse(line).map_err(|x| tool(format!("run-one printed {:?}: {}", line, x)))?;
    match j.get("ok") {
        Some(J::Bool(true)) => Ok(j.get("result").and_then(|r| r.as_str()).unwrap_or("").to_string()),
        Some(J::Bool(false)) => Err(Failure {
            why: j.get("why").and_then(|w| w.as_str()).unwrap_or("").to_string(),
            expected: j.get("expected").cloned().unwrap_or(J::Null),
            actual: j.get("actual").cloned().unwrap_or(J::Null),
            api: j.get("api").and_then(|w| w.as_str()).unwrap_or("").to_string(),
        }),
        _ => Err(tool(format!("run-one exited with {:?} and printed {:?}", status.code(), line))),
    }
}

/// A panic that cannot unwind aborts the process: say what it was (the usual
/// hook of this tool is silent; `PanicHookInfo::can_unwind` is unstable, so every panic is named).
fn loud_abort_hook() {
    if std::env::var_os("VX_LOUD").is_some() {
        return;
    }
    // (stderr of a `run-one` child is looked at only when the child died by a signal)
    std::panic::set_hook(Box::new(|info| {
        let msg = if let Some(s) = info.payload().downcast_ref::<&str>() {
            s.to_string()
        } else if let Some(s) = info.payload().downcast_ref::<String>() {
            s.clone()
        } else {
            String::new()
        };
        let first = msg.lines().next().unwrap_or("");
        match info.location() {
            Some(l) => eprintln!("panic: {} at {}:{}", first, l.file(), l.line()),
            None => eprintln!("panic: {}", first),
        }
    }));
}

/// Hidden subcommand `run-one <entry> [<hex>]` (input on stdin if there is no hex).
pub fn cmd_run_one(args: &[String]) -> i32 {
    loud_abort_hook();
    let name = match args.first() {
        Some(n) => n.as_str(),
        None => return 2,
    };
    let e = match entry_index(name) {
        Some(i) => &ENTRIES[i],
        None => {
            eprintln!("vx_witness: unknown entry point {:?}", name);
            return 2;
        }
    };
    let bytes = match args.get(1) {
        Some(h) => match unhex(h) {
            Ok(b) => b,
            Err(x) => {
                eprintln!("vx_witness: {}", x);
                return 2;
            }
        },
        None => {
            let mut b = Vec::new();
            let _ = std::io::stdin().read_to_end(&mut b);
            b
        }
    };
    let handle = std::thread::Builder::new()
        .stack_size(STACK)
        .spawn(move || check_case(e, &bytes))
        .expect("thread");
    let line = match handle.join() {
        Ok(Verdict::Pass(text)) => J::obj(vec![("ok", J::Bool(true)), ("result", J::Str(text))]),
        Ok(Verdict::Hazard) => J::obj(vec![("ok", J::Bool(true)), ("result", J::str("Ok"))]),
        Ok(Verdict::Fail(f)) => J::obj(vec![
            ("ok", J::Bool(false)),
            ("why", J::Str(f.why)),
            ("expected", f.expected),
            ("actual", f.actual),
            ("api", J::Str(f.api)),
        ]),
        Err(_) => J::obj(vec![
            ("ok", J::Bool(false)),
            ("why", J::str("panic: outside of the guarded call")),
            ("expected", J::str(EXPECTED)),
            ("actual", J::Null),
            ("api", J::str(name)),
        ]),
    };
    println!("{}", line);
    0
}

// ---------------------------------------------------------------------------
// the case as it appears in a witness line
// ---------------------------------------------------------------------------

#[derive(Clone, Debug)]
pub struct DecCase {
    pub family: String,
    pub entry: String,
    pub bytes: Vec<u8>,
    pub note: Option<String>,
}

impl DecCase {
    pub fn describe(&self) -> (String, J) {
        let mut op = vec![("entry", J::str(&self.entry)), ("hex", J::Str(hex(&self.bytes)))];
        if let Some(n) = &self.note {
            op.push(("note", J::str(n)));
        }
        (self.family.clone(), J::obj(op))
    }

    pub fn from_json(variant: &str, op: &J) -> Result<DecCase, String> {
        let entry = op.get("entry").and_then(|e| e.as_str()).ok_or("op.entry missing")?;
        if entry_index(entry).is_none() {
            return Err(format!("unknown entry point {:?}", entry));
        }
        let bytes = unhex(op.get("hex").and_then(|e| e.as_str()).ok_or("op.hex missing")?)?;
        Ok(DecCase {
            family: variant.to_string(),
            entry: entry.to_string(),
            bytes,
            note: op.get("note").and_then(|n| n.as_str()).map(|s| s.to_string()),
        })
    }

    /// `replay`: always in a child process.
    pub fn run(&self) -> Result<(), Failure> {
        let e = &ENTRIES[entry_index(&self.entry).expect("validated")];
        run_in_child(e, &self.bytes).map(|_| ())
    }

    pub fn actual_json(&self) -> J {
        let e = &ENTRIES[entry_index(&self.entry).expect("validated")];
        match run_in_child(e, &self.bytes) {
            Ok(text) => J::obj(vec![("result", J::Str(text))]),
            Err(f) => f.actual,
        }
    }
}

fn make_case(fam: &Family, i: usize, e: &Entry, bytes: &[u8]) -> XCase {
    XCase::Dec(DecCase {
        family: fam.name.to_string(),
        entry: e.name.to_string(),
        bytes: bytes.to_vec(),
        note: fam.data().notes.get(i).cloned(),
    })
}

/// The cases of unit `unit` of `fam`, in order: `(input, entry)`.
fn unit_cases(fam: &Family, unit: usize) -> Vec<(usize, usize)> {
    let lo = unit * UNIT;
    let hi = (lo + UNIT).min(fam.len());
    let mut out = Vec::new();
    for i in lo..hi {
        for (ei, e) in ENTRIES.iter().enumerate() {
            if applies_to(fam.applies, e) {
                out.push((i, ei));
            }
        }
    }
    out
}

// ---------------------------------------------------------------------------
// worker process: `dec-worker [--ignore TEXT].. [--collect]`
//
//   stdin:  unit <family> <unit> <first case> <verbose 0|1>  |  quit
//   stdout: c <k>            (verbose) case k of the unit starts
//           f <k> <json>     case k disagrees: the witness line
//           h <k>            case k has not returned for KILL_MS; the worker exits
//           d <cases> <ignored>   the unit is done
// ---------------------------------------------------------------------------

static CUR_START: AtomicU64 = AtomicU64::new(0);
static CUR_K: AtomicU64 = AtomicU64::new(0);
static EPOCH: OnceLock<Instant> = OnceLock::new();

fn now_ms() -> u64 {
    EPOCH.get_or_init(Instant::now).elapsed().as_millis() as u64 + 1
}

fn start_watchdog() {
    let _ = now_ms();
    let _ = std::thread::Builder::new().name("watchdog".into()).spawn(|| loop {
        std::thread::sleep(Duration::from_millis(250));
        let started = CUR_START.load(Ordering::Acquire);
        if started != 0 && now_ms().saturating_sub(started) > KILL_MS {
            println!("h {}", CUR_K.load(Ordering::Acquire));
            std::process::exit(EXIT_HANG);
        }
    });
}

fn worker_unit(fi: usize, unit: usize, first: usize, verbose: bool) {
    let fam = &FAMILIES[fi];
    let data = fam.data();
    let mut scratch: Vec<u8> = Vec::new();
    let mut cases = 0u64;
    let mut ignored = 0u64;
    // collect mode: one line per (entry, kind of disagreement) and unit is enough
    let mut told: Vec<String> = Vec::new();
    for (k, (i, ei)) in unit_cases(fam, unit).into_iter().enumerate() {
        if k < first {
            continue;
        }
        if verbose {
            println!("c {}", k);
        }
        let e = &ENTRIES[ei];
        cases += 1;
        let bytes = input_for(fam, i, e, &mut scratch);
        let failure: Option<Failure> = if data.isolated[i] {
            run_in_child(e, bytes).err()
        } else {
            alloc::set_case(i as u64, ei as u64);
            CUR_K.store(k as u64, Ordering::Release);
            CUR_START.store(now_ms(), Ordering::Release);
            let v = check_case(e, bytes);
            CUR_START.store(0, Ordering::Release);
            match v {
                Verdict::Pass(_) => None,
                // the clock of a busy machine proves little: once more, in a process of its own
                Verdict::Fail(f) if f.why.starts_with("took ") => run_in_child(e, bytes).err(),
                Verdict::Fail(f) => Some(f),
                Verdict::Hazard => {
                    if is_ignored(e.name, HAZARD) {
                        ignored += 1;
                        None
                    } else {
                        // what really happens to such a value is seen in a child
                        run_in_child(e, bytes).err().map(|mut f| {
                            f.why = format!("{} ({})", f.why, HAZARD);
                            f
                        })
                    }
                }
            }
        };
        if let Some(f) = failure {
            if is_ignored(e.name, &f.why) {
                ignored += 1;
                continue;
            }
            if opts().collect {
                let class = class_of(e.name, &f.why);
                if told.contains(&class) {
                    continue;
                }
                told.push(class);
            }
            let case = make_case(fam, i, e, bytes);
            println!("f {} {}", k, crate::ext::found_json(&case, &f));
            if !opts().collect {
                break;
            }
        }
    }
    println!("d {} {}", cases, ignored);
}

pub fn cmd_worker(args: &[String]) -> i32 {
    let mut o = Opts::default();
    let mut i = 0;
    while i < args.len() {
        match args[i].as_str() {
            "--ignore" => {
                i += 1;
                if let Some(v) = args.get(i) {
                    o.ignore.push(v.clone());
                }
            }
            "--collect" => o.collect = true,
            _ => return 2,
        }
        i += 1;
    }
    let _ = OPTS.set(o);
    ROUTE_HAZARDS.store(true, Ordering::Relaxed);
    start_watchdog();
    // the cases run on a thread with a stack of known size
    let handle = std::thread::Builder::new()
        .stack_size(STACK)
        .spawn(|| {
            let stdin = std::io::stdin();
            let mut line = String::new();
            loop {
                line.clear();
                match stdin.lock().read_line(&mut line) {
                    Ok(0) | Err(_) => break,
                    Ok(_) => {}
                }
                let w: Vec<&str> = line.split_whitespace().collect();
                if w.first() == Some(&"unit") && w.len() == 5 {
                    let n: Vec<usize> = w[1..].iter().filter_map(|x| x.parse().ok()).collect();
                    if n.len() == 4 && n[0] < FAMILIES.len() {
                        worker_unit(n[0], n[1], n[2], n[3] != 0);
                        continue;
                    }
                }
                break;
            }
        })
        .expect("thread");
    let _ = handle.join();
    0
}

// ---------------------------------------------------------------------------
// supervisor
// ---------------------------------------------------------------------------

struct Proc {
    child: Child,
    stdin: ChildStdin,
    stdout: BufReader<ChildStdout>,
}

impl Proc {
    fn spawn() -> Result<Proc, String> {
        let exe = std::env::current_exe().map_err(|x| x.to_string())?;
        let mut cmd = Command::new(exe);
        cmd.arg("dec-worker").env("RUST_BACKTRACE", "0");
        for p in &opts().ignore {
            cmd.arg("--ignore").arg(p);
        }
        if opts().collect {
            cmd.arg("--collect");
        }
        let mut child = cmd
            .stdin(Stdio::piped())
            .stdout(Stdio::piped())
            .stderr(Stdio::null())
            .spawn()
            .map_err(|x| x.to_string())?;
        let stdin = child.stdin.take().ok_or("no stdin")?;
        let stdout = BufReader::new(child.stdout.take().ok_or("no stdout")?);
        Ok(Proc { child, stdin, stdout })
    }

    /// How the process ended (for the witness of a culprit that passes in a child).
    fn reap(mut self) -> String {
        drop(self.stdin);
        match self.child.wait() {
            Ok(s) => {
                #[cfg(unix)]
                if let Some(sig) = std::os::unix::process::ExitStatusExt::signal(&s) {
                    return format!("signal {}", sig);
                }
                format!("exit code {:?}", s.code())
            }
            Err(x) => x.to_string(),
        }
    }
}

/// A disagreement together with its place in the enumeration.
struct Finding {
    at: (usize, usize),
    class: String,
    case: XCase,
    failure: Failure,
}

fn class_of(entry: &str, why: &str) -> String {
    let mut s = format!("{}: ", entry);
    let mut last_hash = false;
    for c in why.chars().take(48) {
        if c.is_ascii_digit() {
            if !last_hash {
                s.push('#');
            }
            last_hash = true;
        } else {
            s.push(c);
            last_hash = false;
        }
    }
    s
}

fn failure_from_json(j: &J) -> Failure {
    Failure {
        why: j.get("why").and_then(|w| w.as_str()).unwrap_or("").to_string(),
        expected: j.get("expected").cloned().unwrap_or(J::Null),
        actual: j.get("actual").cloned().unwrap_or(J::Null),
        api: j.get("api").and_then(|w| w.as_str()).unwrap_or("").to_string(),
    }
}

struct Shared {
    units: Vec<(usize, usize)>,
    next: AtomicUsize,
    /// Smallest unit with a disagreement (stop mode): later units are not started.
    stop_at: AtomicUsize,
    timed_out: AtomicBool,
    cases: AtomicU64,
    findings: Mutex<Vec<Finding>>,
    tool_error: Mutex<Option<String>>,
    deadline: Option<Instant>,
}

impl Shared {
    fn record(&self, u: usize, k: usize, case: XCase, failure: Failure) {
        let entry = match &case {
            XCase::Dec(c) => c.entry.clone(),
            _ => String::new(),
        };
        let class = class_of(&entry, &failure.why);
        let mut all = self.findings.lock().unwrap_or_else(|p| p.into_inner());
        if opts().collect {
            match all.iter_mut().find(|x| x.class == class) {
                Some(x) => {
                    if (u, k) < x.at {
                        *x = Finding {
                            at: (u, k),
                            class,
                            case,
                            failure,
                        };
                    }
                }
                None => all.push(Finding {
                    at: (u, k),
                    class,
                    case,
                    failure,
                }),
            }
        } else {
            self.stop_at.fetch_min(u, Ordering::SeqCst);
            all.push(Finding {
                at: (u, k),
                class,
                case,
                failure,
            });
        }
    }
}

/// One supervisor thread: feeds units to one worker process and replaces it when it dies.
fn drive(sh: &Shared) {
    let mut proc: Option<Proc> = None;
    loop {
        if let Some(d) = sh.deadline {
            if Instant::now() >= d {
                sh.timed_out.store(true, Ordering::Relaxed);
                break;
            }
        }
        let u = sh.next.fetch_add(1, Ordering::SeqCst);
        if u >= sh.units.len() || u > sh.stop_at.load(Ordering::SeqCst) {
            break;
        }
        let (fi, unit) = sh.units[u];
        let fam = &FAMILIES[fi];
        let mut first = 0usize;
        let mut verbose = false;
        let mut deaths = 0usize;
        'unit: loop {
            if proc.is_none() {
                match Proc::spawn() {
                    Ok(p) => proc = Some(p),
                    Err(x) => {
                        *sh.tool_error.lock().unwrap_or_else(|p| p.into_inner()) =
                            Some(format!("cannot start a worker process: {}", x));
                        return;
                    }
                }
            }
            let p = proc.as_mut().expect("spawned");
            let sent = writeln!(p.stdin, "unit {} {} {} {}", fi, unit, first, verbose as u8).and_then(|_| p.stdin.flush());
            let mut last_c: Option<usize> = None;
            let mut hang: Option<usize> = None;
            let mut done = false;
            if sent.is_ok() {
                let mut line = String::new();
                loop {
                    line.clear();
                    match p.stdout.read_line(&mut line) {
                        Ok(0) | Err(_) => break,
                        Ok(_) => {}
                    }
                    let l = line.trim_end();
                    if let Some(rest) = l.strip_prefix("c ") {
                        last_c = rest.parse().ok();
                    } else if let Some(rest) = l.strip_prefix("f ") {
                        if let Some((k, json)) = rest.split_once(' ') {
                            if let (Ok(k), Ok(j)) = (k.parse::<usize>(), crate::json::parse(json)) {
                                if let Ok(case) = XCase::from_json(&j) {
                                    sh.record(u, k, case, failure_from_json(&j));
                                }
                            }
                        }
                    } else if let Some(rest) = l.strip_prefix("h ") {
                        hang = rest.parse().ok();
                    } else if let Some(rest) = l.strip_prefix("d ") {
                        let n: Vec<u64> = rest.split_whitespace().filter_map(|x| x.parse().ok()).collect();
                        if n.len() == 2 {
                            sh.cases.fetch_add(n[0], Ordering::Relaxed);
                            IGNORED.fetch_add(n[1], Ordering::Relaxed);
                        }
                        done = true;
                        break;
                    }
                }
            }
            if done {
                break 'unit;
            }
            // the worker is gone
            let how = proc.take().map(|p| p.reap()).unwrap_or_default();
            deaths += 1;
            let cases = unit_cases(fam, unit);
            let culprit: Option<usize> = match (hang, verbose, last_c) {
                (Some(k), _, _) => Some(k),
                (None, true, Some(k)) if k >= first => Some(k),
                _ => None,
            };
            match culprit {
                None => {
                    if verbose || deaths > cases.len() + 2 {
                        // died without announcing a case: not a case of the enumeration
                        *sh.tool_error.lock().unwrap_or_else(|p| p.into_inner()) = Some(format!(
                            "a worker process ended ({}) outside of a case (family {}, unit {})",
                            how, fam.name, unit
                        ));
                        return;
                    }
                    // once more, announcing every case
                    verbose = true;
                }
                Some(k) if k < cases.len() => {
                    let (i, ei) = cases[k];
                    let e = &ENTRIES[ei];
                    let mut scratch = Vec::new();
                    let bytes = input_for(fam, i, e, &mut scratch).to_vec();
                    // once more in a process of its own (a case the watchdog stopped
                    // has 10 s there as well: the clock of a busy machine proves little)
                    let failure = match run_in_child(e, &bytes) {
                        Err(f) => Some(f),
                        Ok(_) if hang.is_some() => None,
                        Ok(text) => Some(Failure {
                            why: format!(
                                "process aborted: {} (worker process; the same case returns {} in a process of its own)",
                                how, text
                            ),
                            expected: J::str(EXPECTED),
                            actual: J::Null,
                            api: e.name.to_string(),
                        }),
                    };
                    sh.cases.fetch_add((k + 1 - first) as u64, Ordering::Relaxed);
                    if let Some(failure) = failure {
                        if is_ignored(e.name, &failure.why) {
                            IGNORED.fetch_add(1, Ordering::Relaxed);
                        } else {
                            sh.record(u, k, make_case(fam, i, e, &bytes), failure);
                            if !opts().collect {
                                break 'unit;
                            }
                        }
                    }
                    first = k + 1;
                    verbose = true;
                }
                Some(_) => break 'unit,
            }
        }
    }
    if let Some(mut p) = proc.take() {
        let _ = writeln!(p.stdin, "quit");
        let _ = p.stdin.flush();
        let _ = p.reap();
    }
}

pub fn search_decoders(r: &mut Runner) -> Result<(), XStop> {
    let mut units: Vec<(usize, usize)> = Vec::new();
    for (fi, fam) in FAMILIES.iter().enumerate() {
        if !opts().only.is_empty() && !opts().only.iter().any(|n| n == fam.name) {
            continue;
        }
        for unit in 0..(fam.len() + UNIT - 1) / UNIT {
            units.push((fi, unit));
        }
    }
    let sh = Shared {
        units,
        next: AtomicUsize::new(0),
        stop_at: AtomicUsize::new(usize::MAX),
        timed_out: AtomicBool::new(false),
        cases: AtomicU64::new(0),
        findings: Mutex::new(Vec::new()),
        tool_error: Mutex::new(None),
        deadline: r.deadline,
    };
    std::thread::scope(|scope| {
        for _ in 0..r.jobs.max(1) {
            scope.spawn(|| drive(&sh));
        }
    });
    r.cases += sh.cases.load(Ordering::Relaxed);
    if let Some(msg) = sh.tool_error.lock().unwrap_or_else(|p| p.into_inner()).take() {
        eprintln!("vx_witness: {}", msg);
        std::process::exit(3);
    }
    let mut all = std::mem::take(&mut *sh.findings.lock().unwrap_or_else(|p| p.into_inner()));
    if !all.is_empty() {
        all.sort_by_key(|f| f.at);
        if !opts().collect {
            all.truncate(1);
        }
        // every finding but the last is printed here; the last one goes the usual way
        let last = all.pop().expect("non-empty");
        for f in &all {
            println!("{}", crate::ext::found_json(&f.case, &f.failure));
        }
        return Err(XStop::Found(Box::new((last.case, last.failure))));
    }
    if sh.timed_out.load(Ordering::Relaxed) {
        return Err(XStop::Timeout);
    }
    Ok(())
}

/// Extra fields of the `found:false` line.
pub fn summary_fields() -> Vec<(&'static str, J)> {
    let mut out = Vec::new();
    let ignored = IGNORED.load(Ordering::Relaxed);
    if ignored > 0 {
        out.push(("ignored_disagreements", J::Num(ignored as i64)));
    }
    out
}

/// `vx_witness dec-inputs`: the families and their sizes (hidden subcommand, for the README).
pub fn cmd_inputs() -> i32 {
    let mut total_inputs = 0usize;
    let mut total_cases = 0usize;
    for fam in FAMILIES.iter() {
        let entries = ENTRIES.iter().filter(|e| applies_to(fam.applies, e)).count();
        let isolated = fam.data().isolated.iter().filter(|x| **x).count();
        println!(
            "{:<22} inputs {:>8}  entries {:>2}  cases {:>9}  in child processes {:>5}  bytes {:>9}  fnv {:016x}",
            fam.name,
            fam.len(),
            entries,
            fam.len() * entries,
            isolated * entries,
            fam.data().data.len(),
            fam.data().data.iter().fold(0xcbf29ce484222325u64, |h, b| (h ^ *b as u64).wrapping_mul(0x100000001b3))
        );
        total_inputs += fam.len();
        total_cases += fam.len() * entries;
    }
    println!("total inputs {} cases {}", total_inputs, total_cases);
    println!("payloads of the mutation family:");
    for (label, p) in valid_payloads() {
        println!("  {:<24} {:>4} bytes", label, p.len());
    }
    println!("codecs:");
    for f in crate::codecs::FAMILIES {
        println!("  {:<14} values {:>6}", f, crate::codecs::count(f));
    }
    0
}
