//! Targets `awareness` (yrs::sync::Awareness as a per-client last-writer-wins
//! register) and `syncmsg` (the y-sync message codec). Public API only.

use crate::ext::{at, fail, Ctx, Runner, XCase, XStop};
use crate::json::J;
use crate::model::Failure;
use std::collections::HashMap;
use std::sync::Arc;
use yrs::encoding::read::Cursor;
use yrs::sync::awareness::AwarenessUpdateEntry;
use yrs::sync::{Awareness, AwarenessUpdate, Message, MessageReader, SyncMessage};
use yrs::updates::decoder::{Decode, DecoderV1};
use yrs::updates::encoder::{Encode, Encoder, EncoderV1};
use yrs::{Any, ClientID, Doc, StateVector};

// ---------------------------------------------------------------------------
// awareness
// ---------------------------------------------------------------------------

/// The local client of the instance under test, and the one remote client.
pub const LOCAL: u64 = 1;
pub const REMOTE: u64 = 2;
const AW_CLIENTS: [u64; 2] = [LOCAL, REMOTE];
/// A third party that receives `Awareness::update()`.
const OBSERVER: u64 = 3;
const CLOCKS: [u32; 6] = [0, 1, 2, 3, u32::MAX - 1, u32::MAX];
const PAYLOADS: [Option<&str>; 3] = [None, Some("a"), Some("b")];
const INITS: [&str; 3] = ["none", "set", "set_clean"];

#[derive(Clone, Debug, PartialEq)]
pub enum AwStep {
    /// `apply_update` of a single-client update; `payload == None` is the JSON text `null`.
    Apply { client: u64, clock: u32, payload: Option<String> },
    /// `set_local_state_raw`.
    SetLocal { payload: String },
    /// `remove_state(client)`; for the local client through `clean_local_state()`.
    Remove { client: u64 },
}

/// Payload label `a` travels as the JSON text `"a"`.
fn raw_json(payload: &Option<String>) -> String {
    match payload {
        None => "null".to_string(),
        Some(p) => format!("\"{}\"", p),
    }
}

fn label_of(raw: &str) -> String {
    if raw.len() >= 2 && raw.starts_with('"') && raw.ends_with('"') {
        raw[1..raw.len() - 1].to_string()
    } else {
        format!("raw:{}", raw)
    }
}

fn ci_of(client: u64) -> usize {
    if client == LOCAL {
        0
    } else {
        1
    }
}

/// One register: `None` = client unknown, otherwise `(clock, live payload or None)`.
type Entry = Option<(u32, Option<String>)>;
/// `[local client, remote client]`.
type Reg = [Entry; 2];

fn entry_json(e: &Entry) -> J {
    match e {
        None => J::Null,
        Some((clock, data)) => J::obj(vec![
            ("clock", J::num(*clock)),
            (
                "json",
                match data {
                    Some(d) => J::str(d),
                    None => J::Null,
                },
            ),
        ]),
    }
}

fn reg_json(r: &Reg) -> J {
    J::obj(vec![("client1", entry_json(&r[0])), ("client2", entry_json(&r[1]))])
}

// ---- the oracle -------------------------------------------------------------

fn model_step(reg: &mut Reg, step: &AwStep) {
    match step {
        AwStep::Apply { client, clock, payload } => {
            let ci = ci_of(*client);
            let c = *clock;
            reg[ci] = match reg[ci].take() {
                None => Some((c, payload.clone())),
                Some((sc, sd)) => {
                    let applied = sc < c || (sc == c && payload.is_none() && sd.is_some());
                    if !applied {
                        Some((sc, sd))
                    } else {
                        match payload {
                            Some(n) => Some((c, Some(n.clone()))),
                            None => {
                                if *client == LOCAL && sd.is_some() {
                                    // nobody but the client itself can retire its live state
                                    Some((c.saturating_add(1), sd))
                                } else {
                                    Some((c, None))
                                }
                            }
                        }
                    }
                }
            };
        }
        AwStep::SetLocal { payload } => {
            reg[0] = match reg[0].take() {
                None => Some((1, Some(payload.clone()))),
                Some((sc, _)) => Some((sc.saturating_add(1), Some(payload.clone()))),
            };
        }
        AwStep::Remove { client } => {
            let ci = ci_of(*client);
            reg[ci] = match reg[ci].take() {
                None => Some((1, None)),
                Some((sc, _)) => Some((sc.saturating_add(1), None)),
            };
        }
    }
}

// ---- the code under test ------------------------------------------------------

fn cid(client: u64) -> ClientID {
    ClientID::new(client)
}

fn new_awareness(client: u64) -> Awareness {
    at("Awareness::new");
    Awareness::new(Doc::with_client_id(client))
}

fn update_of(client: u64, clock: u32, payload: &Option<String>) -> AwarenessUpdate {
    let json: Arc<str> = raw_json(payload).into();
    AwarenessUpdate {
        clients: HashMap::from([(cid(client), AwarenessUpdateEntry { clock, json })]),
    }
}

fn step_api(step: &AwStep) -> &'static str {
    match step {
        AwStep::Apply { .. } => "Awareness::apply_update",
        AwStep::SetLocal { .. } => "Awareness::set_local_state_raw",
        AwStep::Remove { client } if *client == LOCAL => "Awareness::clean_local_state",
        AwStep::Remove { .. } => "Awareness::remove_state",
    }
}

fn do_step(aw: &mut Awareness, step: &AwStep) -> Result<(), Failure> {
    at(step_api(step));
    match step {
        AwStep::Apply { client, clock, payload } => {
            if let Err(e) = aw.apply_update(update_of(*client, *clock, payload)) {
                return Err(fail(
                    "apply_update returned an error",
                    step_api(step),
                    J::str("Ok(())"),
                    J::str(&e.to_string()),
                ));
            }
        }
        AwStep::SetLocal { payload } => aw.set_local_state_raw(raw_json(&Some(payload.clone()))),
        AwStep::Remove { client } => {
            if *client == LOCAL {
                aw.clean_local_state()
            } else {
                aw.remove_state(cid(*client))
            }
        }
    }
    Ok(())
}

/// Reads both registers back through every public accessor; the accessors
/// must agree with each other.
fn observe(aw: &Awareness) -> Result<Reg, Failure> {
    at("Awareness::iter");
    let entries: Vec<(u64, u32, Option<String>)> = aw
        .iter()
        .map(|(id, st)| (id.get(), st.clock, st.data.as_ref().map(|d| d.to_string())))
        .collect();
    let disagree = |what: &str, expected: J, actual: J| fail("accessors disagree", what, expected, actual);
    let mut reg: Reg = [None, None];
    for (id, clock, data) in &entries {
        if !AW_CLIENTS.contains(id) {
            return Err(disagree(
                "Awareness::iter",
                J::str("only clients 1 and 2"),
                J::obj(vec![("client", J::Num(*id as i64))]),
            ));
        }
        let ci = ci_of(*id);
        if reg[ci].is_some() {
            return Err(disagree(
                "Awareness::iter",
                J::str("one entry per client"),
                J::obj(vec![("client", J::Num(*id as i64))]),
            ));
        }
        reg[ci] = Some((*clock, data.as_ref().map(|d| label_of(d))));
    }
    for (ci, &client) in AW_CLIENTS.iter().enumerate() {
        at("Awareness::meta");
        let meta = aw.meta(cid(client)).map(|(clock, _ts)| clock);
        let via_iter = reg[ci].as_ref().map(|(clock, _)| *clock);
        if meta != via_iter {
            return Err(disagree(
                "Awareness::meta",
                J::obj(vec![("client", J::Num(client as i64)), ("clock_via_iter", opt_num(via_iter))]),
                J::obj(vec![("clock_via_meta", opt_num(meta))]),
            ));
        }
        at("Awareness::state");
        let state: Option<Any> = aw.state::<Any>(cid(client));
        let live = reg[ci].as_ref().and_then(|(_, d)| d.clone());
        let expected_state = live.as_ref().map(|l| Any::String(l.as_str().into()));
        if live.as_ref().map(|l| !l.starts_with("raw:")).unwrap_or(true) && state != expected_state {
            return Err(disagree(
                "Awareness::state",
                J::obj(vec![("client", J::Num(client as i64)), ("json_via_iter", opt_str(&live))]),
                J::obj(vec![("state", J::str(&format!("{:?}", state)))]),
            ));
        }
        if client == aw.client_id().get() {
            at("Awareness::local_state_raw");
            let raw = aw.local_state_raw().map(|r| label_of(&r));
            if raw != live {
                return Err(disagree(
                    "Awareness::local_state_raw",
                    J::obj(vec![("json_via_iter", opt_str(&live))]),
                    J::obj(vec![("local_state_raw", opt_str(&raw))]),
                ));
            }
        }
    }
    Ok(reg)
}

fn opt_num(v: Option<u32>) -> J {
    match v {
        Some(v) => J::num(v),
        None => J::Null,
    }
}

fn opt_str(v: &Option<String>) -> J {
    match v {
        Some(v) => J::str(v),
        None => J::Null,
    }
}

fn update_json(u: &AwarenessUpdate) -> J {
    let mut clients: Vec<(u64, u32, String)> = u
        .clients
        .iter()
        .map(|(id, e)| (id.get(), e.clock, e.json.to_string()))
        .collect();
    clients.sort();
    J::Arr(
        clients
            .into_iter()
            .map(|(id, clock, json)| J::Arr(vec![J::Num(id as i64), J::num(clock), J::Str(json)]))
            .collect(),
    )
}

fn bytes_json(b: &[u8]) -> J {
    J::Arr(b.iter().map(|x| J::num(*x)).collect())
}

/// `decode(encode(u)) == u` for both encodings; no truncation of the encoding panics.
fn update_round_trip(u: &AwarenessUpdate, what: &str) -> Result<(), Failure> {
    for v in [1u8, 2] {
        at(&format!("AwarenessUpdate::encode_v{}", v));
        let bytes = if v == 1 { u.encode_v1() } else { u.encode_v2() };
        let api = format!("AwarenessUpdate::decode_v{}(encode_v{}({}))", v, v, what);
        at(&api);
        let back = if v == 1 { AwarenessUpdate::decode_v1(&bytes) } else { AwarenessUpdate::decode_v2(&bytes) };
        match back {
            Ok(d) if &d == u => {}
            Ok(d) => return Err(fail("decode(encode(x)) != x", &api, update_json(u), update_json(&d))),
            Err(e) => {
                return Err(fail(
                    "decode(encode(x)) failed",
                    &api,
                    update_json(u),
                    J::obj(vec![("error", J::str(&e.to_string())), ("bytes", bytes_json(&bytes))]),
                ))
            }
        }
        for k in 0..bytes.len() {
            at(&format!("AwarenessUpdate::decode_v{} of the encoding truncated to {} of {} bytes", v, k, bytes.len()));
            let _ = if v == 1 { AwarenessUpdate::decode_v1(&bytes[..k]) } else { AwarenessUpdate::decode_v2(&bytes[..k]) };
        }
    }
    Ok(())
}

/// `update()` carries exactly the live registers, round-trips, and a third
/// party that applies it learns exactly those; `update_with_clients` of the
/// known clients reports retired ones as `null`.
fn check_update(aw: &Awareness, reg: &Reg) -> Result<(), Failure> {
    at("Awareness::update");
    let u = match aw.update() {
        Ok(u) => u,
        Err(e) => return Err(fail("update() returned an error", "Awareness::update", J::str("Ok"), J::str(&e.to_string()))),
    };
    let mut expected = HashMap::new();
    let mut expected_all = HashMap::new();
    for (ci, &client) in AW_CLIENTS.iter().enumerate() {
        if let Some((clock, data)) = &reg[ci] {
            let json: Arc<str> = raw_json(data).into();
            expected_all.insert(cid(client), AwarenessUpdateEntry { clock: *clock, json: json.clone() });
            if data.is_some() {
                expected.insert(cid(client), AwarenessUpdateEntry { clock: *clock, json });
            }
        }
    }
    let expected = AwarenessUpdate { clients: expected };
    if u != expected {
        return Err(fail(
            "update() is not the set of live registers",
            "Awareness::update",
            update_json(&expected),
            update_json(&u),
        ));
    }
    update_round_trip(&u, "awareness.update()")?;
    at("Awareness::update_with_clients");
    let known: Vec<ClientID> = expected_all.keys().copied().collect();
    let expected_all = AwarenessUpdate { clients: expected_all };
    match aw.update_with_clients(known) {
        Ok(all) if all == expected_all => {}
        Ok(all) => {
            return Err(fail(
                "update_with_clients(known clients) is not the set of registers",
                "Awareness::update_with_clients",
                update_json(&expected_all),
                update_json(&all),
            ))
        }
        Err(e) => {
            return Err(fail(
                "update_with_clients(known clients) returned an error",
                "Awareness::update_with_clients",
                update_json(&expected_all),
                J::str(&e.to_string()),
            ))
        }
    }
    let mut third = new_awareness(OBSERVER);
    at("Awareness::apply_update (fresh instance receiving awareness.update())");
    if let Err(e) = third.apply_update(u) {
        return Err(fail(
            "apply_update returned an error",
            "Awareness::apply_update",
            J::str("Ok(())"),
            J::str(&e.to_string()),
        ));
    }
    let seen = observe(&third)?;
    let live: Reg = [
        reg[0].clone().filter(|(_, d)| d.is_some()),
        reg[1].clone().filter(|(_, d)| d.is_some()),
    ];
    if seen != live {
        return Err(fail(
            "a fresh instance that applies update() does not learn exactly the live registers",
            "Awareness::update -> Awareness::apply_update",
            reg_json(&live),
            reg_json(&seen),
        ));
    }
    Ok(())
}

/// The property clauses, checked directly on one transition.
fn check_clauses(before: &Reg, step: &AwStep, after: &Reg, position: &J) -> Result<(), Failure> {
    let api = step_api(step);
    let shown = |clause: &str| {
        J::obj(vec![
            ("clause", J::str(clause)),
            ("at", position.clone()),
            ("before", reg_json(before)),
        ])
    };
    for ci in 0..2 {
        if let Some((bc, _)) = &before[ci] {
            match &after[ci] {
                None => {
                    return Err(fail(
                        "(ii) a known client disappeared",
                        api,
                        shown("a client's clock never decreases"),
                        reg_json(after),
                    ))
                }
                Some((ac, _)) if ac < bc => {
                    return Err(fail(
                        "(ii) a client's clock decreased",
                        api,
                        shown("a client's clock never decreases"),
                        reg_json(after),
                    ))
                }
                _ => {}
            }
        }
    }
    let touched = match step {
        AwStep::Apply { client, .. } | AwStep::Remove { client } => ci_of(*client),
        AwStep::SetLocal { .. } => 0,
    };
    if before[1 - touched] != after[1 - touched] {
        return Err(fail(
            "the register of a client that the step does not mention changed",
            api,
            shown("a step changes the register of its own client only"),
            reg_json(after),
        ));
    }
    if let AwStep::Apply { client, clock, .. } = step {
        let ci = ci_of(*client);
        if let Some((bc, _)) = &before[ci] {
            if clock < bc && before[ci] != after[ci] {
                return Err(fail(
                    "(iii) a lower clock replaced a higher one",
                    api,
                    shown("an update with a lower clock than the known one is ignored"),
                    reg_json(after),
                ));
            }
        }
        let live = |r: &Reg| r[0].as_ref().map(|(_, d)| d.is_some()).unwrap_or(false);
        if live(before) && !live(after) {
            return Err(fail(
                "(iv) a remote message erased the live local state",
                api,
                shown("an incoming update never leaves the local client without its live state"),
                reg_json(after),
            ));
        }
    }
    Ok(())
}

fn init_steps(init: &str) -> Result<Vec<AwStep>, String> {
    match init {
        "none" => Ok(vec![]),
        "set" => Ok(vec![AwStep::SetLocal { payload: "a".to_string() }]),
        "set_clean" => Ok(vec![
            AwStep::SetLocal { payload: "a".to_string() },
            AwStep::Remove { client: LOCAL },
        ]),
        other => Err(format!("op.init: unknown initial state {:?} (none | set | set_clean)", other)),
    }
}

#[derive(Clone, Debug)]
pub struct AwCase {
    pub init: &'static str,
    pub steps: Vec<AwStep>,
    /// `Some`: variant `commute` (the two updates are applied in both orders
    /// after `steps`); `None`: variant `register`.
    pub pair: Option<(AwStep, AwStep)>,
}

fn step_json(s: &AwStep) -> J {
    match s {
        AwStep::Apply { client, clock, payload } => J::obj(vec![
            ("step", J::str("apply_update")),
            ("client", J::Num(*client as i64)),
            ("clock", J::num(*clock)),
            ("json", opt_str(payload)),
        ]),
        AwStep::SetLocal { payload } => J::obj(vec![("step", J::str("set_local_state")), ("json", J::str(payload))]),
        AwStep::Remove { client } => J::obj(vec![("step", J::str("remove_state")), ("client", J::Num(*client as i64))]),
    }
}

fn label_from(j: Option<&J>, what: &str) -> Result<Option<String>, String> {
    match j {
        None | Some(J::Null) => Ok(None),
        Some(J::Str(s)) => {
            if s.is_empty() || !s.chars().all(|c| c.is_ascii_alphanumeric()) {
                return Err(format!("{}.json: payload labels are non-empty ASCII alphanumeric strings or null", what));
            }
            Ok(Some(s.clone()))
        }
        Some(_) => Err(format!("{}.json: expected a string or null", what)),
    }
}

fn step_from(j: &J, what: &str) -> Result<AwStep, String> {
    let kind = j.get("step").and_then(|k| k.as_str()).ok_or_else(|| format!("{}.step missing", what))?;
    let client = || -> Result<u64, String> {
        match j.get("client").and_then(|c| c.as_i64()) {
            Some(1) => Ok(LOCAL),
            Some(2) => Ok(REMOTE),
            _ => Err(format!("{}.client must be 1 (local) or 2 (remote)", what)),
        }
    };
    match kind {
        "apply_update" | "apply" => {
            let clock = j.get("clock").and_then(|c| c.as_i64()).ok_or_else(|| format!("{}.clock missing", what))?;
            if clock < 0 || clock > u32::MAX as i64 {
                return Err(format!("{}.clock out of range", what));
            }
            Ok(AwStep::Apply {
                client: client()?,
                clock: clock as u32,
                payload: label_from(j.get("json"), what)?,
            })
        }
        "set_local_state" | "set_local" => Ok(AwStep::SetLocal {
            payload: label_from(j.get("json"), what)?.ok_or_else(|| format!("{}.json: a payload is required", what))?,
        }),
        "remove_state" | "clean_local_state" => Ok(AwStep::Remove {
            client: if kind == "clean_local_state" { LOCAL } else { client()? },
        }),
        other => Err(format!("{}: unknown step {:?}", what, other)),
    }
}

/// May the two updates be swapped? Both speak for the remote client and do
/// not carry different live payloads under one clock.
fn commutable(a: &AwStep, b: &AwStep) -> bool {
    match (a, b) {
        (
            AwStep::Apply { client: c1, clock: k1, payload: p1 },
            AwStep::Apply { client: c2, clock: k2, payload: p2 },
        ) => *c1 == REMOTE && *c2 == REMOTE && (k1 != k2 || p1 == p2 || p1.is_none() || p2.is_none()),
        _ => false,
    }
}

impl AwCase {
    pub fn describe(&self) -> (String, J) {
        let steps = J::Arr(self.steps.iter().map(step_json).collect());
        match &self.pair {
            None => (
                "register".to_string(),
                J::obj(vec![
                    ("kind", J::str("register")),
                    ("local_client", J::Num(LOCAL as i64)),
                    ("init", J::str(self.init)),
                    ("steps", steps),
                ]),
            ),
            Some((a, b)) => (
                "commute".to_string(),
                J::obj(vec![
                    ("kind", J::str("commute")),
                    ("local_client", J::Num(LOCAL as i64)),
                    ("init", J::str(self.init)),
                    ("steps", steps),
                    ("first", step_json(a)),
                    ("second", step_json(b)),
                ]),
            ),
        }
    }

    pub fn from_json(variant: &str, op: &J) -> Result<AwCase, String> {
        let init = op.get("init").and_then(|i| i.as_str()).unwrap_or("none");
        let init = *INITS
            .iter()
            .find(|i| **i == init)
            .ok_or_else(|| format!("op.init: unknown initial state {:?} (none | set | set_clean)", init))?;
        let mut steps = Vec::new();
        if let Some(arr) = op.get("steps").and_then(|s| s.as_arr()) {
            for (i, s) in arr.iter().enumerate() {
                steps.push(step_from(s, &format!("op.steps[{}]", i))?);
            }
        }
        let kind = op.get("kind").and_then(|k| k.as_str()).unwrap_or(variant);
        let pair = if kind == "commute" {
            let a = step_from(op.get("first").ok_or("op.first missing")?, "op.first")?;
            let b = step_from(op.get("second").ok_or("op.second missing")?, "op.second")?;
            if !commutable(&a, &b) {
                return Err("op.first/op.second: both must be apply_update steps of client 2 that do not carry \
                            different non-null payloads under the same clock"
                    .into());
            }
            Some((a, b))
        } else if kind == "register" {
            None
        } else {
            return Err(format!("unknown op.kind {:?} (register | commute)", kind));
        };
        Ok(AwCase { init, steps, pair })
    }

    pub fn run(&self) -> Result<(), Failure> {
        match &self.pair {
            None => self.run_register(),
            Some((a, b)) => self.run_commute(a, b),
        }
    }

    fn run_register(&self) -> Result<(), Failure> {
        let init = init_steps(self.init).unwrap_or_default();
        let mut aw = new_awareness(LOCAL);
        let mut model: Reg = [None, None];
        let mut before = observe(&aw)?;
        if before != model {
            return Err(fail(
                "a new instance knows clients",
                "Awareness::new",
                reg_json(&model),
                reg_json(&before),
            ));
        }
        for (i, step) in init.iter().chain(self.steps.iter()).enumerate() {
            let position = if i < init.len() {
                J::str(&format!("init step {}", i))
            } else {
                J::obj(vec![("step", J::Num((i - init.len()) as i64))])
            };
            do_step(&mut aw, step)?;
            let after = observe(&aw)?;
            model_step(&mut model, step);
            if after != model {
                return Err(fail(
                    "register state differs from the last-writer-wins oracle",
                    step_api(step),
                    J::obj(vec![("at", position), ("before", reg_json(&before)), ("state", reg_json(&model))]),
                    J::obj(vec![("state", reg_json(&after))]),
                ));
            }
            check_clauses(&before, step, &after, &position)?;
            if let AwStep::Apply { client, clock, payload } = step {
                // (i) the same update once more changes nothing
                do_step(&mut aw, step)?;
                let again = observe(&aw)?;
                if again != after {
                    return Err(fail(
                        "(i) applying the same update twice differs from applying it once",
                        step_api(step),
                        J::obj(vec![("at", position), ("before", reg_json(&before)), ("state", reg_json(&after))]),
                        J::obj(vec![("state", reg_json(&again))]),
                    ));
                }
                update_round_trip(&update_of(*client, *clock, payload), "incoming update")?;
            }
            check_update(&aw, &after)?;
            before = after;
        }
        Ok(())
    }

    fn final_state(&self, order: [&AwStep; 2]) -> Result<(Reg, Reg), Failure> {
        let init = init_steps(self.init).unwrap_or_default();
        let mut aw = new_awareness(LOCAL);
        let mut model: Reg = [None, None];
        for step in init.iter().chain(self.steps.iter()).chain(order.into_iter()) {
            do_step(&mut aw, step)?;
            model_step(&mut model, step);
        }
        Ok((observe(&aw)?, model))
    }

    fn run_commute(&self, a: &AwStep, b: &AwStep) -> Result<(), Failure> {
        let (ab, model_ab) = self.final_state([a, b])?;
        let (ba, model_ba) = self.final_state([b, a])?;
        if model_ab != model_ba {
            // cannot happen for pairs accepted by `commutable`
            return Err(fail(
                "internal: the oracle itself depends on the order",
                "oracle",
                reg_json(&model_ab),
                reg_json(&model_ba),
            ));
        }
        if ab != ba || ab != model_ab {
            return Err(fail(
                "(v) the application order of two compatible updates of the remote client changes the final state",
                "Awareness::apply_update",
                J::obj(vec![("either_order", reg_json(&model_ab))]),
                J::obj(vec![("first_then_second", reg_json(&ab)), ("second_then_first", reg_json(&ba))]),
            ));
        }
        Ok(())
    }

    pub fn actual_json(&self) -> J {
        let init = init_steps(self.init).unwrap_or_default();
        let mut aw = new_awareness(LOCAL);
        let mut steps: Vec<&AwStep> = init.iter().chain(self.steps.iter()).collect();
        if let Some((a, b)) = &self.pair {
            steps.push(a);
            steps.push(b);
        }
        for s in steps {
            if do_step(&mut aw, s).is_err() {
                return J::Null;
            }
        }
        match observe(&aw) {
            Ok(reg) => J::obj(vec![("state", reg_json(&reg))]),
            Err(_) => J::Null,
        }
    }
}

/// 2 clients x 6 clocks x 3 payloads incoming updates, then the local calls.
fn aw_alphabet() -> Vec<AwStep> {
    let mut out = Vec::new();
    for client in AW_CLIENTS {
        for clock in CLOCKS {
            for p in PAYLOADS {
                out.push(AwStep::Apply {
                    client,
                    clock,
                    payload: p.map(|s| s.to_string()),
                });
            }
        }
    }
    out.push(AwStep::SetLocal { payload: "a".to_string() });
    out.push(AwStep::SetLocal { payload: "b".to_string() });
    out.push(AwStep::Remove { client: LOCAL });
    out.push(AwStep::Remove { client: REMOTE });
    out
}

const AW_DEPTH: usize = 3;

pub fn search_awareness(r: &mut Runner) -> Result<(), XStop> {
    let alphabet = aw_alphabet();
    let a = alphabet.len();
    // shortest sequences first; sequences of length k share a unit per
    // (initial state, first min(k,2) steps)
    for len in 0..=AW_DEPTH {
        let head = len.min(2);
        let units = INITS.len() * a.pow(head as u32);
        let tail = a.pow((len - head) as u32);
        let alphabet = &alphabet;
        r.par(units, &|ctx: &mut Ctx, unit: usize| {
            let init = INITS[unit / a.pow(head as u32)];
            let mut code = unit % a.pow(head as u32);
            let mut prefix = Vec::with_capacity(len);
            for _ in 0..head {
                prefix.push(alphabet[code % a].clone());
                code /= a;
            }
            for t in 0..tail {
                let mut steps = prefix.clone();
                let mut code = t;
                for _ in head..len {
                    steps.push(alphabet[code % a].clone());
                    code /= a;
                }
                ctx.exec(XCase::Aw(AwCase { init, steps, pair: None }))?;
            }
            Ok(())
        })?;
    }
    // (v): every base state of the remote register (unknown, or known through
    // one update), every compatible ordered pair of remote updates
    let remote: Vec<AwStep> = alphabet
        .iter()
        .filter(|s| matches!(s, AwStep::Apply { client, .. } if *client == REMOTE))
        .cloned()
        .collect();
    let bases = remote.len() + 1;
    let remote = &remote;
    r.par(INITS.len() * bases, &|ctx: &mut Ctx, unit: usize| {
        let init = INITS[unit / bases];
        let steps: Vec<AwStep> = match unit % bases {
            0 => vec![],
            k => vec![remote[k - 1].clone()],
        };
        for x in remote.iter() {
            for y in remote.iter() {
                if commutable(x, y) {
                    ctx.exec(XCase::Aw(AwCase {
                        init,
                        steps: steps.clone(),
                        pair: Some((x.clone(), y.clone())),
                    }))?;
                }
            }
        }
        Ok(())
    })?;
    Ok(())
}

// ---------------------------------------------------------------------------
// syncmsg
// ---------------------------------------------------------------------------

/// The largest client id (53 bits).
const MAX_CLIENT: u64 = (1u64 << 53) - 1;

/// JSON-able mirror of `yrs::sync::Message`.
#[derive(Clone, Debug, PartialEq)]
pub enum Msg {
    Step1(Vec<(u64, u32)>),
    Step2(Vec<u8>),
    Update(Vec<u8>),
    Auth(Option<String>),
    AwarenessQuery,
    Awareness(Vec<(u64, u32, String)>),
    Custom(u8, Vec<u8>),
}

impl Msg {
    fn build(&self) -> Message {
        match self {
            Msg::Step1(sv) => Message::Sync(SyncMessage::SyncStep1(
                sv.iter().map(|(c, k)| (cid(*c), *k)).collect::<StateVector>(),
            )),
            Msg::Step2(b) => Message::Sync(SyncMessage::SyncStep2(b.clone())),
            Msg::Update(b) => Message::Sync(SyncMessage::Update(b.clone())),
            Msg::Auth(r) => Message::Auth(r.clone()),
            Msg::AwarenessQuery => Message::AwarenessQuery,
            Msg::Awareness(clients) => Message::Awareness(AwarenessUpdate {
                clients: clients
                    .iter()
                    .map(|(c, k, j)| (cid(*c), AwarenessUpdateEntry { clock: *k, json: j.as_str().into() }))
                    .collect(),
            }),
            Msg::Custom(tag, b) => Message::Custom(*tag, b.clone()),
        }
    }

    fn of(m: &Message) -> Msg {
        match m {
            Message::Sync(SyncMessage::SyncStep1(sv)) => {
                let mut v: Vec<(u64, u32)> = sv.iter().map(|(c, k)| (c.get(), *k)).collect();
                v.sort();
                Msg::Step1(v)
            }
            Message::Sync(SyncMessage::SyncStep2(b)) => Msg::Step2(b.clone()),
            Message::Sync(SyncMessage::Update(b)) => Msg::Update(b.clone()),
            Message::Auth(r) => Msg::Auth(r.clone()),
            Message::AwarenessQuery => Msg::AwarenessQuery,
            Message::Awareness(u) => {
                let mut v: Vec<(u64, u32, String)> =
                    u.clients.iter().map(|(c, e)| (c.get(), e.clock, e.json.to_string())).collect();
                v.sort();
                Msg::Awareness(v)
            }
            Message::Custom(tag, b) => Msg::Custom(*tag, b.clone()),
        }
    }

    fn to_json(&self) -> J {
        match self {
            Msg::Step1(sv) => J::obj(vec![
                ("type", J::str("sync_step1")),
                (
                    "sv",
                    J::Arr(sv.iter().map(|(c, k)| J::Arr(vec![J::Num(*c as i64), J::num(*k)])).collect()),
                ),
            ]),
            Msg::Step2(b) => J::obj(vec![("type", J::str("sync_step2")), ("bytes", bytes_json(b))]),
            Msg::Update(b) => J::obj(vec![("type", J::str("update")), ("bytes", bytes_json(b))]),
            Msg::Auth(r) => J::obj(vec![("type", J::str("auth")), ("reason", opt_str(r))]),
            Msg::AwarenessQuery => J::obj(vec![("type", J::str("awareness_query"))]),
            Msg::Awareness(clients) => J::obj(vec![
                ("type", J::str("awareness")),
                (
                    "clients",
                    J::Arr(
                        clients
                            .iter()
                            .map(|(c, k, j)| J::Arr(vec![J::Num(*c as i64), J::num(*k), J::str(j)]))
                            .collect(),
                    ),
                ),
            ]),
            Msg::Custom(tag, b) => J::obj(vec![
                ("type", J::str("custom")),
                ("tag", J::num(*tag)),
                ("bytes", bytes_json(b)),
            ]),
        }
    }

    fn from_json(j: &J) -> Result<Msg, String> {
        let kind = j.get("type").and_then(|t| t.as_str()).ok_or("op.msg.type missing")?;
        let bytes = || -> Result<Vec<u8>, String> {
            let arr = j.get("bytes").and_then(|b| b.as_arr()).ok_or("op.msg.bytes: expected an array")?;
            arr.iter()
                .map(|b| match b.as_i64() {
                    Some(n) if (0..=255).contains(&n) => Ok(n as u8),
                    _ => Err("op.msg.bytes: expected numbers 0..=255".to_string()),
                })
                .collect()
        };
        let client = |v: &J| -> Result<u64, String> {
            match v.as_i64() {
                Some(n) if n >= 0 && (n as u64) <= MAX_CLIENT => Ok(n as u64),
                _ => Err("op.msg: client ids are numbers below 2^53".to_string()),
            }
        };
        let clock = |v: &J| -> Result<u32, String> {
            match v.as_i64() {
                Some(n) if n >= 0 && n <= u32::MAX as i64 => Ok(n as u32),
                _ => Err("op.msg: clocks are u32 numbers".to_string()),
            }
        };
        Ok(match kind {
            "sync_step1" => {
                let arr = j.get("sv").and_then(|b| b.as_arr()).ok_or("op.msg.sv: expected [[client,clock]..]")?;
                let mut sv = Vec::new();
                for e in arr {
                    let e = e.as_arr().filter(|e| e.len() == 2).ok_or("op.msg.sv: expected [[client,clock]..]")?;
                    sv.push((client(&e[0])?, clock(&e[1])?));
                }
                Msg::Step1(sv)
            }
            "sync_step2" => Msg::Step2(bytes()?),
            "update" => Msg::Update(bytes()?),
            "auth" => Msg::Auth(match j.get("reason") {
                None | Some(J::Null) => None,
                Some(J::Str(s)) => Some(s.clone()),
                Some(_) => return Err("op.msg.reason: expected a string or null".into()),
            }),
            "awareness_query" => Msg::AwarenessQuery,
            "awareness" => {
                let arr = j
                    .get("clients")
                    .and_then(|b| b.as_arr())
                    .ok_or("op.msg.clients: expected [[client,clock,json]..]")?;
                let mut clients = Vec::new();
                for e in arr {
                    let e = e
                        .as_arr()
                        .filter(|e| e.len() == 3)
                        .ok_or("op.msg.clients: expected [[client,clock,json]..]")?;
                    let json = e[2].as_str().ok_or("op.msg.clients: json must be a string")?;
                    clients.push((client(&e[0])?, clock(&e[1])?, json.to_string()));
                }
                Msg::Awareness(clients)
            }
            "custom" => {
                let tag = match j.get("tag").and_then(|t| t.as_i64()) {
                    Some(n) if (4..=255).contains(&n) => n as u8,
                    _ => return Err("op.msg.tag: custom tags are 4..=255 (0..=3 are the built-in kinds)".into()),
                };
                Msg::Custom(tag, bytes()?)
            }
            other => return Err(format!("op.msg.type: unknown message type {:?}", other)),
        })
    }
}

/// What is checked about a message: the v1 round trip (plus truncations),
/// `MessageReader` over two concatenated v1 encodings, the v2 round trip
/// (plus truncations).
pub const MSG_CHECKS: [&str; 3] = ["v1", "reader", "v2"];

#[derive(Clone, Debug)]
pub struct MsgCase {
    pub msg: Msg,
    pub check: &'static str,
}

impl MsgCase {
    pub fn describe(&self) -> (String, J) {
        (
            self.check.to_string(),
            J::obj(vec![("kind", J::str("round_trip")), ("msg", self.msg.to_json())]),
        )
    }

    pub fn from_json(variant: &str, op: &J) -> Result<MsgCase, String> {
        let check = *MSG_CHECKS
            .iter()
            .find(|c| **c == variant)
            .ok_or_else(|| format!("variant: unknown check {:?} (v1 | reader | v2)", variant))?;
        Ok(MsgCase {
            msg: Msg::from_json(op.get("msg").ok_or("op.msg missing")?)?,
            check,
        })
    }

    pub fn run(&self) -> Result<(), Failure> {
        let m = self.msg.build();
        match self.check {
            "v1" => self.round_trip(&m, 1),
            "v2" => self.round_trip(&m, 2),
            _ => self.reader(&m),
        }
    }

    fn round_trip(&self, m: &Message, v: u8) -> Result<(), Failure> {
        let expected = || self.msg.to_json();
        {
            at(&format!("Message::encode_v{}", v));
            let bytes = if v == 1 { m.encode_v1() } else { m.encode_v2() };
            let api = format!("Message::decode_v{}(Message::encode_v{}(m))", v, v);
            at(&api);
            let back = if v == 1 { Message::decode_v1(&bytes) } else { Message::decode_v2(&bytes) };
            match back {
                Ok(d) if &d == m => {}
                Ok(d) => {
                    return Err(fail(
                        "decode(encode(m)) != m",
                        &api,
                        expected(),
                        J::obj(vec![("decoded", Msg::of(&d).to_json()), ("bytes", bytes_json(&bytes))]),
                    ))
                }
                Err(e) => {
                    return Err(fail(
                        "decode(encode(m)) failed",
                        &api,
                        expected(),
                        J::obj(vec![("error", J::str(&e.to_string())), ("bytes", bytes_json(&bytes))]),
                    ))
                }
            }
            for k in 0..bytes.len() {
                at(&format!(
                    "Message::decode_v{} of Message::encode_v{}(m) truncated to {} of {} bytes",
                    v,
                    v,
                    k,
                    bytes.len()
                ));
                // Err or a value; a panic is caught by the caller
                let _ = if v == 1 { Message::decode_v1(&bytes[..k]) } else { Message::decode_v2(&bytes[..k]) };
            }
            if let Message::Sync(sm) = m {
                at(&format!("SyncMessage::encode_v{}", v));
                let bytes = if v == 1 { sm.encode_v1() } else { sm.encode_v2() };
                let api = format!("SyncMessage::decode_v{}(SyncMessage::encode_v{}(m))", v, v);
                at(&api);
                let back = if v == 1 { SyncMessage::decode_v1(&bytes) } else { SyncMessage::decode_v2(&bytes) };
                match back {
                    Ok(d) if &d == sm => {}
                    Ok(d) => {
                        return Err(fail(
                            "decode(encode(m)) != m",
                            &api,
                            expected(),
                            J::obj(vec![
                                ("decoded", Msg::of(&Message::Sync(d)).to_json()),
                                ("bytes", bytes_json(&bytes)),
                            ]),
                        ))
                    }
                    Err(e) => {
                        return Err(fail(
                            "decode(encode(m)) failed",
                            &api,
                            expected(),
                            J::obj(vec![("error", J::str(&e.to_string())), ("bytes", bytes_json(&bytes))]),
                        ))
                    }
                }
                for k in 0..bytes.len() {
                    at(&format!(
                        "SyncMessage::decode_v{} of the encoding truncated to {} of {} bytes",
                        v,
                        k,
                        bytes.len()
                    ));
                    let _ = if v == 1 { SyncMessage::decode_v1(&bytes[..k]) } else { SyncMessage::decode_v2(&bytes[..k]) };
                }
            }
        }
        Ok(())
    }

    /// Two messages in one buffer, read back one by one.
    fn reader(&self, m: &Message) -> Result<(), Failure> {
        let expected = || self.msg.to_json();
        let api = "MessageReader over [m, m] (EncoderV1)";
        at(api);
        let mut enc = EncoderV1::new();
        m.encode(&mut enc);
        m.encode(&mut enc);
        let data = enc.to_vec();
        let mut dec = DecoderV1::new(Cursor::new(&data));
        let mut reader = MessageReader::new(&mut dec);
        let mut got: Vec<Result<Message, String>> = Vec::new();
        while got.len() < 3 {
            match reader.next() {
                Some(Ok(d)) => got.push(Ok(d)),
                Some(Err(e)) => {
                    got.push(Err(e.to_string()));
                    break;
                }
                None => break,
            }
        }
        let ok = got.len() == 2 && got.iter().all(|g| g.as_ref().ok() == Some(m));
        if !ok {
            return Err(fail(
                "MessageReader does not return the two encoded messages",
                api,
                J::Arr(vec![expected(), expected()]),
                J::obj(vec![
                    (
                        "read",
                        J::Arr(
                            got.iter()
                                .map(|g| match g {
                                    Ok(d) => Msg::of(d).to_json(),
                                    Err(e) => J::obj(vec![("error", J::str(e))]),
                                })
                                .collect(),
                        ),
                    ),
                    ("bytes", bytes_json(&data)),
                ]),
            ));
        }
        Ok(())
    }

    pub fn actual_json(&self) -> J {
        let m = self.msg.build();
        J::obj(vec![
            ("encode_v1", bytes_json(&m.encode_v1())),
            ("encode_v2", bytes_json(&m.encode_v2())),
        ])
    }
}

/// Every byte string of length `0..=max_len` over a small alphabet that
/// contains the var-int boundary values.
fn payloads(max_len: usize) -> Vec<Vec<u8>> {
    const BYTES: [u8; 5] = [0, 1, 0x7f, 0x80, 0xff];
    let mut out: Vec<Vec<u8>> = vec![vec![]];
    let mut last: Vec<Vec<u8>> = vec![vec![]];
    for _ in 0..max_len {
        let mut next = Vec::new();
        for p in &last {
            for b in BYTES {
                let mut q = p.clone();
                q.push(b);
                next.push(q);
            }
        }
        out.extend(next.iter().cloned());
        last = next;
    }
    out
}

fn all_messages() -> Vec<Msg> {
    let mut out = Vec::new();
    for sv in [
        vec![],
        vec![(1, 0)],
        vec![(1, 1)],
        vec![(1, 127)],
        vec![(1, 128)],
        vec![(1, u32::MAX)],
        vec![(0, 1)],
        vec![(1, 1), (2, 3)],
        vec![(MAX_CLIENT, 1)],
        vec![(1, 2), (2, 0), (3, 16384)],
    ] {
        out.push(Msg::Step1(sv));
    }
    for reason in [None, Some("x"), Some(""), Some("xy"), Some("\u{1F600}")] {
        out.push(Msg::Auth(reason.map(|s| s.to_string())));
    }
    out.push(Msg::AwarenessQuery);
    for clients in [
        vec![],
        vec![(1u64, 0u32, "null")],
        vec![(1, 1, "\"a\"")],
        vec![(2, u32::MAX, "{}")],
        vec![(1, 2, "")],
        vec![(1, 1, "\"a\""), (2, 3, "null")],
        vec![(MAX_CLIENT, 128, "\"\u{1F600}\"")],
    ] {
        out.push(Msg::Awareness(
            clients.into_iter().map(|(c, k, j)| (c, k, j.to_string())).collect(),
        ));
    }
    for p in payloads(3) {
        out.push(Msg::Step2(p.clone()));
        out.push(Msg::Update(p));
    }
    let small = payloads(2);
    for tag in 4..=255u8 {
        for p in &small {
            out.push(Msg::Custom(tag, p.clone()));
        }
    }
    out
}

pub fn search_syncmsg(r: &mut Runner) -> Result<(), XStop> {
    let msgs = all_messages();
    let msgs = &msgs;
    // units of 64 messages; every message under v1 first, v2 last
    let units = (msgs.len() + 63) / 64;
    for check in MSG_CHECKS {
        r.par(units, &|ctx: &mut Ctx, unit: usize| {
            for m in msgs.iter().skip(unit * 64).take(64) {
                ctx.exec(XCase::Msg(MsgCase { msg: m.clone(), check }))?;
            }
            Ok(())
        })?;
    }
    Ok(())
}
