//! Drivers for the real code (`yrs::IdSet`, `yrs::IdMap<u8>`) and the checks
//! that compare what it returns with the oracle.

use crate::json::J;
use crate::model::*;
use std::collections::hash_map::DefaultHasher;
use std::hash::{Hash, Hasher};
use yrs::block::BlockRange;
use yrs::updates::decoder::Decode;
use yrs::updates::encoder::Encode;
use yrs::{
    Array, ArrayPrelim, ClientID, ContentAttribute, Diff, Doc, IdMap, IdSet, In, MapPrelim, Options, ReadTxn,
    StateVector, Text, Transact, Update, ID,
};

pub type Map = IdMap<u8>;

#[derive(Clone, Debug, PartialEq)]
pub struct RR {
    pub client: u64,
    pub s: u32,
    pub e: u32,
    pub v: u8,
}

/// Everything observable about a value through its public read API.
pub struct ReadBack {
    pub ranges: Vec<RR>,
    pub anomalies: Vec<String>,
    pub is_empty: bool,
}

impl ReadBack {
    fn client_json(&self, client: u64, is_map: bool) -> J {
        J::Arr(
            self.ranges
                .iter()
                .filter(|r| r.client == client)
                .map(|r| run_json(&(r.s, r.e, r.v), is_map))
                .collect(),
        )
    }

    pub fn to_json(&self, is_map: bool) -> J {
        let mut f = vec![("ranges", self.client_json(1, is_map))];
        if self.ranges.iter().any(|r| r.client == 2) {
            f.push(("ranges2", self.client_json(2, is_map)));
        }
        let others: Vec<J> = self
            .ranges
            .iter()
            .filter(|r| r.client != 1 && r.client != 2)
            .map(|r| J::Arr(vec![J::Num(r.client as i64), J::num(r.s), J::num(r.e)]))
            .collect();
        if !others.is_empty() {
            f.push(("ranges_other_clients", J::Arr(others)));
        }
        if !self.anomalies.is_empty() {
            f.push((
                "anomalies",
                J::Arr(self.anomalies.iter().map(|a| J::str(a)).collect()),
            ));
        }
        f.push(("is_empty", J::Bool(self.is_empty)));
        J::obj(f)
    }
}

fn cid(client: u64) -> ClientID {
    ClientID::new(client)
}

fn block_range(client: u64, s: u32, e: u32) -> BlockRange {
    BlockRange::new(ID::new(cid(client), s), e - s)
}

pub trait Sut: Clone + PartialEq + Sized {
    const IS_MAP: bool;
    fn new() -> Self;
    fn ins(&mut self, client: u64, s: u32, e: u32, v: u8);
    fn rem(&mut self, client: u64, s: u32, e: u32);
    fn read(&self) -> ReadBack;
    fn contains_apis(&self, client: u64, clock: u32) -> Vec<(&'static str, bool)>;
    fn merge_apis(a: &Self, b: &Self) -> Vec<(&'static str, Self)>;
    fn exclude_apis(a: &Self, b: &Self, bo: &O) -> Vec<(&'static str, Self)>;
    fn intersect_apis(a: &Self, b: &Self) -> Vec<(&'static str, Self)>;
    fn equal_apis(a: &Self, b: &Self) -> Vec<(&'static str, bool)>;
    /// Encoding / hashing checks (`level >= 1`) and conversion checks
    /// (`level >= 2`) on a value already known to read back as `exp`;
    /// `canon` is the canonical build of `exp`.
    fn deep(&self, exp: &O, canon: &Self, level: u8, api: &str) -> Result<(), Failure>;

    /// Build the next values from freshly allocated attribute instances.
    fn fresh_values(_on: bool) {}

    // operations that exist for one variant only
    fn subset_of(_a: &Self, _b: &Self, _client: u64) -> Option<bool> {
        None
    }
    fn find_start(&self, _client: u64, _clock: u32) -> Option<Option<usize>> {
        None
    }
    fn clock_start(&self, _client: u64) -> Option<Option<u32>> {
        None
    }
    fn clock_end(&self, _client: u64) -> Option<Option<u32>> {
        None
    }
    fn attributions(&self, _client: u64, _s: u32, _e: u32) -> Option<Vec<Run>> {
        None
    }
}

// ---------------------------------------------------------------------------
// IdSet
// ---------------------------------------------------------------------------

fn hash_of<T: Hash>(t: &T) -> u64 {
    let mut h = DefaultHasher::new();
    t.hash(&mut h);
    h.finish()
}

fn read_id_set(set: &IdSet) -> ReadBack {
    let mut ranges = Vec::new();
    let mut anomalies = Vec::new();
    for (client, rs) in set.iter() {
        let client = client.get();
        let mut count = 0usize;
        for r in rs.iter() {
            count += 1;
            ranges.push(RR {
                client,
                s: r.start,
                e: r.end,
                v: UNIT,
            });
        }
        if count == 0 {
            anomalies.push(format!("client {} entry has zero ranges", client));
        }
        if count != rs.len() || rs.is_empty() != (count == 0) {
            anomalies.push(format!("client {}: Ranges::len/is_empty disagree with iter()", client));
        }
    }
    ReadBack {
        ranges,
        anomalies,
        is_empty: set.is_empty(),
    }
}

impl Sut for IdSet {
    const IS_MAP: bool = false;

    fn new() -> Self {
        IdSet::new()
    }

    fn ins(&mut self, client: u64, s: u32, e: u32, _v: u8) {
        self.insert(ID::new(cid(client), s), e - s);
    }

    fn rem(&mut self, client: u64, s: u32, e: u32) {
        self.remove_range(&block_range(client, s, e));
    }

    fn read(&self) -> ReadBack {
        read_id_set(self)
    }

    fn contains_apis(&self, client: u64, clock: u32) -> Vec<(&'static str, bool)> {
        let c = cid(client);
        let via_get = match self.get(&c) {
            Some(r) => r.contains_clock(clock),
            None => false,
        };
        let via_iter = self
            .iter()
            .find(|(k, _)| **k == c)
            .map(|(_, rs)| rs.contains_clock(clock))
            .unwrap_or(false);
        vec![
            ("IdSet::contains", self.contains(&ID::new(c, clock))),
            ("IdSet::get + IdRange::contains_clock", via_get),
            ("IdSet::iter + Ranges::contains_clock", via_iter),
        ]
    }

    fn merge_apis(a: &Self, b: &Self) -> Vec<(&'static str, Self)> {
        let r1 = a.merge(b);
        let mut r2 = a.clone();
        r2.merge_with(b.clone());
        let mut r3 = a.clone();
        for client in b.client_ids() {
            if let Some(r) = b.get(&client) {
                r3.insert_range(client, r.clone());
            }
        }
        vec![
            ("IdSet::merge", r1),
            ("IdSet::merge_with", r2),
            ("IdSet::insert_range", r3),
        ]
    }

    fn exclude_apis(a: &Self, b: &Self, _bo: &O) -> Vec<(&'static str, Self)> {
        let r1 = a.diff(b);
        let mut r2 = a.clone();
        r2.diff_with(b);
        vec![("IdSet::diff", r1), ("IdSet::diff_with", r2)]
    }

    fn intersect_apis(a: &Self, b: &Self) -> Vec<(&'static str, Self)> {
        let r1 = a.intersect(b);
        let mut r2 = a.clone();
        r2.intersect_with(b);
        vec![("IdSet::intersect", r1), ("IdSet::intersect_with", r2)]
    }

    fn equal_apis(a: &Self, b: &Self) -> Vec<(&'static str, bool)> {
        vec![
            ("IdSet == IdSet", a == b),
            ("IdSet == IdSet (flipped)", b == a),
            ("!(IdSet != IdSet)", !(a != b)),
            ("encode_v1 bytes equal", a.encode_v1() == b.encode_v1()),
        ]
    }

    fn deep(&self, exp: &O, canon: &Self, _level: u8, api: &str) -> Result<(), Failure> {
        let fail = |what: &str, actual: J| Failure {
            why: "equality/encoding mismatch".to_string(),
            expected: {
                let mut e = expected_json(exp, false, false);
                e.push_field("property", J::str(what));
                e
            },
            actual,
            api: api.to_string(),
        };
        let enc = self.encode_v1();
        let enc_canon = canon.encode_v1();
        let bytes = |b: &[u8]| J::Arr(b.iter().map(|x| J::num(*x)).collect());
        if enc != enc_canon {
            return Err(fail(
                "encode_v1(result) == encode_v1(canonical build of the same set)",
                J::obj(vec![("encoded", bytes(&enc)), ("encoded_canonical", bytes(&enc_canon))]),
            ));
        }
        match IdSet::decode_v1(&enc) {
            Ok(d) => {
                if d != *self || read_id_set(&d).ranges != read_id_set(self).ranges {
                    return Err(fail(
                        "decode_v1(encode_v1(x)) == x",
                        J::obj(vec![("encoded", bytes(&enc)), ("decoded", read_id_set(&d).to_json(false))]),
                    ));
                }
            }
            Err(e) => {
                return Err(fail(
                    "decode_v1(encode_v1(x)) succeeds",
                    J::obj(vec![("encoded", bytes(&enc)), ("error", J::str(&e.to_string()))]),
                ));
            }
        }
        if hash_of(self) != hash_of(canon) {
            return Err(fail("Hash(result) == Hash(canonical build of the same set)", J::Null));
        }
        Ok(())
    }

    fn subset_of(a: &Self, b: &Self, client: u64) -> Option<bool> {
        let c = cid(client);
        // An empty IdRange cannot be named (module `ids` is private) but
        // `range_mut` hands one out.
        let mut scratch = IdSet::new();
        let empty = scratch.range_mut(c).clone();
        let ra = a.get(&c).unwrap_or(&empty);
        let rb = b.get(&c).unwrap_or(&empty);
        Some(ra.subset_of(rb))
    }

    fn find_start(&self, client: u64, clock: u32) -> Option<Option<usize>> {
        let c = cid(client);
        let mut scratch = IdSet::new();
        let empty = scratch.range_mut(c).clone();
        Some(self.get(&c).unwrap_or(&empty).find_start(clock))
    }

    fn clock_start(&self, client: u64) -> Option<Option<u32>> {
        let c = cid(client);
        let mut scratch = IdSet::new();
        let empty = scratch.range_mut(c).clone();
        Some(self.get(&c).unwrap_or(&empty).clock_start())
    }

    fn clock_end(&self, client: u64) -> Option<Option<u32>> {
        let c = cid(client);
        let mut scratch = IdSet::new();
        let empty = scratch.range_mut(c).clone();
        Some(self.get(&c).unwrap_or(&empty).clock_end())
    }
}

// ---------------------------------------------------------------------------
// IdMap<u8>
// ---------------------------------------------------------------------------

thread_local! {
    /// The two attributes of the universe, one shared instance per thread
    /// (IdMap re-uses its own cached copy of an equal attribute anyway).
    static ATTRS: (ContentAttribute<u8>, ContentAttribute<u8>) =
        (ContentAttribute::new("a", 1u8), ContentAttribute::new("b", 2u8));
    /// When set, `attrs_of` allocates new (equal but not pointer-identical)
    /// attribute instances; used for the right-hand operand of binary
    /// operations so that both kinds of sharing occur.
    static FRESH_ATTRS: std::cell::Cell<bool> = const { std::cell::Cell::new(false) };
}

fn attr_a() -> ContentAttribute<u8> {
    if FRESH_ATTRS.with(|f| f.get()) {
        ContentAttribute::new("a", 1u8)
    } else {
        ATTRS.with(|a| a.0.clone())
    }
}

fn attr_b() -> ContentAttribute<u8> {
    if FRESH_ATTRS.with(|f| f.get()) {
        ContentAttribute::new("b", 2u8)
    } else {
        ATTRS.with(|a| a.1.clone())
    }
}

fn attrs_of(v: u8) -> Vec<ContentAttribute<u8>> {
    let mut out = Vec::with_capacity(2);
    if v & A_BIT != 0 {
        out.push(attr_a());
    }
    if v & B_BIT != 0 {
        out.push(attr_b());
    }
    out
}

/// Attribute list -> mask; the second component reports a malformed set.
fn mask_of(attrs: &[ContentAttribute<u8>]) -> (u8, Option<&'static str>) {
    let mut v = 0u8;
    let mut bad = None;
    for a in attrs {
        let bit = match (a.name(), *a.value()) {
            ("a", 1) => A_BIT,
            ("b", 2) => B_BIT,
            _ => {
                bad = Some("unknown attribute in range");
                0x40
            }
        };
        if bit != 0x40 && v & bit != 0 {
            bad = Some("duplicate attribute in range");
        }
        v |= bit;
    }
    (v, bad)
}

fn read_id_map(map: &Map, with_set: bool) -> ReadBack {
    let mut ranges = Vec::new();
    let mut anomalies = Vec::new();
    for (client, ar) in map.iter() {
        let (v, bad) = mask_of(&ar.attrs);
        if ar.attrs.is_empty() {
            anomalies.push(format!(
                "range [{},{}) has an empty attribute set",
                ar.range.start, ar.range.end
            ));
        }
        if let Some(bad) = bad {
            anomalies.push(format!("{} [{},{})", bad, ar.range.start, ar.range.end));
        }
        ranges.push(RR {
            client: client.get(),
            s: ar.range.start,
            e: ar.range.end,
            v,
        });
    }
    // `IdMap::iter` silently skips a client entry without ranges; `as_id_set`
    // keeps one entry per stored client, so it reveals them.
    if with_set {
        let set = map.as_id_set();
        for (client, rs) in set.iter() {
            let client = client.get();
            if !ranges.iter().any(|r| r.client == client) {
                anomalies.push(format!("client {} entry has zero ranges", client));
            } else if rs.is_empty() {
                anomalies.push(format!("as_id_set(): client {} entry has zero ranges", client));
            }
        }
    }
    ReadBack {
        ranges,
        anomalies,
        is_empty: map.is_empty(),
    }
}

impl Sut for Map {
    const IS_MAP: bool = true;

    fn new() -> Self {
        IdMap::new()
    }

    fn ins(&mut self, client: u64, s: u32, e: u32, v: u8) {
        self.insert(block_range(client, s, e), attrs_of(v));
    }

    fn rem(&mut self, client: u64, s: u32, e: u32) {
        self.remove(&block_range(client, s, e));
    }

    fn read(&self) -> ReadBack {
        read_id_map(self, true)
    }

    fn contains_apis(&self, client: u64, clock: u32) -> Vec<(&'static str, bool)> {
        vec![("IdMap::contains", self.contains(&ID::new(cid(client), clock)))]
    }

    fn merge_apis(a: &Self, b: &Self) -> Vec<(&'static str, Self)> {
        let mut r1 = a.clone();
        r1.merge_with(b.clone());
        let r2 = IdMap::merge_many(&[a.clone(), b.clone()]);
        vec![("IdMap::merge_with", r1), ("IdMap::merge_many", r2)]
    }

    fn exclude_apis(a: &Self, b: &Self, bo: &O) -> Vec<(&'static str, Self)> {
        let mut r1 = a.clone();
        Diff::<Map>::diff_with(&mut r1, b);
        let b_set: IdSet = build(&bo.as_set());
        let mut r2 = a.clone();
        Diff::<IdSet>::diff_with(&mut r2, &b_set);
        vec![
            ("IdMap::diff_with(&IdMap)", r1),
            ("IdMap::diff_with(&IdSet)", r2),
        ]
    }

    fn intersect_apis(a: &Self, b: &Self) -> Vec<(&'static str, Self)> {
        let mut r1 = a.clone();
        r1.intersect_with(b);
        vec![("IdMap::intersect_with", r1)]
    }

    fn equal_apis(a: &Self, b: &Self) -> Vec<(&'static str, bool)> {
        vec![
            ("IdMap == IdMap", a == b),
            ("IdMap == IdMap (flipped)", b == a),
            ("!(IdMap != IdMap)", !(a != b)),
        ]
    }

    fn deep(&self, exp: &O, _canon: &Self, level: u8, api: &str) -> Result<(), Failure> {
        if level >= 2 {
            // as_id_set (IdMapInner::map -> insert_with) and From<IdMap> for IdSet
            let exp_set = exp.as_set();
            let set = self.as_id_set();
            check_result(&set, &exp_set, 1, &format!("{} -> IdMap::as_id_set", api))?;
            let set2: IdSet = IdSet::from(self.clone());
            check_result(&set2, &exp_set, 0, &format!("{} -> IdSet::from(IdMap)", api))?;
            // from_set: every clock attributed with {a}
            let mut exp_a = exp_set;
            for c in exp_a.0.iter_mut() {
                for v in c.iter_mut() {
                    if *v != 0 {
                        *v = A_BIT;
                    }
                }
            }
            let from_set: Map = IdMap::from_set(set, vec![attr_a()]);
            check_result(&from_set, &exp_a, 0, &format!("{} -> IdMap::from_set", api))?;
        }
        // encoding round trip
        let enc = self.encode_v1();
        let bytes = |b: &[u8]| J::Arr(b.iter().map(|x| J::num(*x)).collect());
        let fail = |what: &str, actual: J| Failure {
            why: "equality/encoding mismatch".to_string(),
            expected: {
                let mut e = expected_json(exp, true, false);
                e.push_field("property", J::str(what));
                e
            },
            actual,
            api: api.to_string(),
        };
        match Map::decode_v1(&enc) {
            Ok(d) => {
                if d != *self || read_id_map(&d, false).ranges != read_id_map(self, false).ranges {
                    return Err(fail(
                        "decode_v1(encode_v1(x)) == x",
                        J::obj(vec![("encoded", bytes(&enc)), ("decoded", read_id_map(&d, true).to_json(true))]),
                    ));
                }
            }
            Err(e) => {
                return Err(fail(
                    "decode_v1(encode_v1(x)) succeeds",
                    J::obj(vec![("encoded", bytes(&enc)), ("error", J::str(&e.to_string()))]),
                ));
            }
        }
        Ok(())
    }

    fn fresh_values(on: bool) {
        FRESH_ATTRS.with(|f| f.set(on));
    }

    fn attributions(&self, client: u64, s: u32, e: u32) -> Option<Vec<Run>> {
        Some(
            IdMap::attributions(self, &block_range(client, s, e))
                .into_iter()
                .map(|ar| {
                    let (v, bad) = mask_of(&ar.attrs);
                    (ar.range.start, ar.range.end, if bad.is_some() { v | 0x40 } else { v })
                })
                .collect(),
        )
    }
}

// ---------------------------------------------------------------------------
// construction
// ---------------------------------------------------------------------------

/// Canonical build: maximal runs, ascending, client 1 then client 2.
pub fn build<S: Sut>(o: &O) -> S {
    let mut x = S::new();
    for ci in 0..2 {
        for (s, e, v) in o.runs(ci) {
            x.ins(CLIENTS[ci], s, e, v);
        }
    }
    x
}

pub const INSERT_BUILDS: [&str; 7] = [
    "asc_singles",
    "desc_singles",
    "evens_odds",
    "odds_evens_desc",
    "overlap_pairs",
    "layered",
    "layered_rev",
];

pub const REMOVE_BUILDS: [&str; 4] = ["fill_remove", "full_remove", "split_remove", "trim_reinsert"];

/// Builds the same abstract value through a different sequence of real
/// `insert` / `remove` calls. `None`: unknown method, or not applicable to
/// this variant.
pub fn build_alt<S: Sut>(o: &O, method: &str, n: u32) -> Option<S> {
    let mut x = S::new();
    match method {
        "canonical" => return Some(build(o)),
        "asc_singles" => {
            for ci in 0..2 {
                for k in o.clocks(ci) {
                    x.ins(CLIENTS[ci], k, k + 1, o.get(ci, k));
                }
            }
        }
        "desc_singles" => {
            for ci in (0..2).rev() {
                for k in o.clocks(ci).into_iter().rev() {
                    x.ins(CLIENTS[ci], k, k + 1, o.get(ci, k));
                }
            }
        }
        "evens_odds" => {
            for parity in [0u32, 1] {
                for ci in 0..2 {
                    for k in o.clocks(ci).into_iter().filter(|k| k % 2 == parity) {
                        x.ins(CLIENTS[ci], k, k + 1, o.get(ci, k));
                    }
                }
            }
        }
        "odds_evens_desc" => {
            for parity in [1u32, 0] {
                for ci in 0..2 {
                    for k in o.clocks(ci).into_iter().rev().filter(|k| k % 2 == parity) {
                        x.ins(CLIENTS[ci], k, k + 1, o.get(ci, k));
                    }
                }
            }
        }
        // every run of length >= 2 is inserted as two overlapping windows,
        // runs taken right to left
        "overlap_pairs" => {
            for ci in 0..2 {
                for (s, e, v) in o.runs(ci).into_iter().rev() {
                    if e - s >= 2 {
                        x.ins(CLIENTS[ci], s + 1, e, v);
                        x.ins(CLIENTS[ci], s, e - 1, v);
                    } else {
                        x.ins(CLIENTS[ci], s, e, v);
                    }
                }
            }
        }
        // maps only: one layer per attribute, so overlapping inserts with
        // different values must split and merge
        "layered" | "layered_rev" => {
            if !S::IS_MAP {
                return None;
            }
            let bits: [u8; 2] = if method == "layered" { [A_BIT, B_BIT] } else { [B_BIT, A_BIT] };
            for bit in bits {
                for ci in 0..2 {
                    let mut layer = O::empty();
                    for k in o.clocks(ci) {
                        if o.get(ci, k) & bit != 0 {
                            layer.0[ci][k as usize] = bit;
                        }
                    }
                    let mut runs = layer.runs(ci);
                    if method == "layered_rev" {
                        runs.reverse();
                    }
                    for (s, e, v) in runs {
                        x.ins(CLIENTS[ci], s, e, v);
                    }
                }
            }
        }
        // canonical build, then every gap inside 0..n is filled and removed again
        "fill_remove" => {
            x = build(o);
            let fill = if S::IS_MAP { B_BIT } else { UNIT };
            for ci in 0..2 {
                if ci == 1 && o.client_is_empty(1) {
                    continue; // single-client case: leave client 2 alone
                }
                let gaps = o.gaps(ci, n);
                for &(s, e) in &gaps {
                    x.ins(CLIENTS[ci], s, e, fill);
                }
                for &(s, e) in gaps.iter().rev() {
                    x.rem(CLIENTS[ci], s, e);
                }
            }
        }
        // sets only: insert 0..n, then carve the gaps out
        "full_remove" => {
            if S::IS_MAP {
                return None;
            }
            for ci in 0..2 {
                if o.client_is_empty(ci) {
                    continue;
                }
                x.ins(CLIENTS[ci], 0, n, UNIT);
                for (s, e) in o.gaps(ci, n) {
                    x.rem(CLIENTS[ci], s, e);
                }
            }
        }
        // the interior of every run of length >= 3 is removed (split) and re-inserted
        "split_remove" => {
            x = build(o);
            for ci in 0..2 {
                for (s, e, v) in o.runs(ci) {
                    if e - s >= 3 {
                        x.rem(CLIENTS[ci], s + 1, e - 1);
                        x.ins(CLIENTS[ci], s + 1, e - 1, v);
                    }
                }
            }
        }
        // first and last clock of every run are removed (trim) and re-inserted
        "trim_reinsert" => {
            x = build(o);
            for ci in 0..2 {
                for (s, e, v) in o.runs(ci) {
                    x.rem(CLIENTS[ci], s, s + 1);
                    x.ins(CLIENTS[ci], s, s + 1, v);
                    x.rem(CLIENTS[ci], e - 1, e);
                    x.ins(CLIENTS[ci], e - 1, e, v);
                }
            }
        }
        _ => return None,
    }
    Some(x)
}

// ---------------------------------------------------------------------------
// checks
// ---------------------------------------------------------------------------

/// Canonical form as visible through `iter()`.
fn canon_violation(rb: &ReadBack) -> Option<String> {
    if let Some(a) = rb.anomalies.first() {
        return Some(a.clone());
    }
    let mut prev: Option<&RR> = None;
    for r in &rb.ranges {
        if client_index(r.client).is_none() {
            return Some(format!("unexpected client {}", r.client));
        }
        if r.s >= r.e {
            return Some(format!("empty or inverted range [{},{})", r.s, r.e));
        }
        if let Some(p) = prev {
            if p.client > r.client {
                return Some("clients out of order".to_string());
            }
            if p.client == r.client {
                if p.e > r.s {
                    return Some(format!(
                        "ranges [{},{}) and [{},{}) overlap or are unsorted",
                        p.s, p.e, r.s, r.e
                    ));
                }
                if p.e == r.s && p.v == r.v {
                    return Some(format!(
                        "adjacent ranges [{},{}) and [{},{}) with equal value are not coalesced",
                        p.s, p.e, r.s, r.e
                    ));
                }
            }
        }
        prev = Some(r);
    }
    None
}

pub fn check_result<S: Sut>(x: &S, exp: &O, deep: u8, api: &str) -> Result<(), Failure> {
    let rb = x.read();
    let show2 = rb.ranges.iter().any(|r| r.client == 2);
    let fail = |why: String| Failure {
        why,
        expected: expected_json(exp, S::IS_MAP, show2),
        actual: rb.to_json(S::IS_MAP),
        api: api.to_string(),
    };
    if let Some(v) = canon_violation(&rb) {
        return Err(fail(format!("not canonical: {}", v)));
    }
    // ranges are sorted and disjoint here
    let mut got = O::empty();
    let mut overflow = false;
    for r in &rb.ranges {
        let ci = client_index(r.client).unwrap();
        if r.e as usize > L {
            overflow = true;
            continue;
        }
        got.insert(ci, r.s, r.e, r.v);
    }
    if overflow || got.as_set() != exp.as_set() {
        return Err(fail("clocks differ".to_string()));
    }
    if got != *exp {
        return Err(fail("attributes differ".to_string()));
    }
    if rb.is_empty != exp.is_empty() {
        return Err(fail(format!(
            "not canonical: is_empty() = {} but the value has {} clocks",
            rb.is_empty,
            if exp.is_empty() { "no" } else { "some" }
        )));
    }
    let canon: S = build(exp);
    if !(*x == canon) || !(canon == *x) || *x != canon {
        let mut f = fail("equality/encoding mismatch".to_string());
        f.expected.push_field(
            "property",
            J::str("result == canonical build of the same value (PartialEq)"),
        );
        return Err(f);
    }
    if deep > 0 {
        x.deep(exp, &canon, deep, api)?;
    }
    Ok(())
}

fn bool_failure(api: &str, expected: bool, actual: bool) -> Failure {
    Failure {
        why: "wrong boolean result".to_string(),
        expected: J::obj(vec![("value", J::Bool(expected))]),
        actual: J::obj(vec![("value", J::Bool(actual))]),
        api: api.to_string(),
    }
}

fn opt_json<T: Into<i64>>(v: Option<T>) -> J {
    match v {
        Some(v) => J::obj(vec![("value", J::Num(v.into()))]),
        None => J::obj(vec![("value", J::Null)]),
    }
}

/// Is `op` meaningful for this variant / are its parameters in range?
pub fn validate(case: &Case) -> Result<(), String> {
    let set_only = |what: &str| -> Result<(), String> {
        if case.is_map {
            Err(format!("{} exists for variant idset only", what))
        } else {
            Ok(())
        }
    };
    match &case.op {
        Op::Insert { s, e, .. } | Op::Remove { s, e, .. } | Op::Attributions { s, e, .. } => {
            if s > e {
                return Err("op.range: start > end".into());
            }
            if let Op::Attributions { .. } = case.op {
                if !case.is_map {
                    return Err("attributions exists for variant idmap only".into());
                }
            }
            Ok(())
        }
        Op::Build { method } => {
            let known = method == "canonical"
                || INSERT_BUILDS.contains(&method.as_str())
                || REMOVE_BUILDS.contains(&method.as_str());
            if !known {
                return Err(format!("unknown build method {:?}", method));
            }
            let ok = if case.is_map {
                build_alt::<Map>(&O::empty(), method, 0).is_some()
            } else {
                build_alt::<IdSet>(&O::empty(), method, 0).is_some()
            };
            if ok {
                Ok(())
            } else {
                Err(format!("build method {:?} is not applicable to {}", method, case.variant()))
            }
        }
        Op::SubsetOf { .. } => set_only("subset_of"),
        Op::FindStart { .. } => set_only("find_start (use op attributions for idmap)"),
        Op::ClockStart { .. } => set_only("clock_start"),
        Op::ClockEnd { .. } => set_only("clock_end"),
        Op::NonMut { which } => {
            if !NONMUT_KINDS.contains(&which.as_str()) {
                return Err(format!("unknown non-mutating operation {:?}", which));
            }
            set_only("nonmut (IdSet::merge / diff / intersect)")
        }
        Op::FromIdMap { method } => {
            if !case.is_map {
                return Err("from_idmap exists for variant idmap only".into());
            }
            if build_alt::<Map>(&O::empty(), method, 0).is_none() {
                return Err(format!("build method {:?} is not applicable to idmap", method));
            }
            Ok(())
        }
        Op::FromStore(script) => {
            set_only("from_store")?;
            script.outcome().map(|_| ())
        }
        Op::Filter { pred, method } => {
            if !case.is_map {
                return Err("filter exists for variant idmap only".into());
            }
            if !FILTER_PREDS.contains(&pred.as_str()) {
                return Err(format!("unknown predicate {:?}", pred));
            }
            if build_alt::<Map>(&O::empty(), method, 0).is_none() {
                return Err(format!("build method {:?} is not applicable to idmap", method));
            }
            Ok(())
        }
        _ => Ok(()),
    }
}

/// The right-hand operand of a binary operation.
fn build_other<S: Sut>(o: &O) -> S {
    S::fresh_values(true);
    let b = build(o);
    S::fresh_values(false);
    b
}

pub fn run_case(case: &Case) -> Result<(), Failure> {
    if case.is_map {
        run_generic::<Map>(case)
    } else {
        run_generic::<IdSet>(case)
    }
}

fn run_generic<S: Sut>(case: &Case) -> Result<(), Failure> {
    let st: S = build(&case.state);
    let empty = O::empty();
    let other_o = case.other.as_ref().unwrap_or(&empty);
    match &case.op {
        Op::Build { method } => {
            // the canonical build itself must read back as the oracle value
            check_result(&st, &case.state, 2, "insert (canonical build)")?;
            if let Some(alt) = build_alt::<S>(&case.state, method, case.universe) {
                check_result(&alt, &case.state, 2, &format!("build:{}", method))?;
                for (api, eq) in S::equal_apis(&alt, &st) {
                    if !eq {
                        let mut f = bool_failure(api, true, false);
                        f.why = "equality/encoding mismatch".to_string();
                        f.actual = J::obj(vec![
                            ("value", J::Bool(false)),
                            ("built", alt.read().to_json(S::IS_MAP)),
                            ("canonical", st.read().to_json(S::IS_MAP)),
                        ]);
                        return Err(f);
                    }
                }
            }
            Ok(())
        }
        Op::Insert { client, s, e, v } => {
            let ci = client_index(*client).unwrap();
            let mut exp = case.state;
            exp.insert(ci, *s, *e, *v);
            let mut x = st.clone();
            x.ins(*client, *s, *e, *v);
            check_result(&x, &exp, 1, if S::IS_MAP { "IdMap::insert" } else { "IdSet::insert" })
        }
        Op::Remove { client, s, e } => {
            let ci = client_index(*client).unwrap();
            let mut exp = case.state;
            exp.remove(ci, *s, *e);
            let mut x = st.clone();
            x.rem(*client, *s, *e);
            check_result(&x, &exp, 1, if S::IS_MAP { "IdMap::remove" } else { "IdSet::remove_range" })
        }
        Op::Merge => {
            let b: S = build_other(other_o);
            let exp = case.state.merge(other_o);
            for (api, r) in S::merge_apis(&st, &b) {
                check_result(&r, &exp, 1, api)?;
            }
            Ok(())
        }
        Op::Exclude => {
            let b: S = build_other(other_o);
            let exp = case.state.exclude(other_o);
            for (api, r) in S::exclude_apis(&st, &b, other_o) {
                check_result(&r, &exp, 1, api)?;
            }
            Ok(())
        }
        Op::Intersect => {
            let b: S = build_other(other_o);
            let exp = case.state.intersect(other_o);
            for (api, r) in S::intersect_apis(&st, &b) {
                check_result(&r, &exp, 1, api)?;
            }
            Ok(())
        }
        Op::SubsetOf { client } => {
            let ci = client_index(*client).unwrap();
            let b: S = build_other(other_o);
            let exp = case.state.subset_of(ci, other_o);
            if let Some(got) = S::subset_of(&st, &b, *client) {
                if got != exp {
                    return Err(bool_failure("IdRange::subset_of", exp, got));
                }
            }
            Ok(())
        }
        Op::Equal => {
            // `other` is built in a different order than `state`
            let b: S = build_alt(other_o, "desc_singles", case.universe).unwrap();
            let exp = case.state == *other_o;
            for (api, got) in S::equal_apis(&st, &b) {
                if got != exp {
                    let mut f = bool_failure(api, exp, got);
                    f.why = "equality/encoding mismatch".to_string();
                    return Err(f);
                }
            }
            Ok(())
        }
        Op::ContainsClock { client, clock } => {
            let ci = client_index(*client).unwrap();
            let exp = case.state.get(ci, *clock) != 0;
            for (api, got) in st.contains_apis(*client, *clock) {
                if got != exp {
                    return Err(bool_failure(api, exp, got));
                }
            }
            Ok(())
        }
        Op::FindStart { client, clock } => {
            let ci = client_index(*client).unwrap();
            // index of the first canonical entry that contains `clock` or starts after it
            let exp = case.state.runs(ci).iter().position(|r| r.1 > *clock);
            if let Some(got) = st.find_start(*client, *clock) {
                if got != exp {
                    return Err(Failure {
                        why: "clocks differ".to_string(),
                        expected: opt_json(exp.map(|i| i as i64)),
                        actual: opt_json(got.map(|i| i as i64)),
                        api: "IdRange::find_start".to_string(),
                    });
                }
            }
            Ok(())
        }
        Op::ClockStart { client } | Op::ClockEnd { client } => {
            let ci = client_index(*client).unwrap();
            let clocks = case.state.clocks(ci);
            let is_start = matches!(case.op, Op::ClockStart { .. });
            let (exp, got, api) = if is_start {
                (clocks.first().copied(), st.clock_start(*client), "IdRange::clock_start")
            } else {
                (clocks.last().map(|k| k + 1), st.clock_end(*client), "IdRange::clock_end")
            };
            if let Some(got) = got {
                if got != exp {
                    return Err(Failure {
                        why: "clocks differ".to_string(),
                        expected: opt_json(exp),
                        actual: opt_json(got),
                        api: api.to_string(),
                    });
                }
            }
            Ok(())
        }
        Op::Attributions { client, s, e } => {
            let ci = client_index(*client).unwrap();
            let got = match st.attributions(*client, *s, *e) {
                Some(g) => g,
                None => return Ok(()),
            };
            check_attributions(&case.state, ci, *s, *e, &got)
        }
        Op::NonMut { which } => run_nonmut(&case.state, other_o, which),
        Op::FromIdMap { method } => run_from_idmap(&case.state, method, case.universe),
        Op::FromStore(script) => run_from_store(script),
        Op::Filter { pred, method } => run_filter(&case.state, pred, method, case.universe),
    }
}

/// What the real code returns for `case` (first public entry point of the
/// operation); used by `replay` to show the value when everything agrees.
pub fn actual_json(case: &Case) -> J {
    if case.is_map {
        actual_generic::<Map>(case)
    } else {
        actual_generic::<IdSet>(case)
    }
}

fn actual_generic<S: Sut>(case: &Case) -> J {
    let m = S::IS_MAP;
    let st: S = build(&case.state);
    let empty = O::empty();
    let other_o = case.other.as_ref().unwrap_or(&empty);
    let first = |apis: Vec<(&'static str, S)>| match apis.first() {
        Some((_, r)) => r.read().to_json(m),
        None => J::Null,
    };
    let value = |b: Option<bool>| J::obj(vec![("value", b.map(J::Bool).unwrap_or(J::Null))]);
    match &case.op {
        Op::Build { method } => match build_alt::<S>(&case.state, method, case.universe) {
            Some(alt) => alt.read().to_json(m),
            None => J::Null,
        },
        Op::Insert { client, s, e, v } => {
            let mut x = st.clone();
            x.ins(*client, *s, *e, *v);
            x.read().to_json(m)
        }
        Op::Remove { client, s, e } => {
            let mut x = st.clone();
            x.rem(*client, *s, *e);
            x.read().to_json(m)
        }
        Op::Merge => first(S::merge_apis(&st, &build_other(other_o))),
        Op::Exclude => first(S::exclude_apis(&st, &build_other(other_o), other_o)),
        Op::Intersect => first(S::intersect_apis(&st, &build_other(other_o))),
        Op::SubsetOf { client } => value(S::subset_of(&st, &build_other(other_o), *client)),
        Op::Equal => {
            let b: S = build_alt(other_o, "desc_singles", case.universe).unwrap();
            value(S::equal_apis(&st, &b).first().map(|(_, v)| *v))
        }
        Op::ContainsClock { client, clock } => {
            value(st.contains_apis(*client, *clock).first().map(|(_, v)| *v))
        }
        Op::FindStart { client, clock } => match st.find_start(*client, *clock) {
            Some(v) => opt_json(v.map(|i| i as i64)),
            None => J::Null,
        },
        Op::ClockStart { client } => st.clock_start(*client).map(opt_json).unwrap_or(J::Null),
        Op::ClockEnd { client } => st.clock_end(*client).map(opt_json).unwrap_or(J::Null),
        Op::Attributions { client, s, e } => match st.attributions(*client, *s, *e) {
            Some(p) => J::obj(vec![("pieces", runs_json(&p, true))]),
            None => J::Null,
        },
        Op::NonMut { which } => {
            let a: IdSet = build(&case.state);
            let b: IdSet = build_other(other_o);
            read_id_set(&nonmut_apply(&a, &b, which).1).to_json(false)
        }
        Op::FromIdMap { method } => match build_alt::<Map>(&case.state, method, case.universe) {
            Some(map) => read_id_set(&IdSet::from(map)).to_json(false),
            None => J::Null,
        },
        Op::FromStore(script) => match script.outcome() {
            Ok(_) => {
                let docs = run_script(script, script.gc);
                let ds = docs[0].transact().snapshot().delete_set;
                read_id_set(&ds).to_json(false)
            }
            Err(_) => J::Null,
        },
        Op::Filter { pred, method } => match build_alt::<Map>(&case.state, method, case.universe) {
            Some(map) => read_id_map(&apply_filter(&map, pred), true).to_json(true),
            None => J::Null,
        },
    }
}

/// `IdMap::filter` with the predicate named `pred`, decided on the attribute
/// list the map hands to the closure.
fn apply_filter(map: &Map, pred: &str) -> Map {
    map.filter(|attrs: &[ContentAttribute<u8>]| match pred {
        "true" => true,
        "false" => false,
        "has_a" => attrs.iter().any(|a| a.name() == "a"),
        _ => attrs.len() == 1,
    })
}

fn run_filter(o: &O, pred: &str, method: &str, universe: u32) -> Result<(), Failure> {
    let map: Map = match build_alt(o, method, universe) {
        Some(m) => m,
        None => return Ok(()),
    };
    check_result(&map, o, 0, &format!("IdMap::insert (build:{})", method))?;
    // the surviving points keep their attribute sets
    let mut exp = *o;
    for c in exp.0.iter_mut() {
        for v in c.iter_mut() {
            if *v != 0 && !filter_pred(pred, *v) {
                *v = 0;
            }
        }
    }
    let api = format!("IdMap::filter({})", pred);
    let got = apply_filter(&map, pred);
    // points and attribute sets, canonical form, no client entry without
    // ranges, is_empty(), == the map built by inserting the surviving pieces,
    // encode_v1 / decode_v1
    check_result(&got, &exp, 1, &api)?;
    // and the other way round: inserting the surviving pieces one by one
    let pieces: Map = build_alt(&exp, "desc_singles", universe).unwrap();
    if got != pieces || pieces != got {
        let mut expected = expected_json(&exp, true, !exp.client_is_empty(1));
        expected.push_field("property", J::str("result == map built by inserting the surviving pieces (PartialEq)"));
        return Err(Failure {
            why: "equality/encoding mismatch".to_string(),
            expected,
            actual: read_id_map(&got, true).to_json(true),
            api,
        });
    }
    // filter borrows the map
    check_result(&map, o, 0, &format!("{} (map afterwards)", api))
}

/// `attributions([s,e))` must partition the block range exactly into maximal
/// pieces: covered pieces with their attribute set, uncovered gaps with none.
fn check_attributions(o: &O, ci: usize, s: u32, e: u32, got: &[Run]) -> Result<(), Failure> {
    let mut exp: Vec<Run> = Vec::new();
    let mut k = s;
    while k < e {
        let v = o.get(ci, k);
        let start = k;
        while k < e && o.get(ci, k) == v {
            k += 1;
        }
        exp.push((start, k, v));
    }
    let pieces = |runs: &[Run]| J::obj(vec![("pieces", runs_json(runs, true))]);
    let fail = |why: &str| Failure {
        why: why.to_string(),
        expected: pieces(&exp),
        actual: pieces(got),
        api: "IdMap::attributions (IdRanges::find_start)".to_string(),
    };
    if s == e {
        // an empty block range: nothing, or one empty unattributed piece
        let ok = got.is_empty() || (got.len() == 1 && got[0] == (s, s, 0));
        return if ok { Ok(()) } else { Err(fail("clocks differ")) };
    }
    // exact partition of [s,e)
    let mut at = s;
    for p in got {
        if p.0 != at || p.1 <= p.0 {
            return Err(fail("clocks differ"));
        }
        at = p.1;
    }
    if at != e {
        return Err(fail("clocks differ"));
    }
    // per-clock coverage and attributes
    for p in got {
        for k in p.0..p.1 {
            let want = o.get(ci, k);
            if (want == 0) != (p.2 == 0) {
                return Err(fail("clocks differ"));
            }
            if want != p.2 {
                return Err(fail("attributes differ"));
            }
        }
    }
    if got != exp.as_slice() {
        return Err(fail("not canonical: attributions pieces are not maximal"));
    }
    Ok(())
}

// ---------------------------------------------------------------------------
// lifted operations: non-mutating set algebra, IdMap -> IdSet, delete set of a store
// ---------------------------------------------------------------------------

fn property_failure(api: &str, exp: &O, property: &str, actual: J) -> Failure {
    let mut expected = expected_json(exp, false, !exp.client_is_empty(1));
    expected.push_field("property", J::str(property));
    Failure {
        why: "equality/encoding mismatch".to_string(),
        expected,
        actual,
        api: api.to_string(),
    }
}

/// `(api, non-mutating result, api of the mutating variant, its result on a clone)`.
fn nonmut_apply(a: &IdSet, b: &IdSet, which: &str) -> (&'static str, IdSet, &'static str, IdSet) {
    let mut m = a.clone();
    match which {
        "merge" => {
            m.merge_with(b.clone());
            ("IdSet::merge", a.merge(b), "IdSet::merge_with", m)
        }
        "intersect" => {
            m.intersect_with(b);
            ("IdSet::intersect", a.intersect(b), "IdSet::intersect_with", m)
        }
        _ => {
            m.diff_with(b);
            ("IdSet::diff", a.diff(b), "IdSet::diff_with", m)
        }
    }
}

fn run_nonmut(ao: &O, bo: &O, which: &str) -> Result<(), Failure> {
    let a: IdSet = build(ao);
    let b: IdSet = build_other(bo);
    let exp = match which {
        "merge" => ao.merge(bo),
        "intersect" => ao.intersect(bo),
        _ => ao.exclude(bo),
    };
    let (api, r, mut_api, m) = nonmut_apply(&a, &b, which);
    // points, canonical form, no client entry without ranges, is_empty() iff no
    // points, == canonical build of the expected value, encode_v1 / Hash
    check_result(&r, &exp, 1, api)?;
    if r != m || m != r || r.encode_v1() != m.encode_v1() {
        return Err(property_failure(
            api,
            &exp,
            &format!("a.{}(&b) == {{ let mut c = a.clone(); c.{}(b); c }}", which, &mut_api[7..]),
            J::obj(vec![
                ("non_mutating", read_id_set(&r).to_json(false)),
                ("mutating", read_id_set(&m).to_json(false)),
            ]),
        ));
    }
    check_result(&m, &exp, 0, mut_api)?;
    // the operands are unchanged
    check_result(&a, ao, 0, &format!("{} (left operand afterwards)", api))?;
    check_result(&b, bo, 0, &format!("{} (right operand afterwards)", api))?;
    if exp.is_empty() {
        let empty = IdSet::new();
        if r != empty || empty != r || !r.is_empty() || r.len() != 0 {
            return Err(property_failure(
                api,
                &exp,
                "a result without points == IdSet::new(), is_empty() and len() == 0",
                read_id_set(&r).to_json(false),
            ));
        }
    }
    Ok(())
}

fn run_from_idmap(o: &O, method: &str, universe: u32) -> Result<(), Failure> {
    let map: Map = match build_alt(o, method, universe) {
        Some(m) => m,
        None => return Ok(()),
    };
    // the map itself must be the intended one (adjacent ranges with different
    // attribute sets stay separate there)
    check_result(&map, o, 0, &format!("IdMap::insert (build:{})", method))?;
    let exp = o.as_set();
    let from: IdSet = IdSet::from(map.clone());
    let as_set: IdSet = map.as_id_set();
    check_result(&from, &exp, 1, "IdSet::from(IdMap)")?;
    check_result(&as_set, &exp, 1, "IdMap::as_id_set")?;
    // the set built directly by inserting the clocks one by one
    let direct: IdSet = build_alt(&exp, "asc_singles", universe).unwrap();
    let same = |x: &IdSet, y: &IdSet| x == y && y == x && x.encode_v1() == y.encode_v1() && hash_of(x) == hash_of(y);
    if !same(&from, &as_set) {
        return Err(property_failure(
            "IdSet::from(IdMap)",
            &exp,
            "IdSet::from(map) == map.as_id_set() (PartialEq, encode_v1, Hash)",
            J::obj(vec![
                ("from", read_id_set(&from).to_json(false)),
                ("as_id_set", read_id_set(&as_set).to_json(false)),
            ]),
        ));
    }
    for (api, x) in [("IdSet::from(IdMap)", &from), ("IdMap::as_id_set", &as_set)] {
        if !same(x, &direct) {
            return Err(property_failure(
                api,
                &exp,
                "result == set built by inserting every clock (PartialEq, encode_v1, Hash)",
                read_id_set(x).to_json(false),
            ));
        }
    }
    // the conversion does not disturb the map (as_id_set borrows it)
    check_result(&map, o, 0, "IdMap::as_id_set (map afterwards)")
}

fn nested_value(kind: &str, children: u32) -> In {
    let keys = (0..children).map(|k| format!("k{}", k));
    match kind {
        "array" => In::Array(ArrayPrelim::from((0..children).map(|k| k as i64).collect::<Vec<i64>>())),
        "map" => In::Map(keys.map(|k| (k, 1i64)).collect::<MapPrelim>()),
        "array_map" => In::Array(
            (0..children)
                .map(|_| In::Map(MapPrelim::from([("k", 1i64)])))
                .collect::<ArrayPrelim>(),
        ),
        _ => In::Map(
            keys.map(|k| (k, In::Array(ArrayPrelim::from(vec![1i64]))))
                .collect::<MapPrelim>(),
        ),
    }
}

/// Full two-way synchronisation through the public update API.
fn sync_docs(docs: &[Doc]) {
    if docs.len() < 2 {
        return;
    }
    for (from, to) in [(0usize, 1usize), (1, 0)] {
        let sv = docs[to].transact().state_vector();
        let bytes = docs[from].transact().encode_state_as_update_v1(&sv);
        let update = Update::decode_v1(&bytes).expect("decode_v1 of an update just encoded");
        docs[to]
            .transact_mut()
            .apply_update(update)
            .expect("apply_update of a peer's state");
    }
}

/// Executes `script` against fresh documents (client ids 1 and 2) through the
/// public API only; the documents are synchronised at the end.
pub fn run_script(script: &StoreScript, gc: bool) -> Vec<Doc> {
    let docs: Vec<Doc> = (0..script.clients())
        .map(|ci| {
            let mut options = Options::with_client_id(cid(CLIENTS[ci]));
            options.skip_gc = !gc;
            Doc::with_options(options)
        })
        .collect();
    let is_text = script.doc == "text";
    let mut i = 0;
    let mut active: Option<usize> = None;
    while i < script.steps.len() {
        let ci = client_index(script.steps[i].client()).unwrap();
        if active.is_some() && active != Some(ci) {
            sync_docs(&docs);
        }
        active = Some(ci);
        // steps i..j share one transaction in mode `whole`
        let mut j = i + 1;
        if script.txn == "whole" {
            while j < script.steps.len() && script.steps[j].client() == script.steps[i].client() {
                j += 1;
            }
        }
        let doc = &docs[ci];
        let text = doc.get_or_insert_text("root");
        let array = doc.get_or_insert_array("root");
        let mut txn = if script.txn == "per_call" { None } else { Some(doc.transact_mut()) };
        for step in &script.steps[i..j] {
            // one public call, inside the open transaction or inside its own
            let mut call = |f: &mut dyn FnMut(&mut yrs::TransactionMut)| match txn.as_mut() {
                Some(t) => f(t),
                None => f(&mut doc.transact_mut()),
            };
            match step {
                Step::Push { n, .. } => {
                    for k in 0..*n {
                        call(&mut |t| {
                            if is_text {
                                let at = text.len(t);
                                text.insert(t, at, "x");
                            } else {
                                array.push_back(t, k as i64);
                            }
                        });
                    }
                }
                Step::PushNested { kind, children, .. } => call(&mut |t| {
                    array.push_back(t, nested_value(kind, *children));
                }),
                Step::Remove { index, len, .. } => call(&mut |t| {
                    if is_text {
                        text.remove_range(t, *index, *len);
                    } else {
                        array.remove_range(t, *index, *len);
                    }
                }),
            }
        }
        drop(txn);
        i = j;
    }
    sync_docs(&docs);
    docs
}

fn run_from_store(script: &StoreScript) -> Result<(), Failure> {
    let out = match script.outcome() {
        Ok(o) => o,
        Err(_) => return Ok(()), // rejected by `validate`
    };
    let exp = out.deleted;
    let docs = run_script(script, script.gc);
    let mut sets: Vec<IdSet> = Vec::new();
    for (di, doc) in docs.iter().enumerate() {
        let on = if docs.len() > 1 { format!(" (doc of client {})", CLIENTS[di]) } else { String::new() };
        let api = format!("ReadTxn::snapshot().delete_set{}", on);
        let snapshot = doc.transact().snapshot();
        // the clock tracking of the oracle itself: state vector as predicted
        for ci in 0..2 {
            let got = snapshot.state_map.get(&cid(CLIENTS[ci]));
            if got != out.next[ci] {
                return Err(Failure {
                    why: "clocks differ".to_string(),
                    expected: J::obj(vec![
                        ("property", J::str("state vector clock of the client as tracked by the oracle")),
                        ("client", J::Num(CLIENTS[ci] as i64)),
                        ("value", J::num(out.next[ci])),
                    ]),
                    actual: J::obj(vec![("value", J::num(got))]),
                    api: format!("ReadTxn::snapshot().state_map{}", on),
                });
            }
        }
        let ds = snapshot.delete_set;
        // points == deleted ids, canonical, no client entry without ranges,
        // is_empty() iff nothing deleted, == canonical build, encode_v1 / Hash
        check_result(&ds, &exp, 1, &api)?;
        // every id reported deleted lies below the state vector
        for r in read_id_set(&ds).ranges {
            if r.e > snapshot.state_map.get(&cid(r.client)) {
                return Err(property_failure(
                    &api,
                    &exp,
                    "every deleted id is below the state vector clock of its client",
                    read_id_set(&ds).to_json(false),
                ));
            }
        }
        // the same set as it travels inside a full-state update
        let bytes = doc.transact().encode_state_as_update_v1(&StateVector::default());
        match Update::decode_v1(&bytes) {
            Ok(u) => check_result(
                u.delete_set(),
                &exp,
                0,
                &format!("Update::decode_v1(encode_state_as_update_v1).delete_set(){}", on),
            )?,
            Err(e) => {
                return Err(property_failure(
                    &api,
                    &exp,
                    "decode_v1(encode_state_as_update_v1(..)) succeeds",
                    J::obj(vec![("error", J::str(&e.to_string()))]),
                ))
            }
        }
        sets.push(ds);
    }
    if sets.len() == 2 && (sets[0] != sets[1] || sets[0].encode_v1() != sets[1].encode_v1()) {
        return Err(property_failure(
            "ReadTxn::snapshot().delete_set",
            &exp,
            "synchronised documents report the same delete set",
            J::obj(vec![
                ("doc1", read_id_set(&sets[0]).to_json(false)),
                ("doc2", read_id_set(&sets[1]).to_json(false)),
            ]),
        ));
    }
    // garbage collection must not change which ids are reported deleted
    let other = run_script(script, !script.gc);
    let ds_other = other[0].transact().snapshot().delete_set;
    if ds_other != sets[0] || sets[0] != ds_other || ds_other.encode_v1() != sets[0].encode_v1() {
        return Err(property_failure(
            "ReadTxn::snapshot().delete_set",
            &exp,
            "the delete set is identical with garbage collection on and off",
            J::obj(vec![
                (if script.gc { "gc_on" } else { "gc_off" }, read_id_set(&sets[0]).to_json(false)),
                (if script.gc { "gc_off" } else { "gc_on" }, read_id_set(&ds_other).to_json(false)),
            ]),
        ));
    }
    Ok(())
}
