//! Targets `seqread`, `seq_array`, `seq_text`, `seq_xml`: every public way of
//! reading a sequence type tells the same story (property C17, sequence half;
//! mapread.rs covers the map half).
//!
//! One or two replicas (client ids 1 and 2, garbage collection on or off,
//! `OffsetKind::Bytes` or `OffsetKind::Utf16`, optionally an `UndoManager` on
//! replica 1) hold ONE observed type: the root Array `a`, an Array nested in the
//! root array `r` (index 0) or in the root map `h` (key `n`), the root Text `t`,
//! the root XmlFragment `x`, an XmlElement `<p>` or an XmlText that is the first
//! child of `x`. Histories are enumerated exhaustively, shortest first:
//! transactions of 1..3 operations (insert / insert_range / push of values of
//! every kind, remove_range, writes into nested types, text insert with and
//! without attributes, embeds, format, remove_range at every index, XML child
//! insert / remove one level deep, and FOREIGN content: a hand-encoded lib0 v1
//! update of a third client whose block is ContentJSON / ContentAny with three
//! elements, ContentBinary, ContentEmbed, ContentFormat, a multi-byte
//! ContentString or ContentDeleted, placed by origins at any index, also inside
//! a block), deliveries between the replicas, undo / redo.
//!
//! After EVERY operation (inside the open transaction) and after EVERY commit /
//! delivery / undo the observed type is read through every public path and the
//! paths must agree PAIRWISE. The oracle holds no model of sequence semantics.
//! (`Array::move_to` does not exist in this tree.)
//!
//! A comparison can be switched off per case: `"off": ["clause", ..]` in `op`.
//!
//! Uses the search harness of evt.rs (`Hunt`, `guarded`, `finish`, `finish_replay`).

use crate::evt::{at, finish, finish_replay, guarded, Found, Hunt, Stop, Tally};
use crate::json::J;
use crate::model::Failure;
use std::collections::{BTreeMap, BTreeSet};
use std::sync::OnceLock;
use std::time::Instant;
use yrs::branch::Branch;
use yrs::encoding::serde::from_any;
use yrs::types::text::{Diff, YChange};
use yrs::types::xml::XmlIn;
use yrs::types::{AsPrelim, Attrs, Delta, ToJson};
use yrs::undo::UndoManager;
use yrs::updates::decoder::Decode;
use yrs::{
    Any, Array, ArrayPrelim, ArrayRef, Assoc, BranchID, ClientID, Doc, GetString, In, IndexedSequence, JsonPath, JsonPathEval, Map,
    MapPrelim, MapRef, OffsetKind, Options, Out, ReadTxn, StateVector, Text, TextPrelim, TextRef, Transact, TransactionMut, Update,
    Xml, XmlElementPrelim, XmlElementRef, XmlFragment, XmlFragmentRef, XmlOut, XmlTextPrelim, XmlTextRef,
};

pub const TARGETS: &str = "seqread | seq_array | seq_text | seq_xml";

pub fn is_target(target: &str) -> bool {
    matches!(target, "seqread" | "seq_array" | "seq_text" | "seq_xml")
}

/// Is this witness line one of ours?
pub fn owns(j: &J) -> bool {
    j.get("target").and_then(|t| t.as_str()).map(is_target).unwrap_or(false)
}

const ROOT_ARRAY: &str = "a";
const HOST_ARRAY: &str = "r";
const HOST_MAP: &str = "h";
const NESTED_KEY: &str = "n";
const ROOT_TEXT: &str = "t";
const XML_ROOT: &str = "x";
/// Client id of the foreign writer, per applying replica (never the same id with two contents).
const FOREIGN_CLIENTS: [u64; 2] = [9, 8];

/// Comparisons that are switched off in the enumeration (a case may name others in `op.off`).
const DEFAULT_OFF: [&str; 0] = [];

macro_rules! named_enum {
    ($name:ident { $($var:ident => $text:expr),* $(,)? }) => {
        #[derive(Clone, Copy, Debug, PartialEq, Eq, PartialOrd, Ord)]
        pub enum $name { $($var),* }
        impl $name {
            const ALL: &'static [$name] = &[$($name::$var),*];
            fn name(self) -> &'static str { match self { $($name::$var => $text),* } }
            fn parse(s: &str) -> Option<$name> { Self::ALL.iter().copied().find(|v| v.name() == s) }
        }
    };
}

// ---------------------------------------------------------------------------
// cases
// ---------------------------------------------------------------------------

named_enum!(HostKind {
    RootArray => "root_array",
    ArrayInArray => "array_in_array",
    ArrayInMap => "array_in_map",
    RootText => "root_text",
    Fragment => "xml_fragment",
    Element => "xml_element",
    XText => "xml_text",
});

#[derive(Clone, Copy, Debug, PartialEq, Eq)]
enum Fam {
    Array,
    Text,
    Xml,
}

impl HostKind {
    fn fam(self) -> Fam {
        match self {
            HostKind::RootArray | HostKind::ArrayInArray | HostKind::ArrayInMap => Fam::Array,
            HostKind::RootText | HostKind::XText => Fam::Text,
            HostKind::Fragment | HostKind::Element => Fam::Xml,
        }
    }
    fn describe(self) -> &'static str {
        match self {
            HostKind::RootArray => "root Array \"a\"",
            HostKind::ArrayInArray => "Array stored at index 0 of the root Array \"r\" (created by replica 1)",
            HostKind::ArrayInMap => "Array stored under key \"n\" of the root Map \"h\" (created by replica 1)",
            HostKind::RootText => "root Text \"t\"",
            HostKind::Fragment => "root XmlFragment \"x\"",
            HostKind::Element => "XmlElement <p>, first child of the root fragment \"x\" (created by replica 1)",
            HostKind::XText => "XmlText that is the first child of the root fragment \"x\" (created by replica 1)",
        }
    }
}

named_enum!(Val {
    Num => "number",
    Str => "string",
    ArrayPrelim => "array_prelim",
    MapPrelim => "map_prelim",
    Null => "null",
    Bool => "bool",
    BigInt => "bigint",
    Buffer => "buffer",
    AnyArray => "any_array",
    AnyMap => "any_map",
    Undefined => "undefined",
    TextPrelim => "text_prelim",
    XmlElem => "xml_element_prelim",
    XmlText => "xml_text_prelim",
    SubDoc => "sub_document",
});

impl Val {
    fn class(self) -> u8 {
        match self {
            Val::Num => 0,
            Val::Str | Val::ArrayPrelim | Val::MapPrelim => 1,
            _ => 2,
        }
    }
}

// strings a text operation inserts: `n` picks the letters
named_enum!(Str {
    A2 => "ascii_2",
    Mx => "2byte_and_surrogate_pair",
    B3 => "3byte",
    P4 => "surrogate_pair",
    A1 => "ascii_1",
    B2 => "2byte",
    Long => "ascii_3byte_pair_ascii",
});

impl Str {
    fn class(self) -> u8 {
        match self {
            Str::A2 | Str::Mx => 0,
            Str::B3 | Str::P4 => 1,
            _ => 2,
        }
    }
    fn text(self, n: i64) -> String {
        let letter = |k: i64| (b'a' + (k.rem_euclid(26)) as u8) as char;
        match self {
            Str::A2 => format!("{}{}", letter(2 * n), letter(2 * n + 1)),
            Str::Mx => "\u{e9}\u{1F600}".to_string(),
            Str::B3 => "\u{20ac}".to_string(),
            Str::P4 => "\u{1F601}".to_string(),
            Str::A1 => letter(n).to_string(),
            Str::B2 => "\u{fc}".to_string(),
            Str::Long => format!("{}\u{2605}\u{1F602}{}", letter(n), letter(n + 1)),
        }
    }
}

named_enum!(Emb {
    Any => "any_map",
    Map => "map_prelim",
    Text => "text_prelim",
});

named_enum!(Node {
    Elem => "element",
    Text => "text",
    Tree => "element_with_text_and_element",
});

// content kinds of the hand-encoded block
named_enum!(Fc {
    Json3 => "content_json_3_elements",
    Any3 => "content_any_3_elements",
    Binary => "content_binary",
    Embed => "content_embed",
    Str => "content_string_multibyte",
    FormatOn => "content_format_on",
    FormatOff => "content_format_off",
    Deleted2 => "content_deleted_2",
});

impl Fc {
    fn fits(self, fam: Fam) -> bool {
        match fam {
            // a ContentString in an array is a hand-crafted state outside the property (block length in
            // UTF-16 units, iteration by characters)
            Fam::Array => matches!(self, Fc::Json3 | Fc::Any3 | Fc::Binary | Fc::Embed | Fc::Deleted2),
            // ContentAny / ContentJSON / ContentBinary in a text are counted by `len` and shown by nothing
            Fam::Text => matches!(self, Fc::Str | Fc::Embed | Fc::FormatOn | Fc::FormatOff | Fc::Deleted2),
            // `children` stops at the first value that is no XML node
            Fam::Xml => matches!(self, Fc::Deleted2),
        }
    }
}

#[derive(Clone, Debug, PartialEq)]
pub enum SOp {
    AIns { index: u32, value: Val },
    ARange { index: u32, n: u32 },
    APushBack,
    APushFront,
    ARemove { index: u32, len: u32 },
    /// The element at `index` is a shared type: write into it.
    ANested { index: u32 },
    TIns { index: u32, s: Str, bold: bool },
    TPush { s: Str },
    TEmbed { index: u32, kind: Emb },
    TFormat { index: u32, len: u32, on: bool },
    TRemove { index: u32, len: u32 },
    XIns { index: u32, node: Node },
    XRemove { index: u32, len: u32 },
    /// The child at `index` is an element: `push_front` a node into it.
    XChildIns { index: u32, node: Node },
    /// The child at `index` is an element: remove its first child.
    XChildRemove { index: u32 },
    /// The child at `index` is a text: `push("z")`.
    XTextPush { index: u32 },
    /// A hand-encoded block of a foreign client between the live units `index - 1` and `index`
    /// (origin / right origin are their ids; without neighbours the parent is written out).
    Foreign { index: u32, content: Fc },
}

impl SOp {
    fn fam(&self) -> Option<Fam> {
        match self {
            SOp::AIns { .. } | SOp::ARange { .. } | SOp::APushBack | SOp::APushFront | SOp::ARemove { .. } | SOp::ANested { .. } => {
                Some(Fam::Array)
            }
            SOp::TIns { .. } | SOp::TPush { .. } | SOp::TEmbed { .. } | SOp::TFormat { .. } | SOp::TRemove { .. } => Some(Fam::Text),
            SOp::XIns { .. } | SOp::XRemove { .. } | SOp::XChildIns { .. } | SOp::XChildRemove { .. } | SOp::XTextPush { .. } => {
                Some(Fam::Xml)
            }
            SOp::Foreign { .. } => None,
        }
    }

    /// 0 = core, 1 = medium, 2 = wide.
    fn class(&self) -> u8 {
        match self {
            SOp::AIns { value, .. } => value.class(),
            SOp::ARange { n, .. } => (*n != 3) as u8,
            SOp::APushBack | SOp::APushFront => 1,
            SOp::ARemove { len, .. } => (*len > 2) as u8,
            SOp::ANested { .. } => 2,
            SOp::TIns { s, bold, .. } => s.class().max(*bold as u8),
            SOp::TPush { .. } => 2,
            SOp::TEmbed { kind, .. } => 1 + (*kind != Emb::Any) as u8,
            SOp::TFormat { on, .. } => 1 + (!*on) as u8,
            SOp::TRemove { .. } => 0,
            SOp::XIns { node, .. } => (*node == Node::Tree) as u8,
            SOp::XRemove { len, .. } => (*len > 1) as u8,
            SOp::XChildIns { .. } | SOp::XChildRemove { .. } => 1,
            SOp::XTextPush { .. } => 2,
            SOp::Foreign { .. } => 2,
        }
    }

    fn json(&self) -> J {
        let n = |v: &u32| J::Num(*v as i64);
        match self {
            SOp::AIns { index, value } => J::obj(vec![("op", J::str("insert")), ("index", n(index)), ("value", J::str(value.name()))]),
            SOp::ARange { index, n: k } => J::obj(vec![("op", J::str("insert_range")), ("index", n(index)), ("count", n(k))]),
            SOp::APushBack => J::obj(vec![("op", J::str("push_back"))]),
            SOp::APushFront => J::obj(vec![("op", J::str("push_front"))]),
            SOp::ARemove { index, len } => J::obj(vec![("op", J::str("remove_range")), ("index", n(index)), ("len", n(len))]),
            SOp::ANested { index } => J::obj(vec![("op", J::str("nested_write")), ("index", n(index))]),
            SOp::TIns { index, s, bold } => J::obj(vec![
                ("op", J::str("text_insert")),
                ("index", n(index)),
                ("string", J::str(s.name())),
                ("bold", J::Bool(*bold)),
            ]),
            SOp::TPush { s } => J::obj(vec![("op", J::str("text_push")), ("string", J::str(s.name()))]),
            SOp::TEmbed { index, kind } => J::obj(vec![("op", J::str("insert_embed")), ("index", n(index)), ("embed", J::str(kind.name()))]),
            SOp::TFormat { index, len, on } => {
                J::obj(vec![("op", J::str("format")), ("index", n(index)), ("len", n(len)), ("attributes", J::str(if *on { "italic_on" } else { "bold_off" }))])
            }
            SOp::TRemove { index, len } => J::obj(vec![("op", J::str("text_remove_range")), ("index", n(index)), ("len", n(len))]),
            SOp::XIns { index, node } => J::obj(vec![("op", J::str("xml_insert")), ("index", n(index)), ("node", J::str(node.name()))]),
            SOp::XRemove { index, len } => J::obj(vec![("op", J::str("xml_remove_range")), ("index", n(index)), ("len", n(len))]),
            SOp::XChildIns { index, node } => {
                J::obj(vec![("op", J::str("xml_child_insert")), ("index", n(index)), ("node", J::str(node.name()))])
            }
            SOp::XChildRemove { index } => J::obj(vec![("op", J::str("xml_child_remove")), ("index", n(index))]),
            SOp::XTextPush { index } => J::obj(vec![("op", J::str("xml_text_push")), ("index", n(index))]),
            SOp::Foreign { index, content } => {
                J::obj(vec![("op", J::str("foreign")), ("index", n(index)), ("content", J::str(content.name()))])
            }
        }
    }

    fn from_json(j: &J, what: &str) -> Result<SOp, String> {
        let num = |name: &str| -> Result<u32, String> {
            match j.get(name).and_then(|v| v.as_i64()) {
                Some(v) if (0..=10_000).contains(&v) => Ok(v as u32),
                _ => Err(format!("{}.{}: expected a small non-negative number", what, name)),
            }
        };
        let text = |name: &str| -> Result<&str, String> { j.get(name).and_then(|v| v.as_str()).ok_or_else(|| format!("{}.{} missing", what, name)) };
        let flag = |name: &str| -> bool { matches!(j.get(name), Some(J::Bool(true))) };
        let bad = |name: &str, v: &str| format!("{}.{}: unknown kind {:?}", what, name, v);
        match j.get("op").and_then(|o| o.as_str()) {
            Some("insert") => {
                let v = text("value")?;
                Ok(SOp::AIns { index: num("index")?, value: Val::parse(v).ok_or_else(|| bad("value", v))? })
            }
            Some("insert_range") => Ok(SOp::ARange { index: num("index")?, n: num("count")?.max(1) }),
            Some("push_back") => Ok(SOp::APushBack),
            Some("push_front") => Ok(SOp::APushFront),
            Some("remove_range") => Ok(SOp::ARemove { index: num("index")?, len: num("len")? }),
            Some("nested_write") => Ok(SOp::ANested { index: num("index")? }),
            Some("text_insert") => {
                let s = text("string")?;
                Ok(SOp::TIns { index: num("index")?, s: Str::parse(s).ok_or_else(|| bad("string", s))?, bold: flag("bold") })
            }
            Some("text_push") => {
                let s = text("string")?;
                Ok(SOp::TPush { s: Str::parse(s).ok_or_else(|| bad("string", s))? })
            }
            Some("insert_embed") => {
                let s = text("embed")?;
                Ok(SOp::TEmbed { index: num("index")?, kind: Emb::parse(s).ok_or_else(|| bad("embed", s))? })
            }
            Some("format") => Ok(SOp::TFormat { index: num("index")?, len: num("len")?, on: text("attributes")? == "italic_on" }),
            Some("text_remove_range") => Ok(SOp::TRemove { index: num("index")?, len: num("len")? }),
            Some("xml_insert") => {
                let s = text("node")?;
                Ok(SOp::XIns { index: num("index")?, node: Node::parse(s).ok_or_else(|| bad("node", s))? })
            }
            Some("xml_remove_range") => Ok(SOp::XRemove { index: num("index")?, len: num("len")? }),
            Some("xml_child_insert") => {
                let s = text("node")?;
                Ok(SOp::XChildIns { index: num("index")?, node: Node::parse(s).ok_or_else(|| bad("node", s))? })
            }
            Some("xml_child_remove") => Ok(SOp::XChildRemove { index: num("index")? }),
            Some("xml_text_push") => Ok(SOp::XTextPush { index: num("index")? }),
            Some("foreign") => {
                let s = text("content")?;
                Ok(SOp::Foreign { index: num("index")?, content: Fc::parse(s).ok_or_else(|| bad("content", s))? })
            }
            _ => Err(format!("{}.op: unknown operation", what)),
        }
    }
}

#[derive(Clone, Debug, PartialEq)]
pub enum SStep {
    Txn { replica: usize, ops: Vec<SOp> },
    Deliver { to: usize, from: usize },
    Undo,
    Redo,
}

impl SStep {
    fn json(&self) -> J {
        match self {
            SStep::Txn { replica, ops } => J::obj(vec![
                ("step", J::str("transaction")),
                ("replica", J::Num(*replica as i64 + 1)),
                ("ops", J::Arr(ops.iter().map(|o| o.json()).collect())),
            ]),
            SStep::Deliver { to, from } => J::obj(vec![
                ("step", J::str("deliver")),
                ("to_replica", J::Num(*to as i64 + 1)),
                ("from_replica", J::Num(*from as i64 + 1)),
            ]),
            SStep::Undo => J::obj(vec![("step", J::str("undo"))]),
            SStep::Redo => J::obj(vec![("step", J::str("redo"))]),
        }
    }
    fn atoms(&self) -> usize {
        match self {
            SStep::Txn { ops, .. } => ops.len(),
            _ => 1,
        }
    }
}

#[derive(Clone, Debug)]
pub struct SCase {
    pub target: String,
    pub variant: String,
    pub host: HostKind,
    pub replicas: usize,
    pub gc: bool,
    pub undo: bool,
    pub utf16: bool,
    /// Comparisons switched off.
    pub off: BTreeSet<String>,
    pub steps: Vec<SStep>,
}

fn replica_index(j: Option<&J>, replicas: usize, what: &str) -> Result<usize, String> {
    match j.and_then(|v| v.as_i64()) {
        Some(n) if n >= 1 && (n as usize) <= replicas => Ok(n as usize - 1),
        _ => Err(format!("{}: expected a replica in 1..={}", what, replicas)),
    }
}

impl SCase {
    fn fields(&self, steps: &[SStep]) -> Vec<(&'static str, J)> {
        vec![
            ("target", J::str(&self.target)),
            ("variant", J::str(&self.variant)),
            (
                "op",
                J::obj(vec![
                    ("kind", J::str("seqread")),
                    ("host", J::str(self.host.name())),
                    ("observed", J::str(self.host.describe())),
                    ("replicas", J::Num(self.replicas as i64)),
                    ("gc", J::Bool(self.gc)),
                    ("undo_manager", J::Bool(self.undo)),
                    ("offset_kind", J::str(if self.utf16 { "utf16" } else { "bytes" })),
                    ("off", J::Arr(self.off.iter().map(|s| J::str(s)).collect())),
                    ("steps", J::Arr(steps.iter().map(|s| s.json()).collect())),
                ]),
            ),
        ]
    }

    pub fn from_json(j: &J) -> Result<SCase, String> {
        let target = j.get("target").and_then(|t| t.as_str()).unwrap_or("seqread").to_string();
        let variant = j.get("variant").and_then(|t| t.as_str()).unwrap_or("replay").to_string();
        let op = j.get("op").ok_or("op missing")?;
        let host = match op.get_non_null("host").map(|h| h.as_str()) {
            None => HostKind::RootArray,
            Some(Some(s)) => HostKind::parse(s).ok_or_else(|| format!("op.host: unknown host {:?}", s))?,
            _ => return Err("op.host: expected a string".into()),
        };
        let replicas = match op.get_non_null("replicas").map(|r| r.as_i64()) {
            None => 1,
            Some(Some(n)) if n == 1 || n == 2 => n as usize,
            _ => return Err("op.replicas: expected 1 or 2".into()),
        };
        let flag = |name: &str, default: bool| -> Result<bool, String> {
            match op.get_non_null(name) {
                None => Ok(default),
                Some(J::Bool(b)) => Ok(*b),
                _ => Err(format!("op.{}: expected true | false", name)),
            }
        };
        let gc = flag("gc", true)?;
        let undo = flag("undo_manager", false)?;
        let utf16 = match op.get_non_null("offset_kind").map(|h| h.as_str()) {
            None | Some(Some("bytes")) => false,
            Some(Some("utf16")) => true,
            _ => return Err("op.offset_kind: expected bytes | utf16".into()),
        };
        let mut off = BTreeSet::new();
        if let Some(list) = op.get_non_null("off") {
            for s in list.as_arr().ok_or("op.off: expected an array of strings")? {
                off.insert(s.as_str().ok_or("op.off: expected an array of strings")?.to_string());
            }
        }
        let arr = op.get("steps").and_then(|s| s.as_arr()).ok_or("op.steps: expected an array")?;
        let mut steps = Vec::new();
        for (i, st) in arr.iter().enumerate() {
            let what = format!("op.steps[{}]", i);
            match st.get("step").and_then(|s| s.as_str()) {
                Some("transaction") => {
                    let replica = replica_index(st.get("replica"), replicas, &format!("{}.replica", what))?;
                    let ops_j = st.get("ops").and_then(|o| o.as_arr()).ok_or_else(|| format!("{}.ops missing", what))?;
                    let mut ops = Vec::new();
                    for (k, o) in ops_j.iter().enumerate() {
                        let w = format!("{}.ops[{}]", what, k);
                        let op = SOp::from_json(o, &w)?;
                        match (&op, op.fam()) {
                            (SOp::Foreign { content, .. }, _) if !content.fits(host.fam()) => {
                                return Err(format!("{}: this content kind is not injected into this kind of type", w))
                            }
                            (_, Some(f)) if f != host.fam() => return Err(format!("{}: not an operation of the observed type", w)),
                            _ => {}
                        }
                        ops.push(op);
                    }
                    if ops.is_empty() {
                        return Err(format!("{}.ops: empty", what));
                    }
                    steps.push(SStep::Txn { replica, ops });
                }
                Some("deliver") => {
                    let to = replica_index(st.get("to_replica"), replicas, &format!("{}.to_replica", what))?;
                    let from = replica_index(st.get("from_replica"), replicas, &format!("{}.from_replica", what))?;
                    if to == from {
                        return Err(format!("{}: to_replica and from_replica must differ", what));
                    }
                    steps.push(SStep::Deliver { to, from });
                }
                Some(s @ ("undo" | "redo")) => {
                    if !undo {
                        return Err(format!("{}: undo / redo need \"undo_manager\":true", what));
                    }
                    steps.push(if s == "undo" { SStep::Undo } else { SStep::Redo });
                }
                _ => return Err(format!("{}.step: expected transaction | deliver | undo | redo", what)),
            }
        }
        Ok(SCase { target, variant, host, replicas, gc, undo, utf16, off, steps })
    }

    fn kind(&self) -> OffsetKind {
        if self.utf16 {
            OffsetKind::Utf16
        } else {
            OffsetKind::Bytes
        }
    }
}

// ---------------------------------------------------------------------------
// rendering
// ---------------------------------------------------------------------------

fn any_j(a: &Any) -> J {
    match a {
        Any::Null => J::Null,
        Any::Undefined => J::obj(vec![("undefined", J::Bool(true))]),
        Any::Bool(b) => J::Bool(*b),
        Any::Number(f) => {
            if f.fract() == 0.0 && f.abs() < 1e15 {
                J::Num(*f as i64)
            } else {
                J::obj(vec![("number", J::str(&format!("{:?}", f)))])
            }
        }
        Any::BigInt(n) => J::obj(vec![("bigint", J::Num(*n))]),
        Any::String(s) => J::str(s),
        Any::Buffer(b) => J::obj(vec![("buffer", J::Arr(b.iter().map(|x| J::Num(*x as i64)).collect()))]),
        Any::Array(items) => J::Arr(items.iter().map(any_j).collect()),
        Any::Map(m) => {
            let sorted: BTreeMap<&String, &Any> = m.iter().collect();
            J::Obj(sorted.into_iter().map(|(k, v)| (k.clone(), any_j(v))).collect())
        }
    }
}

fn branch_name(b: &Branch) -> String {
    match b.id() {
        BranchID::Nested(id) => format!("{}#{}", id.client, id.clock),
        BranchID::Root(name) => format!("root {:?}", name),
    }
}

fn shared(kind: &str, b: &Branch) -> J {
    J::obj(vec![(kind, J::str(&branch_name(b)))])
}

fn out_j(o: &Out) -> J {
    match o {
        Out::Any(a) => any_j(a),
        Out::YText(v) => shared("YText", v.as_ref()),
        Out::YArray(v) => shared("YArray", v.as_ref()),
        Out::YMap(v) => shared("YMap", v.as_ref()),
        Out::YXmlElement(v) => shared("YXmlElement", v.as_ref()),
        Out::YXmlFragment(v) => shared("YXmlFragment", v.as_ref()),
        Out::YXmlText(v) => shared("YXmlText", v.as_ref()),
        Out::YDoc(d) => J::obj(vec![("YDoc", J::str(&d.guid()))]),
        Out::UndefinedRef(_) => J::obj(vec![("UndefinedRef", J::Bool(true))]),
        #[allow(unreachable_patterns)]
        _ => J::obj(vec![("YWeakLink", J::Bool(true))]),
    }
}

fn opt_out_j(o: &Option<Out>) -> J {
    match o {
        Some(o) => J::obj(vec![("some", out_j(o))]),
        None => J::str("None"),
    }
}

fn outs_j(items: &[Out]) -> J {
    J::Arr(items.iter().map(out_j).collect())
}

fn xml_out(x: &XmlOut) -> Out {
    Out::from(x.clone())
}

fn xmls_j(items: &[XmlOut]) -> J {
    J::Arr(items.iter().map(|x| out_j(&xml_out(x))).collect())
}

fn opt_xml_j(x: &Option<XmlOut>) -> J {
    opt_out_j(&x.as_ref().map(xml_out))
}

fn attrs_j(a: &Option<Box<Attrs>>) -> J {
    match a {
        None => J::Null,
        Some(a) => {
            let sorted: BTreeMap<String, &Any> = a.iter().map(|(k, v)| (k.to_string(), v)).collect();
            J::Obj(sorted.into_iter().map(|(k, v)| (k, any_j(v))).collect())
        }
    }
}

fn diff_j(d: &[Diff<YChange>]) -> J {
    J::Arr(d.iter().map(|c| J::obj(vec![("insert", out_j(&c.insert)), ("attributes", attrs_j(&c.attributes))])).collect())
}

fn short(s: String) -> String {
    if s.chars().count() > 400 {
        let cut: String = s.chars().take(400).collect();
        format!("{}...", cut)
    } else {
        s
    }
}

// ---------------------------------------------------------------------------
// foreign content: lib0 v1 bytes written by hand
// ---------------------------------------------------------------------------

fn var_uint(mut v: u64, out: &mut Vec<u8>) {
    loop {
        let b = (v & 0x7f) as u8;
        v >>= 7;
        if v == 0 {
            out.push(b);
            return;
        }
        out.push(b | 0x80);
    }
}

/// lib0 signed variable-length integer: 6 bits + sign in the first byte, 7 bits in the others.
fn var_int(n: i64, out: &mut Vec<u8>) {
    let mut v = n.unsigned_abs();
    let mut b = (v & 0x3f) as u8 | if n < 0 { 0x40 } else { 0 };
    v >>= 6;
    if v > 0 {
        b |= 0x80;
    }
    out.push(b);
    while v > 0 {
        let mut b = (v & 0x7f) as u8;
        v >>= 7;
        if v > 0 {
            b |= 0x80;
        }
        out.push(b);
    }
}

fn var_str(s: &str, out: &mut Vec<u8>) {
    var_uint(s.len() as u64, out);
    out.extend_from_slice(s.as_bytes());
}

#[derive(Clone, Debug)]
enum Parent {
    Root(&'static str),
    Id(u64, u32),
}

const HAS_ORIGIN: u8 = 0x80;
const HAS_RIGHT_ORIGIN: u8 = 0x40;
const REF_DELETED: u8 = 1;
const REF_JSON: u8 = 2;
const REF_BINARY: u8 = 3;
const REF_STRING: u8 = 4;
const REF_EMBED: u8 = 5;
const REF_FORMAT: u8 = 6;
const REF_ANY: u8 = 8;

/// The multi-byte string of a foreign ContentString: 2-byte, 3-byte, surrogate pair.
const FOREIGN_STR: &str = "\u{f1}\u{20ac}\u{1F603}";

/// One client section with one block, then an empty delete set.
fn foreign_update(
    client: u64,
    clock: u32,
    origin: Option<(u64, u32)>,
    right: Option<(u64, u32)>,
    parent: &Parent,
    content: Fc,
    n: i64,
    json_one_less: bool,
) -> Vec<u8> {
    let mut o = Vec::new();
    var_uint(1, &mut o);
    var_uint(1, &mut o);
    var_uint(client, &mut o);
    var_uint(clock as u64, &mut o);
    let refn = match content {
        Fc::Json3 => REF_JSON,
        Fc::Any3 => REF_ANY,
        Fc::Binary => REF_BINARY,
        Fc::Embed => REF_EMBED,
        Fc::Str => REF_STRING,
        Fc::FormatOn | Fc::FormatOff => REF_FORMAT,
        Fc::Deleted2 => REF_DELETED,
    };
    o.push(refn | if origin.is_some() { HAS_ORIGIN } else { 0 } | if right.is_some() { HAS_RIGHT_ORIGIN } else { 0 });
    for id in [origin, right].into_iter().flatten() {
        var_uint(id.0, &mut o);
        var_uint(id.1 as u64, &mut o);
    }
    if origin.is_none() && right.is_none() {
        match parent {
            Parent::Root(name) => {
                var_uint(1, &mut o);
                var_str(name, &mut o);
            }
            Parent::Id(c, k) => {
                var_uint(0, &mut o);
                var_uint(*c, &mut o);
                var_uint(*k as u64, &mut o);
            }
        }
    }
    match content {
        Fc::Json3 => {
            var_uint(3 - json_one_less as u64, &mut o);
            var_str(&format!("{}", n), &mut o);
            var_str("\"j\"", &mut o);
            var_str(&format!("{{\"j\":{}}}", n), &mut o);
        }
        Fc::Any3 => {
            var_uint(3, &mut o);
            o.push(125); // integer
            var_int(n, &mut o);
            o.push(119); // string
            var_str("f\u{e9}", &mut o);
            o.push(118); // object
            var_uint(1, &mut o);
            var_str("k", &mut o);
            o.push(125);
            var_int(n, &mut o);
        }
        Fc::Binary => {
            var_uint(2, &mut o);
            o.push((n & 0xff) as u8);
            o.push(0xfe);
        }
        Fc::Embed => var_str(&format!("{{\"e\":{}}}", n), &mut o),
        Fc::Str => var_str(FOREIGN_STR, &mut o),
        Fc::FormatOn => {
            var_str("b", &mut o);
            var_str("true", &mut o);
        }
        Fc::FormatOff => {
            var_str("b", &mut o);
            var_str("null", &mut o);
        }
        Fc::Deleted2 => var_uint(2, &mut o),
    }
    var_uint(0, &mut o);
    o
}

/// What this tree makes of ContentJSON: (Some(write the count one lower?) if a form decodes to
/// three elements, whether the tree's own encoding of such a document decodes again).
fn json_support() -> (Option<bool>, bool) {
    static PROBE: OnceLock<(Option<bool>, bool)> = OnceLock::new();
    *PROBE.get_or_init(|| {
        let attempt = |one_less: bool| -> Option<bool> {
            std::panic::catch_unwind(|| {
                let doc = Doc::with_options(Options::with_client_id(ClientID::new(1)));
                let a = doc.get_or_insert_array(ROOT_ARRAY);
                let bytes = foreign_update(9, 0, None, None, &Parent::Root(ROOT_ARRAY), Fc::Json3, 5, one_less);
                let u = Update::decode_v1(&bytes).ok()?;
                doc.transact_mut().apply_update(u).ok()?;
                {
                    let txn = doc.transact();
                    if a.len(&txn) != 3 || txn.state_vector().get(&ClientID::new(9)) != 3 {
                        return None;
                    }
                }
                let relayed = doc.transact().encode_state_as_update_v1(&StateVector::default());
                let relay_ok = (|| {
                    let u = Update::decode_v1(&relayed).ok()?;
                    let d2 = Doc::with_options(Options::with_client_id(ClientID::new(2)));
                    let a2 = d2.get_or_insert_array(ROOT_ARRAY);
                    d2.transact_mut().apply_update(u).ok()?;
                    let txn = d2.transact();
                    if a2.len(&txn) == 3 {
                        Some(())
                    } else {
                        None
                    }
                })()
                .is_some();
                Some(relay_ok)
            })
            .ok()
            .flatten()
        };
        if let Some(relay) = attempt(false) {
            (Some(false), relay)
        } else if let Some(relay) = attempt(true) {
            (Some(true), relay)
        } else {
            (None, false)
        }
    })
}

// ---------------------------------------------------------------------------
// the oracle: pairwise agreement of the read paths (no model of the content)
// ---------------------------------------------------------------------------

struct Ctx<'a> {
    step: usize,
    replica: usize,
    moment: String,
    off: &'a BTreeSet<String>,
    kind: OffsetKind,
}

impl<'a> Ctx<'a> {
    fn on(&self, clause: &str) -> bool {
        !self.off.contains(clause)
    }
}

fn disagree(ctx: &Ctx, what: &str, clause: &str, a: (&str, J), b: (&str, J), all: &J) -> Failure {
    Failure {
        why: format!("{} and {} disagree ({}; {}; clause {})", a.0, b.0, what, ctx.moment, clause),
        expected: J::obj(vec![
            ("step", J::Num(ctx.step as i64 + 1)),
            ("replica", J::Num(ctx.replica as i64 + 1)),
            ("moment", J::str(&ctx.moment)),
            ("read", J::str(what)),
            ("clause", J::str(clause)),
            (a.0, a.1),
        ]),
        actual: J::obj(vec![(b.0, b.1), ("all_read_paths", all.clone())]),
        api: format!("{} vs {}", a.0, b.0),
    }
}

fn unit_len(c: char, kind: OffsetKind) -> u32 {
    match kind {
        OffsetKind::Bytes => c.len_utf8() as u32,
        OffsetKind::Utf16 => c.len_utf16() as u32,
    }
}

fn str_units(s: &str, kind: OffsetKind) -> u32 {
    s.chars().map(|c| unit_len(c, kind)).sum()
}

/// What `diff` shows: the concatenated string chunks, the number of embeds, and per atom (character
/// or embed) its length in (bytes, UTF-16 units).
struct Shown {
    plain: String,
    embeds: usize,
    atoms: Vec<(u32, u32)>,
}

fn shown(diff: &[Diff<YChange>]) -> Shown {
    let mut s = Shown { plain: String::new(), embeds: 0, atoms: Vec::new() };
    for d in diff {
        match &d.insert {
            Out::Any(Any::String(t)) => {
                s.plain.push_str(t);
                s.atoms.extend(t.chars().map(|c| (c.len_utf8() as u32, c.len_utf16() as u32)));
            }
            _ => {
                s.embeds += 1;
                s.atoms.push((1, 1));
            }
        }
    }
    s
}

/// The rendering `XmlTextRef::get_string` documents: per chunk the attributes as tags (sorted by
/// name), primitive content, closing tags. `None`: not exact (an attribute whose value is a map
/// with several members comes out in hash order).
fn render_xml_text(diff: &[Diff<YChange>]) -> Option<String> {
    use std::fmt::Write;
    let mut buf = String::new();
    for d in diff {
        let mut attrs: Vec<(&std::sync::Arc<str>, &Any)> = d.attributes.as_ref().map(|a| a.iter().collect()).unwrap_or_default();
        attrs.sort_by(|x, y| x.0.cmp(y.0));
        for (k, v) in attrs.iter() {
            write!(buf, "<{}", k).ok()?;
            if let Any::Map(m) = v {
                if m.len() > 1 {
                    return None;
                }
                for (kk, vv) in m.iter() {
                    write!(buf, " {}=\"{}\"", kk, vv).ok()?;
                }
            }
            buf.push('>');
        }
        if let Out::Any(any) = &d.insert {
            write!(buf, "{}", any).ok()?;
        }
        for (k, _) in attrs.iter().rev() {
            write!(buf, "</{}>", k).ok()?;
        }
    }
    Some(buf)
}

fn json_path_read<T: ReadTxn>(txn: &T, q: &str) -> Option<Vec<Out>> {
    let parsed = JsonPath::parse(q).ok()?;
    at(&format!("JsonPathEval::json_path({:?})", q));
    let got: Vec<Out> = txn.json_path(&parsed).collect();
    Some(got)
}

/// JSON path reads of an indexed collection against what iteration yields.
fn check_paths<T: ReadTxn>(txn: &T, path: &str, items: &[Out], bad: &dyn Fn(&str, (&str, J), (&str, J)) -> Failure) -> Result<(), Failure> {
    let len = items.len();
    for (q, want) in [(format!("{}.*", path), items.to_vec()), (format!("{}[*]", path), items.to_vec())] {
        if let Some(got) = json_path_read(txn, &q) {
            if got != want {
                return Err(bad("json_path_wildcard", ("iteration", outs_j(&want)), (&format!("json_path({:?})", q), outs_j(&got))));
            }
        }
    }
    for i in 0..len + 2 {
        let q = format!("{}[{}]", path, i);
        if let Some(got) = json_path_read(txn, &q) {
            let want: Vec<Out> = items.get(i).cloned().into_iter().collect();
            if got != want {
                return Err(bad("json_path_index", ("iteration (element at the index)", outs_j(&want)), (&format!("json_path({:?})", q), outs_j(&got))));
            }
        }
    }
    for back in 1..=len {
        let q = format!("{}[-{}]", path, back);
        if let Some(got) = json_path_read(txn, &q) {
            let want = vec![items[len - back].clone()];
            if got != want {
                return Err(bad("json_path_index", ("iteration (element counted from the end)", outs_j(&want)), (&format!("json_path({:?})", q), outs_j(&got))));
            }
        }
    }
    for from in 0..=len {
        for to in from..=len + 1 {
            let q = format!("{}[{}:{}]", path, from, to);
            if let Some(got) = json_path_read(txn, &q) {
                let want: Vec<Out> = items[from.min(len)..to.min(len)].to_vec();
                if got != want {
                    return Err(bad("json_path_slice", ("iteration (slice)", outs_j(&want)), (&format!("json_path({:?})", q), outs_j(&got))));
                }
            }
        }
    }
    Ok(())
}

fn check_array<T: ReadTxn>(arr: &ArrayRef, txn: &T, what: &str, path: Option<&str>, ctx: &Ctx, depth: u32) -> Result<(), Failure> {
    at("Array::len");
    let len = arr.len(txn) as usize;
    let branch: &Branch = arr.as_ref();
    let (block_len, content_len) = (branch.len(), branch.content_len());
    at("Array::iter");
    let items: Vec<Out> = arr.iter(txn).collect();
    at("Array::get");
    let gets: Vec<Option<Out>> = (0..len + 2).map(|i| arr.get(txn, i as u32)).collect();
    at("ArrayRef::to_json");
    let json = arr.to_json(txn);
    let all = J::obj(vec![
        ("Array::len", J::Num(len as i64)),
        ("Branch::len", J::Num(block_len as i64)),
        ("Branch::content_len", J::Num(content_len as i64)),
        ("Array::iter", outs_j(&items)),
        ("Array::get(0..len+2)", J::Arr(gets.iter().map(opt_out_j).collect())),
        ("ArrayRef::to_json", any_j(&json)),
    ]);
    let bad = |clause: &str, a: (&str, J), b: (&str, J)| -> Failure { disagree(ctx, what, clause, a, b, &all) };
    let lenj = || ("Array::len", J::Num(len as i64));
    if ctx.on("array_iter_count") && items.len() != len {
        return Err(bad("array_iter_count", lenj(), ("Array::iter (count)", J::Num(items.len() as i64))));
    }
    if ctx.on("array_content_len") && content_len as usize != len {
        return Err(bad("array_content_len", lenj(), ("Branch::content_len", J::Num(content_len as i64))));
    }
    let json_items: Vec<Any> = match &json {
        Any::Array(v) => v.iter().cloned().collect(),
        _ => return Err(bad("array_to_json", lenj(), ("ArrayRef::to_json (not an array)", any_j(&json)))),
    };
    if ctx.on("array_to_json") && json_items.len() != len {
        return Err(bad("array_to_json", lenj(), ("ArrayRef::to_json (length)", J::Num(json_items.len() as i64))));
    }
    if ctx.on("array_get") {
        for (i, g) in gets.iter().enumerate() {
            if g.is_some() != (i < len) {
                return Err(bad("array_get", lenj(), (&format!("Array::get({})", i), opt_out_j(g))));
            }
            if g.as_ref() != items.get(i) {
                return Err(bad(
                    "array_get",
                    (&format!("Array::iter (element {})", i), opt_out_j(&items.get(i).cloned())),
                    (&format!("Array::get({})", i), opt_out_j(g)),
                ));
            }
        }
    }
    if ctx.on("array_to_json") {
        for (i, v) in items.iter().enumerate() {
            at("Out::to_json");
            let want = v.to_json(txn);
            if json_items.get(i) != Some(&want) {
                return Err(bad(
                    "array_to_json",
                    (&format!("Array::iter (element {}).to_json()", i), any_j(&want)),
                    (&format!("ArrayRef::to_json()[{}]", i), json_items.get(i).map(any_j).unwrap_or(J::str("(absent)"))),
                ));
            }
        }
        at("Out::to_json");
        let wrapped = Out::YArray(arr.clone()).to_json(txn);
        if wrapped != json {
            return Err(bad("array_to_json", ("ArrayRef::to_json", any_j(&json)), ("Out::YArray.to_json", any_j(&wrapped))));
        }
    }
    if ctx.on("array_get_as") {
        for i in 0..len + 1 {
            at("Array::get_as::<Any>");
            let got = arr.get_as::<T, Any>(txn, i as u32);
            // `get_as` is `get` + deserialization (a missing element reads as null)
            let want = from_any::<Any>(&gets[i].as_ref().map(|o| o.to_json(txn)).unwrap_or(Any::Null));
            let same = match (&got, &want) {
                (Ok(a), Ok(b)) => a == b,
                (Err(a), Err(b)) => format!("{:?}", a) == format!("{:?}", b),
                _ => false,
            };
            if !same {
                return Err(bad(
                    "array_get_as",
                    (&format!("Array::get({}).to_json() deserialized (from_any::<Any>)", i), J::str(&short(format!("{:?}", want)))),
                    (&format!("Array::get_as::<Any>({})", i), J::str(&short(format!("{:?}", got)))),
                ));
            }
        }
    }
    if ctx.on("array_as_prelim") {
        at("ArrayRef::as_prelim");
        let prelim: ArrayPrelim = arr.as_prelim(txn);
        if prelim.len() != len {
            return Err(bad("array_as_prelim", lenj(), ("ArrayRef::as_prelim (length)", J::Num(prelim.len() as i64))));
        }
        for (i, v) in items.iter().enumerate() {
            at("Out::as_prelim");
            let want: In = v.as_prelim(txn);
            if prelim.get(i) != Some(&want) {
                return Err(bad(
                    "array_as_prelim",
                    (&format!("Array::iter (element {}).as_prelim()", i), J::str(&short(format!("{:?}", want)))),
                    (&format!("ArrayRef::as_prelim()[{}]", i), J::str(&short(format!("{:?}", prelim.get(i))))),
                ));
            }
        }
    }
    if let Some(p) = path {
        if ctx.on("json_path") {
            check_paths(txn, p, &items, &|c, a, b| bad(c, a, b))?;
        }
    }
    if depth > 0 {
        for (i, v) in items.iter().enumerate() {
            let sub = path.map(|p| format!("{}[{}]", p, i));
            check_out(v, txn, &format!("{} -> element {}", what, i), sub.as_deref(), ctx, depth - 1)?;
        }
    }
    Ok(())
}

/// A nested shared type read through the API of its own kind.
fn check_out<T: ReadTxn>(v: &Out, txn: &T, what: &str, path: Option<&str>, ctx: &Ctx, depth: u32) -> Result<(), Failure> {
    match v {
        Out::YArray(a) => check_array(a, txn, &format!("{} (Array)", what), path, ctx, depth),
        Out::YText(t) => check_text_ref(t, txn, &format!("{} (Text)", what), ctx),
        Out::YXmlText(t) => check_xml_text_ref(t, txn, &format!("{} (XmlText)", what), ctx),
        Out::YXmlElement(e) => check_element(e, txn, &format!("{} (XmlElement)", what), path, ctx, depth),
        Out::YXmlFragment(f) => check_fragment(f, txn, &format!("{} (XmlFragment)", what), path, ctx, depth),
        _ => Ok(()),
    }
}

fn check_text_ref<T: ReadTxn>(t: &TextRef, txn: &T, what: &str, ctx: &Ctx) -> Result<(), Failure> {
    at("TextRef::get_string");
    let own = t.get_string(txn);
    at("TextRef::as_prelim");
    let prelim = t.as_prelim(txn);
    check_text(t, own, Out::YText(t.clone()), &prelim, false, txn, what, ctx)
}

fn check_xml_text_ref<T: ReadTxn>(t: &XmlTextRef, txn: &T, what: &str, ctx: &Ctx) -> Result<(), Failure> {
    at("XmlTextRef::get_string");
    let own = t.get_string(txn);
    at("XmlTextRef::as_prelim");
    let prelim = t.as_prelim(txn);
    check_text(t, own, Out::YXmlText(t.clone()), &prelim, true, txn, what, ctx)
}

fn check_text<X: Text, T: ReadTxn>(
    text: &X,
    own: String,
    wrapped: Out,
    prelim: &[Delta<In>],
    is_xml: bool,
    txn: &T,
    what: &str,
    ctx: &Ctx,
) -> Result<(), Failure> {
    at("Text::len");
    let len = text.len(txn);
    let branch: &Branch = text.as_ref();
    let block_len = branch.len();
    at("Text::diff");
    let diff: Vec<Diff<YChange>> = text.diff(txn, YChange::identity);
    let sh = shown(&diff);
    let all = J::obj(vec![
        ("Text::len", J::Num(len as i64)),
        ("Branch::len", J::Num(block_len as i64)),
        ("get_string", J::str(&own)),
        ("Text::diff", diff_j(&diff)),
    ]);
    let bad = |clause: &str, a: (&str, J), b: (&str, J)| -> Failure { disagree(ctx, what, clause, a, b, &all) };
    if ctx.on("text_empty_chunk") && diff.iter().any(|d| matches!(&d.insert, Out::Any(Any::String(s)) if s.is_empty())) {
        return Err(bad("text_empty_chunk", ("get_string", J::str(&own)), ("Text::diff", J::str("yields an empty string chunk"))));
    }
    if !is_xml {
        if ctx.on("text_diff_concat") && sh.plain != own {
            return Err(bad("text_diff_concat", ("TextRef::get_string", J::str(&own)), ("Text::diff (string chunks concatenated)", J::str(&sh.plain))));
        }
    } else if ctx.on("xml_text_render") {
        if let Some(r) = render_xml_text(&diff) {
            if r != own {
                return Err(bad("xml_text_render", ("XmlTextRef::get_string", J::str(&own)), ("Text::diff (chunks rendered as tags)", J::str(&r))));
            }
        }
    }
    let units = str_units(&sh.plain, ctx.kind) as usize + sh.embeds;
    if ctx.on("text_len") && units != len as usize {
        return Err(bad(
            "text_len",
            ("Text::len", J::Num(len as i64)),
            (
                "Text::diff (length of the string chunks in the configured unit + one per embed)",
                J::obj(vec![("units", J::Num(units as i64)), ("embeds", J::Num(sh.embeds as i64))]),
            ),
        ));
    }
    if !is_xml && ctx.on("text_len") {
        let own_units = str_units(&own, ctx.kind) as usize + sh.embeds;
        if own_units != len as usize {
            return Err(bad(
                "text_len",
                ("Text::len", J::Num(len as i64)),
                ("TextRef::get_string (length in the configured unit) + embeds of Text::diff", J::Num(own_units as i64)),
            ));
        }
    }
    let utf16: usize = sh.atoms.iter().map(|a| a.1 as usize).sum();
    if ctx.on("text_block_len") && block_len as usize != utf16 {
        return Err(bad(
            "text_block_len",
            ("Branch::len (UTF-16 units + embeds)", J::Num(block_len as i64)),
            ("Text::diff (UTF-16 length of the string chunks + one per embed)", J::Num(utf16 as i64)),
        ));
    }
    if ctx.on("text_out") {
        at("Out::to_json");
        let j = wrapped.to_json(txn);
        if j != Any::from(own.clone()) {
            return Err(bad("text_out", ("get_string", J::str(&own)), ("Out::to_json", any_j(&j))));
        }
        at("Out::to_string");
        let s = wrapped.clone().to_string(txn);
        if s != own {
            return Err(bad("text_out", ("get_string", J::str(&own)), ("Out::to_string", J::str(&s))));
        }
    }
    if ctx.on("text_as_prelim") {
        if prelim.len() != diff.len() {
            return Err(bad("text_as_prelim", ("Text::diff (chunks)", J::Num(diff.len() as i64)), ("as_prelim (chunks)", J::Num(prelim.len() as i64))));
        }
        for (i, (p, d)) in prelim.iter().zip(diff.iter()).enumerate() {
            at("Out::as_prelim");
            let want = d.insert.as_prelim(txn);
            let same = matches!(p, Delta::Inserted(v, a) if *v == want && *a == d.attributes);
            if !same {
                return Err(bad(
                    "text_as_prelim",
                    (&format!("Text::diff (chunk {})", i), J::obj(vec![("insert", out_j(&d.insert)), ("attributes", attrs_j(&d.attributes))])),
                    (&format!("as_prelim (chunk {})", i), J::str(&short(format!("{:?}", p)))),
                ));
            }
        }
    }
    // embedded shared types read through their own API
    for (i, d) in diff.iter().enumerate() {
        if !matches!(d.insert, Out::Any(_)) {
            check_out(&d.insert, txn, &format!("{} -> embed in chunk {}", what, i), None, ctx, 0)?;
        }
    }
    Ok(())
}

/// `diff_range` needs a read-write transaction: without snapshots it is `diff`; with the current
/// state as the upper snapshot its string chunks concatenate to the same text.
fn check_text_mut<X: Text>(text: &X, txn: &mut TransactionMut, with_snapshot: bool, what: &str, ctx: &Ctx) -> Result<(), Failure> {
    if !ctx.on("text_diff_range") {
        return Ok(());
    }
    at("Text::diff");
    let diff: Vec<Diff<YChange>> = text.diff(txn, YChange::identity);
    at("Text::diff_range(None, None)");
    let ranged: Vec<Diff<YChange>> = text.diff_range(txn, None, None, YChange::identity);
    let all = J::obj(vec![("Text::diff", diff_j(&diff))]);
    if ranged != diff {
        return Err(disagree(ctx, what, "text_diff_range", ("Text::diff", diff_j(&diff)), ("Text::diff_range(None, None)", diff_j(&ranged)), &all));
    }
    if with_snapshot && ctx.on("text_diff_range_snapshot") {
        at("ReadTxn::snapshot");
        let snap = txn.snapshot();
        at("Text::diff_range(current snapshot, None)");
        let ranged: Vec<Diff<YChange>> = text.diff_range(txn, Some(&snap), None, YChange::identity);
        let (a, b) = (shown(&diff), shown(&ranged));
        if a.plain != b.plain || a.embeds != b.embeds {
            return Err(disagree(
                ctx,
                what,
                "text_diff_range_snapshot",
                ("Text::diff", diff_j(&diff)),
                ("Text::diff_range(snapshot of the current state, None)", diff_j(&ranged)),
                &all,
            ));
        }
    }
    Ok(())
}

fn xml_string<T: ReadTxn>(x: &XmlOut, txn: &T) -> String {
    match x {
        XmlOut::Element(e) => e.get_string(txn),
        XmlOut::Fragment(f) => f.get_string(txn),
        XmlOut::Text(t) => t.get_string(txn),
    }
}

fn xml_parent(x: &XmlOut) -> Option<XmlOut> {
    match x {
        XmlOut::Element(e) => e.parent(),
        XmlOut::Fragment(f) => f.parent(),
        XmlOut::Text(t) => t.parent(),
    }
}

/// (following siblings, preceding siblings nearest first)
fn xml_siblings<T: ReadTxn>(x: &XmlOut, txn: &T) -> (Vec<XmlOut>, Vec<XmlOut>) {
    match x {
        XmlOut::Element(e) => (e.siblings(txn).collect(), e.siblings(txn).rev().collect()),
        XmlOut::Text(t) => (t.siblings(txn).collect(), t.siblings(txn).rev().collect()),
        XmlOut::Fragment(_) => (Vec::new(), Vec::new()),
    }
}

fn xml_kids<T: ReadTxn>(x: &XmlOut, txn: &T) -> Vec<XmlOut> {
    match x {
        XmlOut::Element(e) => e.children(txn).collect(),
        XmlOut::Fragment(f) => f.children(txn).collect(),
        XmlOut::Text(_) => Vec::new(),
    }
}

/// Pre-order walk over `children`, recursively.
fn walk<T: ReadTxn>(kids: &[XmlOut], txn: &T, out: &mut Vec<XmlOut>, fuel: &mut u32) {
    for k in kids {
        if *fuel == 0 {
            return;
        }
        *fuel -= 1;
        out.push(k.clone());
        let inner = xml_kids(k, txn);
        walk(&inner, txn, out, fuel);
    }
}

fn same_nodes(a: &[XmlOut], b: &[XmlOut]) -> bool {
    a.len() == b.len() && a.iter().zip(b.iter()).all(|(x, y)| xml_out(x) == xml_out(y))
}

fn check_fragment<T: ReadTxn>(f: &XmlFragmentRef, txn: &T, what: &str, path: Option<&str>, ctx: &Ctx, depth: u32) -> Result<(), Failure> {
    at("XmlFragmentRef::get_string");
    let own = f.get_string(txn);
    check_xml(f, XmlOut::Fragment(f.clone()), own, None, txn, what, path, ctx, depth)
}

fn check_element<T: ReadTxn>(e: &XmlElementRef, txn: &T, what: &str, path: Option<&str>, ctx: &Ctx, depth: u32) -> Result<(), Failure> {
    at("XmlElementRef::get_string");
    let own = e.get_string(txn);
    at("Xml::attributes");
    let plain = e.attributes(txn).next().is_none();
    let tag = e.try_tag().map(|t| t.to_string());
    check_xml(e, XmlOut::Element(e.clone()), own, if plain { tag } else { None }, txn, what, path, ctx, depth)
}

/// `tag`: of an element without attributes (its rendering can be assembled exactly).
fn check_xml<F: XmlFragment, T: ReadTxn>(
    node: &F,
    me: XmlOut,
    own: String,
    tag: Option<String>,
    txn: &T,
    what: &str,
    path: Option<&str>,
    ctx: &Ctx,
    depth: u32,
) -> Result<(), Failure> {
    let is_fragment = matches!(me, XmlOut::Fragment(_));
    at("XmlFragment::len");
    let len = node.len(txn) as usize;
    let branch: &Branch = node.as_ref();
    let content_len = branch.content_len();
    at("XmlFragment::children");
    let kids: Vec<XmlOut> = node.children(txn).collect();
    at("XmlFragment::get");
    let gets: Vec<Option<XmlOut>> = (0..len + 2).map(|i| node.get(txn, i as u32)).collect();
    at("XmlFragment::first_child");
    let first = node.first_child();
    at("XmlFragment::successors");
    let succ: Vec<XmlOut> = node.successors(txn).take(10_000).collect();
    let all = J::obj(vec![
        ("XmlFragment::len", J::Num(len as i64)),
        ("Branch::content_len", J::Num(content_len as i64)),
        ("XmlFragment::children", xmls_j(&kids)),
        ("XmlFragment::get(0..len+2)", J::Arr(gets.iter().map(opt_xml_j).collect())),
        ("XmlFragment::first_child", opt_xml_j(&first)),
        ("XmlFragment::successors", xmls_j(&succ)),
        ("get_string", J::str(&own)),
    ]);
    let bad = |clause: &str, a: (&str, J), b: (&str, J)| -> Failure { disagree(ctx, what, clause, a, b, &all) };
    let lenj = || ("XmlFragment::len", J::Num(len as i64));
    if ctx.on("xml_children_count") && kids.len() != len {
        return Err(bad("xml_children_count", lenj(), ("XmlFragment::children (count)", J::Num(kids.len() as i64))));
    }
    if ctx.on("xml_content_len") && content_len as usize != len {
        return Err(bad("xml_content_len", lenj(), ("Branch::content_len", J::Num(content_len as i64))));
    }
    if ctx.on("xml_get") {
        for (i, g) in gets.iter().enumerate() {
            if g.is_some() != (i < len) {
                return Err(bad("xml_get", lenj(), (&format!("XmlFragment::get({})", i), opt_xml_j(g))));
            }
            if g.as_ref().map(xml_out) != kids.get(i).map(xml_out) {
                return Err(bad(
                    "xml_get",
                    (&format!("XmlFragment::children (node {})", i), opt_xml_j(&kids.get(i).cloned())),
                    (&format!("XmlFragment::get({})", i), opt_xml_j(g)),
                ));
            }
        }
    }
    if ctx.on("xml_first_child") && first.as_ref().map(xml_out) != kids.first().map(xml_out) {
        return Err(bad(
            "xml_first_child",
            ("XmlFragment::children (first)", opt_xml_j(&kids.first().cloned())),
            ("XmlFragment::first_child", opt_xml_j(&first)),
        ));
    }
    if ctx.on("xml_siblings") {
        for (i, k) in kids.iter().enumerate() {
            at("Xml::siblings");
            let (after, before) = xml_siblings(k, txn);
            if !same_nodes(&after, &kids[i + 1..]) {
                return Err(bad(
                    "xml_siblings",
                    (&format!("XmlFragment::children (after node {})", i), xmls_j(&kids[i + 1..])),
                    (&format!("Xml::siblings (forwards from node {})", i), xmls_j(&after)),
                ));
            }
            let want: Vec<XmlOut> = kids[..i].iter().rev().cloned().collect();
            if !same_nodes(&before, &want) {
                return Err(bad(
                    "xml_siblings",
                    (&format!("XmlFragment::children (before node {}, nearest first)", i), xmls_j(&want)),
                    (&format!("Xml::siblings (backwards from node {})", i), xmls_j(&before)),
                ));
            }
        }
    }
    if ctx.on("xml_parent") {
        for (i, k) in kids.iter().enumerate() {
            at("Xml::parent");
            let p = xml_parent(k);
            if p.as_ref().map(xml_out) != Some(xml_out(&me)) {
                return Err(bad(
                    "xml_parent",
                    ("the node whose children are read", out_j(&xml_out(&me))),
                    (&format!("Xml::parent (of node {})", i), opt_xml_j(&p)),
                ));
            }
        }
    }
    if ctx.on("xml_successors") {
        let mut want = Vec::new();
        let mut fuel = 10_000u32;
        walk(&kids, txn, &mut want, &mut fuel);
        if !same_nodes(&succ, &want) {
            return Err(bad(
                "xml_successors",
                ("XmlFragment::children (walked recursively, depth first)", xmls_j(&want)),
                ("XmlFragment::successors", xmls_j(&succ)),
            ));
        }
    }
    if ctx.on("xml_render") && (is_fragment || tag.is_some()) {
        let mut want = String::new();
        if let Some(t) = &tag {
            want.push_str(&format!("<{}>", t));
        }
        for k in kids.iter() {
            at("get_string (child)");
            want.push_str(&xml_string(k, txn));
        }
        if let Some(t) = &tag {
            want.push_str(&format!("</{}>", t));
        }
        if want != own {
            return Err(bad("xml_render", ("XmlFragment::children (renderings concatenated)", J::str(&want)), ("get_string", J::str(&own))));
        }
    }
    if ctx.on("xml_out") {
        at("Out::to_json");
        let j = xml_out(&me).to_json(txn);
        // an element with several attributes renders them in the hash order of the moment
        if (is_fragment || tag.is_some()) && j != Any::from(own.clone()) {
            return Err(bad("xml_out", ("get_string", J::str(&own)), ("Out::to_json", any_j(&j))));
        }
    }
    if let XmlOut::Element(e) = &me {
        if ctx.on("xml_as_prelim") {
            at("XmlElementRef::as_prelim");
            let prelim: XmlElementPrelim = e.as_prelim(txn);
            if prelim.children.len() != len {
                return Err(bad("xml_as_prelim", lenj(), ("XmlElementRef::as_prelim (children)", J::Num(prelim.children.len() as i64))));
            }
            for (i, k) in kids.iter().enumerate() {
                let want: XmlIn = match k {
                    XmlOut::Element(v) => XmlIn::Element(v.as_prelim(txn)),
                    XmlOut::Fragment(v) => XmlIn::Fragment(v.as_prelim(txn)),
                    XmlOut::Text(v) => XmlIn::Text(v.as_prelim(txn)),
                };
                if prelim.children[i] != want {
                    return Err(bad(
                        "xml_as_prelim",
                        (&format!("XmlFragment::children (node {}).as_prelim()", i), J::str(&short(format!("{:?}", want)))),
                        (&format!("XmlElementRef::as_prelim().children[{}]", i), J::str(&short(format!("{:?}", prelim.children[i])))),
                    ));
                }
            }
        }
    }
    if let Some(p) = path {
        if ctx.on("json_path") {
            let items: Vec<Out> = kids.iter().map(xml_out).collect();
            check_paths(txn, p, &items, &|c, a, b| bad(c, a, b))?;
        }
    }
    if depth > 0 {
        for (i, k) in kids.iter().enumerate() {
            let sub = path.map(|p| format!("{}[{}]", p, i));
            check_out(&xml_out(k), txn, &format!("{} -> child {}", what, i), sub.as_deref(), ctx, depth - 1)?;
        }
    }
    Ok(())
}

// ---------------------------------------------------------------------------
// replicas
// ---------------------------------------------------------------------------

enum HostRef {
    Array(ArrayRef),
    Text(TextRef),
    XText(XmlTextRef),
    Frag(XmlFragmentRef),
    Elem(XmlElementRef),
}

enum Outer {
    None,
    Array(ArrayRef),
    Map(MapRef),
    Frag(XmlFragmentRef),
}

struct Rep {
    /// Declared first: dropped before the document it observes.
    undo: Option<UndoManager<()>>,
    host: HostRef,
    outer: Outer,
    doc: Doc,
}

fn new_doc(client: u64, gc: bool, kind: OffsetKind) -> Doc {
    at("Doc::with_options");
    let mut o = Options::with_client_id(ClientID::new(client));
    o.skip_gc = !gc;
    o.offset_kind = kind;
    Doc::with_options(o)
}

fn sub_doc(n: i64) -> Doc {
    let mut o = Options::with_client_id(ClientID::new(1000 + n as u64));
    o.guid = format!("sub-{}", n).into();
    Doc::with_options(o)
}

/// A script that cannot be executed, or a step of the harness itself that did not work: never a
/// verdict about the read paths.
fn invalid(why: String) -> Failure {
    Failure { why: format!("invalid case: {}", why), expected: J::Null, actual: J::Null, api: "(none)".to_string() }
}

fn is_invalid(f: &Failure) -> bool {
    f.why.starts_with("invalid case: ")
}

const API_SYNC: &str = "ReadTxn::encode_state_as_update_v1 -> Update::decode_v1 -> TransactionMut::apply_update";

fn transfer(from: &Doc, to: &Doc) -> Result<(), Failure> {
    at(API_SYNC);
    let sv = to.transact().state_vector();
    let bytes = from.transact().encode_state_as_update_v1(&sv);
    let update = Update::decode_v1(&bytes).map_err(|e| invalid(format!("an update just encoded does not decode: {}", e)))?;
    let mut txn = to.transact_mut();
    txn.apply_update(update).map_err(|e| invalid(format!("apply_update of a peer's state failed: {}", e)))?;
    drop(txn);
    Ok(())
}

fn setup(case: &SCase) -> Result<Vec<Rep>, Failure> {
    let docs: Vec<Doc> = (0..case.replicas).map(|i| new_doc(i as u64 + 1, case.gc, case.kind())).collect();
    let mut reps: Vec<Rep> = Vec::new();
    let missing = |what: &str| invalid(format!("set-up: {} is not readable on a replica", what));
    let share = |docs: &[Doc]| -> Result<(), Failure> {
        for i in 1..docs.len() {
            transfer(&docs[0], &docs[i])?;
        }
        Ok(())
    };
    match case.host {
        HostKind::RootArray => {
            for doc in docs {
                let a = doc.get_or_insert_array(ROOT_ARRAY);
                reps.push(Rep { undo: None, host: HostRef::Array(a), outer: Outer::None, doc });
            }
        }
        HostKind::RootText => {
            for doc in docs {
                let t = doc.get_or_insert_text(ROOT_TEXT);
                reps.push(Rep { undo: None, host: HostRef::Text(t), outer: Outer::None, doc });
            }
        }
        HostKind::Fragment => {
            for doc in docs {
                let f = doc.get_or_insert_xml_fragment(XML_ROOT);
                reps.push(Rep { undo: None, host: HostRef::Frag(f), outer: Outer::None, doc });
            }
        }
        HostKind::ArrayInArray => {
            let outers: Vec<ArrayRef> = docs.iter().map(|d| d.get_or_insert_array(HOST_ARRAY)).collect();
            {
                at("Array::push_back (set-up)");
                let mut txn = docs[0].transact_mut();
                outers[0].push_back(&mut txn, ArrayPrelim::default());
            }
            share(&docs)?;
            for (doc, outer) in docs.into_iter().zip(outers.into_iter()) {
                let host = match outer.get(&doc.transact(), 0) {
                    Some(Out::YArray(a)) => a,
                    _ => return Err(missing("the nested array")),
                };
                reps.push(Rep { undo: None, host: HostRef::Array(host), outer: Outer::Array(outer), doc });
            }
        }
        HostKind::ArrayInMap => {
            let outers: Vec<MapRef> = docs.iter().map(|d| d.get_or_insert_map(HOST_MAP)).collect();
            {
                at("Map::insert (set-up)");
                let mut txn = docs[0].transact_mut();
                outers[0].insert(&mut txn, NESTED_KEY, ArrayPrelim::default());
            }
            share(&docs)?;
            for (doc, outer) in docs.into_iter().zip(outers.into_iter()) {
                let host = match outer.get(&doc.transact(), NESTED_KEY) {
                    Some(Out::YArray(a)) => a,
                    _ => return Err(missing("the nested array")),
                };
                reps.push(Rep { undo: None, host: HostRef::Array(host), outer: Outer::Map(outer), doc });
            }
        }
        HostKind::Element | HostKind::XText => {
            let frags: Vec<XmlFragmentRef> = docs.iter().map(|d| d.get_or_insert_xml_fragment(XML_ROOT)).collect();
            {
                at("XmlFragment::insert (set-up)");
                let mut txn = docs[0].transact_mut();
                if case.host == HostKind::Element {
                    frags[0].insert(&mut txn, 0, XmlElementPrelim::empty("p"));
                } else {
                    frags[0].insert(&mut txn, 0, XmlTextPrelim::new(""));
                }
            }
            share(&docs)?;
            for (doc, frag) in docs.into_iter().zip(frags.into_iter()) {
                let host = match frag.get(&doc.transact(), 0) {
                    Some(XmlOut::Element(e)) if case.host == HostKind::Element => HostRef::Elem(e),
                    Some(XmlOut::Text(t)) if case.host == HostKind::XText => HostRef::XText(t),
                    _ => return Err(missing("the XML node")),
                };
                reps.push(Rep { undo: None, host, outer: Outer::Frag(frag), doc });
            }
        }
    }
    if case.undo {
        at("UndoManager::with_options / expand_scope");
        let options = yrs::undo::Options { capture_timeout_millis: 0, ..Default::default() };
        let mut mgr: UndoManager<()> = UndoManager::with_options(options);
        let rep = &mut reps[0];
        match &rep.host {
            HostRef::Array(v) => mgr.expand_scope(&rep.doc, v),
            HostRef::Text(v) => mgr.expand_scope(&rep.doc, v),
            HostRef::XText(v) => mgr.expand_scope(&rep.doc, v),
            HostRef::Frag(v) => mgr.expand_scope(&rep.doc, v),
            HostRef::Elem(v) => mgr.expand_scope(&rep.doc, v),
        }
        rep.undo = Some(mgr);
    }
    Ok(reps)
}

fn host_branch(host: &HostRef) -> &Branch {
    match host {
        HostRef::Array(v) => v.as_ref(),
        HostRef::Text(v) => v.as_ref(),
        HostRef::XText(v) => v.as_ref(),
        HostRef::Frag(v) => v.as_ref(),
        HostRef::Elem(v) => v.as_ref(),
    }
}

/// Length of the observed sequence as its own API tells it.
fn host_len<T: ReadTxn>(host: &HostRef, txn: &T) -> u32 {
    match host {
        HostRef::Array(v) => v.len(txn),
        HostRef::Text(v) => v.len(txn),
        HostRef::XText(v) => v.len(txn),
        HostRef::Frag(v) => v.len(txn),
        HostRef::Elem(v) => v.len(txn),
    }
}

fn host_diff<T: ReadTxn>(host: &HostRef, txn: &T) -> Option<Vec<Diff<YChange>>> {
    match host {
        HostRef::Text(v) => Some(v.diff(txn, YChange::identity)),
        HostRef::XText(v) => Some(v.diff(txn, YChange::identity)),
        _ => None,
    }
}

/// The id of the live unit at `index` (through a sticky index).
fn id_at<T: ReadTxn>(host: &HostRef, txn: &T, index: u32) -> Option<(u64, u32)> {
    at("IndexedSequence::sticky_index");
    let s = match host {
        HostRef::Array(v) => v.sticky_index(txn, index, Assoc::After),
        HostRef::Text(v) => v.sticky_index(txn, index, Assoc::After),
        HostRef::XText(v) => v.sticky_index(txn, index, Assoc::After),
        HostRef::Frag(v) => v.sticky_index(txn, index, Assoc::After),
        HostRef::Elem(v) => v.sticky_index(txn, index, Assoc::After),
    }?;
    s.id().map(|id| (id.client.get(), id.clock))
}

#[derive(Clone, Copy, Debug, Default)]
struct Stats {
    foreign: u32,
    foreign_pending: u32,
}

fn bold(on: bool) -> Attrs {
    Attrs::from([("b".into(), if on { Any::Bool(true) } else { Any::Null })])
}

fn put_value(a: &ArrayRef, txn: &mut TransactionMut, index: u32, val: Val, n: i64) {
    at("Array::insert");
    let f = n as f64;
    let num = |x: f64| In::Any(Any::Number(x));
    match val {
        Val::Num => {
            a.insert(txn, index, f);
        }
        Val::Str => {
            a.insert(txn, index, format!("s{}", n));
        }
        Val::ArrayPrelim => {
            a.insert(txn, index, ArrayPrelim::from([num(f), num(f + 0.5)]));
        }
        Val::MapPrelim => {
            a.insert(txn, index, MapPrelim::from([("v", num(f))]));
        }
        Val::Null => {
            a.insert(txn, index, Any::Null);
        }
        Val::Bool => {
            a.insert(txn, index, n % 2 == 0);
        }
        Val::BigInt => {
            a.insert(txn, index, Any::BigInt(n));
        }
        Val::Buffer => {
            a.insert(txn, index, Any::Buffer(vec![(n & 0xff) as u8, 0xff].into()));
        }
        Val::AnyArray => {
            a.insert(txn, index, Any::Array(vec![Any::Number(f), Any::from("x")].into()));
        }
        Val::AnyMap => {
            a.insert(txn, index, Any::Map(std::sync::Arc::new(std::collections::HashMap::from([("v".to_string(), Any::Number(f))]))));
        }
        Val::Undefined => {
            a.insert(txn, index, Any::Undefined);
        }
        Val::TextPrelim => {
            a.insert(txn, index, TextPrelim::new(format!("t\u{e9}{}", n)));
        }
        Val::XmlElem => {
            a.insert(txn, index, XmlElementPrelim::new("q", [XmlIn::from(XmlTextPrelim::new("u"))]));
        }
        Val::XmlText => {
            a.insert(txn, index, XmlTextPrelim::new(format!("x{}", n)));
        }
        Val::SubDoc => {
            a.insert(txn, index, sub_doc(n));
        }
    }
}

fn put_node<F: XmlFragment>(f: &F, txn: &mut TransactionMut, index: u32, node: Node, n: i64) {
    at("XmlFragment::insert");
    match node {
        Node::Elem => {
            f.insert(txn, index, XmlElementPrelim::empty(format!("e{}", n)));
        }
        Node::Text => {
            f.insert(txn, index, XmlTextPrelim::new(format!("t{}", n)));
        }
        Node::Tree => {
            f.insert(
                txn,
                index,
                XmlElementPrelim::new(format!("d{}", n), [XmlIn::from(XmlTextPrelim::new("u\u{e9}")), XmlIn::Element(XmlElementPrelim::empty("i"))]),
            );
        }
    }
}

fn text_op<X: Text>(t: &X, txn: &mut TransactionMut, op: &SOp, n: i64, ctx: &Ctx) -> Result<(), Failure> {
    match op {
        SOp::TIns { index, s, bold: false } => {
            at("Text::insert");
            t.insert(txn, *index, &s.text(n));
        }
        SOp::TIns { index, s, bold: true } => {
            at("Text::insert_with_attributes");
            t.insert_with_attributes(txn, *index, &s.text(n), bold(true));
        }
        SOp::TPush { s } => {
            at("Text::push");
            t.push(txn, &s.text(n));
        }
        SOp::TEmbed { index, kind } => {
            at("Text::insert_embed");
            match kind {
                Emb::Any => {
                    t.insert_embed(txn, *index, Any::Map(std::sync::Arc::new(std::collections::HashMap::from([("e".to_string(), Any::Number(n as f64))]))));
                }
                Emb::Map => {
                    t.insert_embed(txn, *index, MapPrelim::from([("v", In::Any(Any::Number(n as f64)))]));
                }
                Emb::Text => {
                    t.insert_embed(txn, *index, TextPrelim::new(format!("i{}", n)));
                }
            }
        }
        SOp::TFormat { index, len, on } => {
            // formatting never changes what the text says
            at("Text::diff");
            let before = shown(&t.diff(txn, YChange::identity));
            let len_before = t.len(txn);
            at("Text::format");
            // on: italic over the range (nests with bold runs); off: bold removed from the range
            let attrs = if *on { Attrs::from([("i".into(), Any::Bool(true))]) } else { bold(false) };
            t.format(txn, *index, *len, attrs);
            at("Text::diff");
            let after_diff = t.diff(txn, YChange::identity);
            let after = shown(&after_diff);
            if ctx.on("format_keeps_text") && (before.plain != after.plain || before.embeds != after.embeds || len_before != t.len(txn)) {
                return Err(disagree(
                    ctx,
                    "text read before and after Text::format",
                    "format_keeps_text",
                    ("Text::diff / Text::len before Text::format", J::obj(vec![("text", J::str(&before.plain)), ("embeds", J::Num(before.embeds as i64)), ("len", J::Num(len_before as i64))])),
                    ("Text::diff / Text::len after Text::format", J::obj(vec![("text", J::str(&after.plain)), ("embeds", J::Num(after.embeds as i64)), ("len", J::Num(t.len(txn) as i64))])),
                    &diff_j(&after_diff),
                ));
            }
        }
        SOp::TRemove { index, len } => {
            at("Text::remove_range");
            t.remove_range(txn, *index, *len);
        }
        _ => return Err(invalid("not a text operation".to_string())),
    }
    Ok(())
}

fn xml_op<F: XmlFragment>(f: &F, txn: &mut TransactionMut, op: &SOp, n: i64) -> Result<(), Failure> {
    let child = |txn: &TransactionMut, index: u32| -> Option<XmlOut> {
        at("XmlFragment::get");
        f.get(txn, index)
    };
    match op {
        SOp::XIns { index, node } => put_node(f, txn, *index, *node, n),
        SOp::XRemove { index, len } => {
            at("XmlFragment::remove_range");
            f.remove_range(txn, *index, *len);
        }
        SOp::XChildIns { index, node } => match child(txn, *index) {
            Some(XmlOut::Element(e)) => put_node(&e, txn, 0, *node, n),
            _ => return Err(invalid(format!("xml_child_insert: child {} is no element", index))),
        },
        SOp::XChildRemove { index } => match child(txn, *index) {
            Some(XmlOut::Element(e)) if e.len(txn) > 0 => {
                at("XmlFragment::remove_range (nested element)");
                e.remove_range(txn, 0, 1);
            }
            _ => return Err(invalid(format!("xml_child_remove: child {} is no element with children", index))),
        },
        SOp::XTextPush { index } => match child(txn, *index) {
            Some(XmlOut::Text(t)) => {
                at("Text::push (nested XmlText)");
                t.push(txn, "z\u{20ac}");
            }
            _ => return Err(invalid(format!("xml_text_push: child {} is no text", index))),
        },
        _ => return Err(invalid("not an XML operation".to_string())),
    }
    Ok(())
}

fn apply_op(case: &SCase, ri: usize, rep: &Rep, txn: &mut TransactionMut, op: &SOp, n: &mut i64, stats: &mut Stats, ctx: &Ctx) -> Result<(), Failure> {
    *n += 1;
    let k = *n;
    if let SOp::Foreign { index, content } = op {
        let (form, _) = json_support();
        if *content == Fc::Json3 && form.is_none() {
            return Err(invalid("this tree decodes neither form of ContentJSON".to_string()));
        }
        let len = host_len(&rep.host, txn);
        if *index > len {
            return Err(invalid(format!("foreign: index {} beyond the length {}", index, len)));
        }
        // a sticky index counts in the configured unit, ids in UTF-16 units: exact only when every
        // unit in front of the position is one byte long
        if let (Some(diff), OffsetKind::Bytes) = (host_diff(&rep.host, txn), case.kind()) {
            let mut pos = 0u32;
            for (bytes, units) in shown(&diff).atoms {
                if pos >= *index {
                    break;
                }
                if bytes != units {
                    return Err(invalid("foreign: a multi-byte character in front of the position (byte offsets are no clock offsets)".to_string()));
                }
                pos += bytes;
            }
        }
        let origin = if *index > 0 { id_at(&rep.host, txn, *index - 1) } else { None };
        let right = if *index < len { id_at(&rep.host, txn, *index) } else { None };
        if (*index > 0 && origin.is_none()) || (*index < len && right.is_none()) {
            return Err(invalid("foreign: no sticky index at the position".to_string()));
        }
        let parent = match host_branch(&rep.host).id() {
            BranchID::Nested(id) => Parent::Id(id.client.get(), id.clock),
            BranchID::Root(_) => Parent::Root(match case.host {
                HostKind::RootArray => ROOT_ARRAY,
                HostKind::RootText => ROOT_TEXT,
                _ => XML_ROOT,
            }),
        };
        let client = FOREIGN_CLIENTS[ri];
        at("ReadTxn::state_vector");
        let clock = txn.state_vector().get(&ClientID::new(client));
        let bytes = foreign_update(client, clock, origin, right, &parent, *content, k, form.unwrap_or(false));
        at("Update::decode_v1 (hand-written update)");
        let update = Update::decode_v1(&bytes).map_err(|e| invalid(format!("the hand-written update does not decode: {}", e)))?;
        at("TransactionMut::apply_update (hand-written update)");
        txn.apply_update(update).map_err(|e| invalid(format!("apply_update of the hand-written update failed: {}", e)))?;
        stats.foreign += 1;
        if txn.store().pending_update().is_some() {
            stats.foreign_pending += 1;
        }
        return Ok(());
    }
    match &rep.host {
        HostRef::Array(a) => match op {
            SOp::AIns { index, value } => put_value(a, txn, *index, *value, k),
            SOp::ARange { index, n: count } => {
                at("Array::insert_range");
                a.insert_range(txn, *index, (0..*count).map(|i| (k * 10 + i as i64) as f64));
            }
            SOp::APushBack => {
                at("Array::push_back");
                a.push_back(txn, k as f64);
            }
            SOp::APushFront => {
                at("Array::push_front");
                a.push_front(txn, k as f64);
            }
            SOp::ARemove { index, len } => {
                at("Array::remove_range");
                a.remove_range(txn, *index, *len);
            }
            SOp::ANested { index } => {
                at("Array::get");
                match a.get(txn, *index) {
                    Some(Out::YArray(v)) => {
                        at("Array::insert (nested array)");
                        v.insert(txn, 1.min(v.len(txn)), k as f64);
                    }
                    Some(Out::YMap(v)) => {
                        at("Map::insert (nested map)");
                        v.insert(txn, "w", k as f64);
                    }
                    Some(Out::YText(v)) => {
                        at("Text::insert (nested text)");
                        v.insert(txn, 1.min(v.len(txn)), "z\u{20ac}");
                    }
                    Some(Out::YXmlText(v)) => {
                        at("Text::insert (nested XmlText)");
                        v.insert(txn, 1.min(v.len(txn)), "z\u{20ac}");
                    }
                    Some(Out::YXmlElement(v)) => put_node(&v, txn, 0, Node::Elem, k),
                    _ => return Err(invalid(format!("nested_write: element {} is no shared type", index))),
                }
            }
            _ => return Err(invalid("not an array operation".to_string())),
        },
        HostRef::Text(t) => text_op(t, txn, op, k, ctx)?,
        HostRef::XText(t) => text_op(t, txn, op, k, ctx)?,
        HostRef::Frag(f) => xml_op(f, txn, op, k)?,
        HostRef::Elem(e) => xml_op(e, txn, op, k)?,
    }
    Ok(())
}

/// Reads the observed type (and its containers) through every path.
fn check_host<T: ReadTxn>(case: &SCase, rep: &Rep, txn: &T, ctx: &Ctx) -> Result<(), Failure> {
    let what = case.host.describe();
    let doc_member = |name: &str| -> Option<Any> {
        at("Doc::to_json");
        match rep.doc.to_json(txn) {
            Any::Map(all) => all.get(name).cloned(),
            _ => None,
        }
    };
    let mismatch = |clause: &str, a: (&str, J), b: (&str, J)| disagree(ctx, what, clause, a, b, &J::Null);
    match &rep.host {
        HostRef::Array(a) => {
            let path = match case.host {
                HostKind::RootArray => format!("$.{}", ROOT_ARRAY),
                HostKind::ArrayInArray => format!("$.{}[0]", HOST_ARRAY),
                _ => format!("$.{}.{}", HOST_MAP, NESTED_KEY),
            };
            check_array(a, txn, what, Some(&path), ctx, 1)?;
            if !ctx.on("container") {
                return Ok(());
            }
            at("ArrayRef::to_json");
            let own = a.to_json(txn);
            match &rep.outer {
                Outer::None => {
                    let member = doc_member(ROOT_ARRAY);
                    if member.as_ref() != Some(&own) {
                        return Err(mismatch("container", ("ArrayRef::to_json", any_j(&own)), ("Doc::to_json()[\"a\"]", member.as_ref().map(any_j).unwrap_or(J::str("(absent)")))));
                    }
                }
                Outer::Array(outer) => {
                    check_array(outer, txn, "root Array \"r\" that holds the observed array", Some(&format!("$.{}", HOST_ARRAY)), ctx, 0)?;
                    at("Array::get");
                    let first = outer.get(txn, 0);
                    if first != Some(Out::YArray(a.clone())) {
                        return Err(mismatch("container", ("the observed array", out_j(&Out::YArray(a.clone()))), ("Array::get(0) of the root Array \"r\"", opt_out_j(&first))));
                    }
                }
                Outer::Map(outer) => {
                    at("Map::get");
                    let got = outer.get(txn, NESTED_KEY);
                    if got != Some(Out::YArray(a.clone())) {
                        return Err(mismatch("container", ("the observed array", out_j(&Out::YArray(a.clone()))), ("Map::get(\"n\") of the root Map \"h\"", opt_out_j(&got))));
                    }
                    at("MapRef::to_json");
                    let member = match outer.to_json(txn) {
                        Any::Map(m) => m.get(NESTED_KEY).cloned(),
                        _ => None,
                    };
                    if member.as_ref() != Some(&own) {
                        return Err(mismatch("container", ("ArrayRef::to_json", any_j(&own)), ("MapRef::to_json()[\"n\"] of the root Map \"h\"", member.as_ref().map(any_j).unwrap_or(J::str("(absent)")))));
                    }
                }
                Outer::Frag(_) => {}
            }
            Ok(())
        }
        HostRef::Text(t) => {
            check_text_ref(t, txn, what, ctx)?;
            if ctx.on("container") {
                let own = t.get_string(txn);
                let member = doc_member(ROOT_TEXT);
                if member != Some(Any::from(own.clone())) {
                    return Err(mismatch("container", ("TextRef::get_string", J::str(&own)), ("Doc::to_json()[\"t\"]", member.as_ref().map(any_j).unwrap_or(J::str("(absent)")))));
                }
            }
            Ok(())
        }
        HostRef::XText(t) => {
            check_xml_text_ref(t, txn, what, ctx)?;
            if let Outer::Frag(f) = &rep.outer {
                check_fragment(f, txn, "root fragment \"x\" that holds the observed text", Some(&format!("$.{}", XML_ROOT)), ctx, 0)?;
            }
            Ok(())
        }
        HostRef::Frag(f) => {
            check_fragment(f, txn, what, Some(&format!("$.{}", XML_ROOT)), ctx, 2)?;
            if ctx.on("container") {
                let own = f.get_string(txn);
                let member = doc_member(XML_ROOT);
                if member != Some(Any::from(own.clone())) {
                    return Err(mismatch("container", ("XmlFragmentRef::get_string", J::str(&own)), ("Doc::to_json()[\"x\"]", member.as_ref().map(any_j).unwrap_or(J::str("(absent)")))));
                }
            }
            Ok(())
        }
        HostRef::Elem(e) => {
            check_element(e, txn, what, Some(&format!("$.{}[0]", XML_ROOT)), ctx, 1)?;
            if let Outer::Frag(f) = &rep.outer {
                check_fragment(f, txn, "root fragment \"x\" that holds the observed element", Some(&format!("$.{}", XML_ROOT)), ctx, 0)?;
            }
            Ok(())
        }
    }
}

fn check_host_mut(rep: &Rep, txn: &mut TransactionMut, with_snapshot: bool, what: &str, ctx: &Ctx) -> Result<(), Failure> {
    match &rep.host {
        HostRef::Text(t) => check_text_mut(t, txn, with_snapshot, what, ctx),
        HostRef::XText(t) => check_text_mut(t, txn, with_snapshot, what, ctx),
        _ => Ok(()),
    }
}

// ---------------------------------------------------------------------------
// execution
// ---------------------------------------------------------------------------

/// What a passing run tells about the final state (needed to extend the history). Read from the
/// real documents: it steers the enumeration, it is no expectation.
#[derive(Clone, Debug, Default)]
pub struct SInfo {
    len: [u32; 2],
    /// Text: the indexes that lie between two atoms (characters / embeds), in the configured unit.
    bounds: [Vec<u32>; 2],
    /// Array / XML: per element 0 = plain value, 1 = shared type, 2 = XML element, 3 = XML text.
    kinds: [Vec<u8>; 2],
    /// XML: number of children of an element child.
    sub: [Vec<u32>; 2],
    can_undo: bool,
    can_redo: bool,
    noop: bool,
    stats: Stats,
}

fn encoded<T: ReadTxn>(txn: &T) -> yrs::Snapshot {
    at("ReadTxn::snapshot");
    txn.snapshot()
}

fn describe_state<T: ReadTxn>(case: &SCase, rep: &Rep, txn: &T, ri: usize, info: &mut SInfo) {
    info.len[ri] = host_len(&rep.host, txn);
    match &rep.host {
        HostRef::Array(a) => {
            info.kinds[ri] = a.iter(txn).map(|v| if matches!(v, Out::Any(_) | Out::YDoc(_)) { 0 } else { 1 }).collect();
        }
        HostRef::Text(_) | HostRef::XText(_) => {
            let mut pos = 0u32;
            let mut b = vec![0u32];
            for (bytes, units) in shown(&host_diff(&rep.host, txn).unwrap_or_default()).atoms {
                pos += if case.utf16 { units } else { bytes };
                b.push(pos);
            }
            info.bounds[ri] = b;
        }
        HostRef::Frag(_) | HostRef::Elem(_) => {
            let kids: Vec<XmlOut> = match &rep.host {
                HostRef::Frag(f) => f.children(txn).collect(),
                HostRef::Elem(e) => e.children(txn).collect(),
                _ => Vec::new(),
            };
            info.kinds[ri] = kids.iter().map(|k| if matches!(k, XmlOut::Text(_)) { 3 } else { 2 }).collect();
            info.sub[ri] = kids.iter().map(|k| if let XmlOut::Element(e) = k { e.len(txn) } else { 0 }).collect();
        }
    }
}

/// Runs the steps. `check_all`: read after every operation and every step (replay); otherwise
/// only after the last operation (inside its transaction) and after the last step, the earlier
/// moments having been checked when the prefixes ran. On a disagreement returns the steps cut
/// after the failing operation.
fn execute(case: &SCase, check_all: bool) -> Result<SInfo, (Vec<SStep>, Failure)> {
    let mut done: Vec<SStep> = Vec::new();
    let kind = case.kind();
    let r = guarded(|| {
        let mut reps = setup(case)?;
        let mut n = 0i64;
        let mut stats = Stats::default();
        let mut noop = false;
        let (_, relay_ok) = json_support();
        let mut holds_json = [false; 2];
        let ctx_at = |step: usize, replica: usize, moment: String| Ctx { step, replica, moment, off: &case.off, kind };
        if check_all || case.steps.is_empty() {
            for (ri, rep) in reps.iter().enumerate() {
                let txn = rep.doc.transact();
                check_host(case, rep, &txn, &ctx_at(0, ri, "before the first step".to_string()))?;
            }
        }
        let count = case.steps.len();
        for (si, step) in case.steps.iter().enumerate() {
            let is_last = si + 1 == count;
            match step {
                SStep::Txn { replica, ops } => {
                    let rep = &reps[*replica];
                    done.push(SStep::Txn { replica: *replica, ops: Vec::new() });
                    {
                        at("Doc::transact_mut");
                        let mut txn = rep.doc.transact_mut();
                        for (oi, op) in ops.iter().enumerate() {
                            let last_op = is_last && oi + 1 == ops.len();
                            let before = if last_op { Some(encoded(&txn)) } else { None };
                            if let Some(SStep::Txn { ops: d, .. }) = done.last_mut() {
                                d.push(op.clone());
                            }
                            let moment = format!("inside the open transaction, after operation {} of the step", oi + 1);
                            let ctx = ctx_at(si, *replica, moment);
                            apply_op(case, *replica, rep, &mut txn, op, &mut n, &mut stats, &ctx)?;
                            if let SOp::Foreign { content: Fc::Json3, .. } = op {
                                holds_json[*replica] = true;
                            }
                            if let Some(b) = before {
                                noop = encoded(&txn) == b;
                            }
                            if check_all || last_op {
                                check_host(case, rep, &txn, &ctx)?;
                                check_host_mut(rep, &mut txn, last_op, case.host.describe(), &ctx)?;
                            }
                        }
                        at("TransactionMut::commit");
                        drop(txn);
                    }
                    if check_all || is_last {
                        at("Doc::transact");
                        let txn = rep.doc.transact();
                        check_host(case, rep, &txn, &ctx_at(si, *replica, "after the commit".to_string()))?;
                    }
                }
                SStep::Deliver { to, from } => {
                    done.push(step.clone());
                    if holds_json[*from] && !relay_ok {
                        return Err(invalid("delivery from a replica that holds ContentJSON: its own encoding does not decode on this tree".to_string()));
                    }
                    holds_json[*to] |= holds_json[*from];
                    let before = if is_last { Some(encoded(&reps[*to].doc.transact())) } else { None };
                    transfer(&reps[*from].doc, &reps[*to].doc)?;
                    let rep = &reps[*to];
                    let txn = rep.doc.transact();
                    if let Some(b) = before {
                        noop = encoded(&txn) == b;
                    }
                    if check_all || is_last {
                        check_host(case, rep, &txn, &ctx_at(si, *to, "after the delivery".to_string()))?;
                    }
                }
                SStep::Undo | SStep::Redo => {
                    done.push(step.clone());
                    let undo = matches!(step, SStep::Undo);
                    let before = if is_last { Some(encoded(&reps[0].doc.transact())) } else { None };
                    {
                        let mgr = reps[0].undo.as_mut().ok_or_else(|| invalid("undo / redo without an undo manager".to_string()))?;
                        if undo {
                            at("UndoManager::undo_blocking");
                            let _ = mgr.undo_blocking();
                        } else {
                            at("UndoManager::redo_blocking");
                            let _ = mgr.redo_blocking();
                        }
                    }
                    let rep = &reps[0];
                    let txn = rep.doc.transact();
                    if let Some(b) = before {
                        noop = encoded(&txn) == b;
                    }
                    if check_all || is_last {
                        let moment = if undo { "after undo" } else { "after redo" };
                        check_host(case, rep, &txn, &ctx_at(si, 0, moment.to_string()))?;
                    }
                }
            }
        }
        let mut info = SInfo { noop, stats, ..SInfo::default() };
        for (ri, rep) in reps.iter().enumerate() {
            let txn = rep.doc.transact();
            describe_state(case, rep, &txn, ri, &mut info);
        }
        if let Some(mgr) = reps[0].undo.as_ref() {
            info.can_undo = mgr.can_undo();
            info.can_redo = mgr.can_redo();
        }
        Ok(info)
    });
    r.map_err(|f| (done, f))
}

// ---------------------------------------------------------------------------
// enumeration
// ---------------------------------------------------------------------------

#[derive(Clone, Copy, Debug)]
struct Limits {
    core: usize,
    medium: usize,
    wide1: usize,
    wide2: usize,
}

impl Limits {
    fn allowed(&self, atoms: usize, medium: usize, wide: usize) -> bool {
        let limit = if wide == 0 && medium == 0 {
            self.core
        } else if wide == 0 {
            self.medium
        } else if wide == 1 && medium == 0 {
            self.wide1
        } else {
            self.wide2
        };
        atoms <= limit
    }
    fn deepest(&self) -> usize {
        self.core.max(self.medium).max(self.wide1).max(self.wide2)
    }
}

struct Stage {
    name: String,
    host: HostKind,
    replicas: usize,
    gc: bool,
    undo: bool,
    utf16: bool,
    /// Text: also indexes inside a multi-byte character / a surrogate pair.
    mid_char: bool,
    limits: Limits,
    per_txn: usize,
    /// Comparisons switched off in this configuration (next to `DEFAULT_OFF`).
    off: Vec<&'static str>,
}

fn weights(steps: &[SStep]) -> (usize, usize, usize) {
    let (mut a, mut m, mut w) = (0, 0, 0);
    for s in steps {
        a += s.atoms();
        if let SStep::Txn { ops, .. } = s {
            for op in ops {
                match op.class() {
                    1 => m += 1,
                    2 => w += 1,
                    _ => {}
                }
            }
        }
    }
    (a, m, w)
}

/// news[r]: replica r has something the other one has not received; json[r]: r holds ContentJSON.
fn news(steps: &[SStep]) -> ([bool; 2], [bool; 2]) {
    let mut n = [false; 2];
    let mut json = [false; 2];
    for s in steps {
        match s {
            SStep::Txn { replica, ops } => {
                n[*replica] = true;
                json[*replica] |= ops.iter().any(|o| matches!(o, SOp::Foreign { content: Fc::Json3, .. }));
            }
            SStep::Deliver { from, to } => {
                n[*from] = false;
                json[*to] |= json[*from];
            }
            SStep::Undo | SStep::Redo => n[0] = true,
        }
    }
    (n, json)
}

impl Stage {
    fn case(&self, target: &str, steps: Vec<SStep>) -> SCase {
        SCase {
            target: target.to_string(),
            variant: self.name.clone(),
            host: self.host,
            replicas: self.replicas,
            gc: self.gc,
            undo: self.undo,
            utf16: self.utf16,
            off: DEFAULT_OFF.iter().chain(self.off.iter()).map(|s| s.to_string()).collect(),
            steps,
        }
    }

    /// The operations replica `r` can make in the state `info` describes.
    fn ops(&self, info: &SInfo, r: usize) -> Vec<SOp> {
        let len = info.len[r];
        let fam = self.host.fam();
        let (json_form, _) = json_support();
        let mut out = Vec::new();
        let foreign = |out: &mut Vec<SOp>, index: u32| {
            for c in Fc::ALL.iter().copied().filter(|c| c.fits(fam)) {
                if c == Fc::Json3 && json_form.is_none() {
                    continue;
                }
                out.push(SOp::Foreign { index, content: c });
            }
        };
        match fam {
            Fam::Array => {
                for index in 0..=len {
                    for value in Val::ALL.iter().copied() {
                        out.push(SOp::AIns { index, value });
                    }
                    out.push(SOp::ARange { index, n: 3 });
                    out.push(SOp::ARange { index, n: 2 });
                    foreign(&mut out, index);
                }
                out.push(SOp::APushBack);
                out.push(SOp::APushFront);
                for index in 0..len {
                    for l in 1..=3.min(len - index) {
                        out.push(SOp::ARemove { index, len: l });
                    }
                    if info.kinds[r].get(index as usize) == Some(&1) {
                        out.push(SOp::ANested { index });
                    }
                }
            }
            Fam::Text => {
                let idxs: Vec<u32> = if self.mid_char { (0..=len).collect() } else { info.bounds[r].clone() };
                for &index in idxs.iter() {
                    for s in Str::ALL.iter().copied() {
                        out.push(SOp::TIns { index, s, bold: false });
                    }
                    out.push(SOp::TIns { index, s: Str::A2, bold: true });
                    for kind in Emb::ALL.iter().copied() {
                        out.push(SOp::TEmbed { index, kind });
                    }
                    foreign(&mut out, index);
                }
                out.push(SOp::TPush { s: Str::Mx });
                for (i, &index) in idxs.iter().enumerate() {
                    // up to three atoms (with `mid_char`: units)
                    for &end in idxs.iter().skip(i + 1).take(3) {
                        if end > len {
                            continue;
                        }
                        out.push(SOp::TRemove { index, len: end - index });
                        out.push(SOp::TFormat { index, len: end - index, on: true });
                        out.push(SOp::TFormat { index, len: end - index, on: false });
                    }
                }
            }
            Fam::Xml => {
                for index in 0..=len {
                    for node in Node::ALL.iter().copied() {
                        out.push(SOp::XIns { index, node });
                    }
                    foreign(&mut out, index);
                }
                for index in 0..len {
                    for l in 1..=2.min(len - index) {
                        out.push(SOp::XRemove { index, len: l });
                    }
                    match info.kinds[r].get(index as usize) {
                        Some(2) => {
                            out.push(SOp::XChildIns { index, node: Node::Elem });
                            out.push(SOp::XChildIns { index, node: Node::Text });
                            if info.sub[r].get(index as usize).copied().unwrap_or(0) > 0 {
                                out.push(SOp::XChildRemove { index });
                            }
                        }
                        Some(3) => out.push(SOp::XTextPush { index }),
                        _ => {}
                    }
                }
            }
        }
        out
    }

    /// The one-step extensions of a passing history.
    fn children(&self, steps: &[SStep], info: &SInfo) -> Vec<Vec<SStep>> {
        let (atoms, medium, wide) = weights(steps);
        let mut out: Vec<Vec<SStep>> = Vec::new();
        // steps of different replicas commute as long as nothing is delivered in between
        let after_second = matches!(steps.last(), Some(SStep::Txn { replica: 1, .. }));
        for r in 0..self.replicas {
            for op in self.ops(info, r) {
                let c = op.class();
                if !self.limits.allowed(atoms + 1, medium + (c == 1) as usize, wide + (c == 2) as usize) {
                    continue;
                }
                if let Some(SStep::Txn { replica, ops }) = steps.last() {
                    if *replica == r && ops.len() < self.per_txn {
                        let mut s = steps.to_vec();
                        if let Some(SStep::Txn { ops, .. }) = s.last_mut() {
                            ops.push(op.clone());
                        }
                        out.push(s);
                    }
                }
                if !(r == 0 && after_second) {
                    let mut s = steps.to_vec();
                    s.push(SStep::Txn { replica: r, ops: vec![op] });
                    out.push(s);
                }
            }
        }
        if self.limits.allowed(atoms + 1, medium, wide) {
            let extend = |step: SStep| -> Vec<SStep> {
                let mut s = steps.to_vec();
                s.push(step);
                s
            };
            if self.replicas == 2 {
                let (n, json) = news(steps);
                let (_, relay_ok) = json_support();
                for (to, from) in [(0usize, 1usize), (1, 0)] {
                    if n[from] && (relay_ok || !json[from]) {
                        out.push(extend(SStep::Deliver { to, from }));
                    }
                }
            }
            if self.undo && !after_second {
                if info.can_undo {
                    out.push(extend(SStep::Undo));
                }
                if info.can_redo {
                    out.push(extend(SStep::Redo));
                }
            }
        }
        out
    }
}

// ---------------------------------------------------------------------------
// search / replay
// ---------------------------------------------------------------------------

fn stages(target: &str, universe: u32) -> Vec<Stage> {
    let u = universe.clamp(2, 8) as usize;
    let d = |k: usize| u.saturating_sub(k).max(1);
    let lim = |core: usize, medium: usize, wide1: usize, wide2: usize| Limits {
        core,
        medium: medium.min(core),
        wide1: wide1.min(medium).min(core),
        wide2: wide2.min(wide1).min(medium).min(core),
    };
    let mut out: Vec<Stage> = Vec::new();
    let mut st = |host: HostKind, replicas: usize, gc: bool, undo: bool, utf16: bool, mid_char: bool, limits: Limits| {
        let name = format!(
            "{}_{}_replica{}_{}{}{}{}",
            host.name(),
            replicas,
            if replicas > 1 { "s" } else { "" },
            if gc { "gc" } else { "nogc" },
            if undo { "_undo" } else { "" },
            if utf16 { "_utf16" } else { "_bytes" },
            if mid_char { "_midchar" } else { "" }
        );
        // Half a surrogate pair removed / split off (OffsetKind::Utf16): the string goes to the left part
        // whole, the right part is a block of length 1 with an empty string; `Text::len`, `get_string`
        // and `diff` agree, `Branch::len` keeps counting the phantom unit.
        let off = if mid_char { vec!["text_block_len"] } else { Vec::new() };
        out.push(Stage { name, host, replicas, gc, undo, utf16, mid_char, limits, per_txn: 3, off });
    };
    use HostKind::*;
    // Depths by measurement (release profile, 16 jobs, universe 8 = the default): about 22 million cases,
    // 100 000 to 170 000 cases per second depending on the load of the machine.
    if matches!(target, "seqread" | "seq_array") {
        st(RootArray, 1, true, false, false, false, lim(d(3), d(4), d(5), d(5)));
        st(RootArray, 1, false, false, true, false, lim(d(4), d(5), d(5), d(6)));
        st(RootArray, 1, true, true, false, false, lim(d(4), d(5), d(5), d(6)));
        st(RootArray, 2, true, false, false, false, lim(d(4), d(5), d(5), d(6)));
        st(RootArray, 2, false, false, false, false, lim(d(4), d(5), d(5), d(6)));
        st(ArrayInArray, 1, true, false, false, false, lim(d(4), d(5), d(5), d(6)));
        st(ArrayInMap, 2, false, false, true, false, lim(d(4), d(5), d(5), d(6)));
    }
    if matches!(target, "seqread" | "seq_text") {
        for utf16 in [false, true] {
            st(RootText, 1, true, false, utf16, false, lim(d(3), d(4), d(5), d(5)));
            st(RootText, 1, false, false, utf16, false, lim(d(4), d(4), d(5), d(6)));
            st(RootText, 1, true, true, utf16, false, lim(d(4), d(4), d(5), d(6)));
            st(RootText, 2, true, false, utf16, false, lim(d(4), d(5), d(5), d(5)));
            // Indexes INSIDE a character are not enumerated unless VX_SEQ_MIDCHAR is set (`replay` accepts
            // them). Observed on the tree of 2026-09-26 (release build):
            // * OffsetKind::Bytes, insert inside a multi-byte character: `SplittableString::block_offset`
            //   subtracts the byte length of the whole character from the remaining offset (an overflow
            //   panic in a debug build); the insert lands elsewhere and after the commit `len` counts
            //   text that `get_string` / `diff` no longer show;
            // * OffsetKind::Utf16, half a surrogate pair removed: the string goes to the left part whole,
            //   the right part is a block of length 1 with an empty string (`Branch::len` keeps counting
            //   it), and `remove_range` of the other half panics ("Couldn't remove 1 elements").
            if std::env::var_os("VX_SEQ_MIDCHAR").is_some() {
                st(RootText, 1, true, false, utf16, true, lim(d(4), d(5), d(5), d(6)));
            }
        }
    }
    if matches!(target, "seqread" | "seq_xml") {
        st(Fragment, 1, true, false, false, false, lim(d(3), d(3), d(4), d(5)));
        st(Fragment, 1, false, false, true, false, lim(d(3), d(4), d(5), d(5)));
        st(Fragment, 1, true, true, false, false, lim(d(3), d(4), d(5), d(5)));
        st(Fragment, 2, true, false, false, false, lim(d(3), d(4), d(5), d(5)));
        st(Element, 1, true, false, false, false, lim(d(3), d(4), d(5), d(5)));
        st(Element, 2, false, false, true, false, lim(d(3), d(4), d(5), d(5)));
        st(XText, 1, true, false, false, false, lim(d(4), d(4), d(5), d(6)));
        st(XText, 1, true, false, true, false, lim(d(4), d(4), d(5), d(6)));
        st(XText, 2, false, false, true, false, lim(d(4), d(5), d(5), d(5)));
    }
    out
}

pub fn cmd_search(target: &str, universe: u32, jobs: usize, deadline: Option<Instant>) -> i32 {
    use std::sync::atomic::{AtomicU64, Ordering};
    let mut h = Hunt { jobs: jobs.max(1), deadline, cases: 0 };
    let mut stages = stages(target, universe);
    // debugging aids: VX_SEQ_ONLY=<substring of a stage name>, VX_SEQ_LIMITS=core,medium,wide1,wide2,
    // VX_SEQ_TIMES=1 prints cases and milliseconds per configuration on stderr
    if let Ok(only) = std::env::var("VX_SEQ_ONLY") {
        stages.retain(|s| s.name.contains(&only));
    }
    if let Ok(text) = std::env::var("VX_SEQ_LIMITS") {
        let v: Vec<usize> = text.split(',').filter_map(|x| x.trim().parse().ok()).collect();
        if v.len() == 4 {
            for s in stages.iter_mut() {
                s.limits = Limits { core: v[0], medium: v[1], wide1: v[2], wide2: v[3] };
            }
        }
    }
    let times = std::env::var_os("VX_SEQ_TIMES").is_some();
    let deepest = stages.iter().map(|s| s.limits.deepest()).max().unwrap_or(0);
    let mut frontiers: Vec<Vec<(Vec<SStep>, SInfo)>> = stages.iter().map(|_| Vec::new()).collect();
    let mut counts = vec![0u64; stages.len()];
    let mut millis = vec![0u128; stages.len()];
    let foreign = AtomicU64::new(0);
    let foreign_pending = AtomicU64::new(0);
    let dropped = AtomicU64::new(0);
    let noops = AtomicU64::new(0);
    let mut res: Result<(), Stop> = Ok(());
    // iterative deepening on the number of operations, all configurations in turn
    'deepening: for d in 0..=deepest {
        for (si, st) in stages.iter().enumerate() {
            if d > st.limits.deepest() {
                continue;
            }
            let started = Instant::now();
            let before = h.cases;
            let run_one = |tally: &mut Tally, steps: Vec<SStep>| -> Result<Option<(Vec<SStep>, SInfo)>, Stop> {
                if tally.expired() {
                    return Err(Stop::Timeout);
                }
                let case = st.case(target, steps);
                match execute(&case, false) {
                    Ok(info) => {
                        tally.cases += 1;
                        foreign.fetch_add(info.stats.foreign as u64, Ordering::Relaxed);
                        foreign_pending.fetch_add(info.stats.foreign_pending as u64, Ordering::Relaxed);
                        if info.noop {
                            noops.fetch_add(1, Ordering::Relaxed);
                            return Ok(None);
                        }
                        Ok(Some((case.steps, info)))
                    }
                    Err((_, f)) if is_invalid(&f) => {
                        dropped.fetch_add(1, Ordering::Relaxed);
                        Ok(None)
                    }
                    Err((done, failure)) => Err(Stop::Found(Box::new(Found { fields: case.fields(&done), failure }))),
                }
            };
            let produced: Result<Vec<Vec<(Vec<SStep>, SInfo)>>, Stop> = if d == 0 {
                h.par(1, &|tally: &mut Tally, _| Ok(run_one(tally, Vec::new())?.into_iter().collect()))
            } else {
                let fr = &frontiers[si];
                h.par(fr.len(), &|tally: &mut Tally, i: usize| {
                    let (steps, info) = &fr[i];
                    let mut kept = Vec::new();
                    for child in st.children(steps, info) {
                        if let Some(k) = run_one(tally, child)? {
                            kept.push(k);
                        }
                    }
                    Ok(kept)
                })
            };
            counts[si] += h.cases - before;
            millis[si] += started.elapsed().as_millis();
            match produced {
                Ok(lists) => frontiers[si] = lists.into_iter().flatten().collect(),
                Err(stop) => {
                    res = Err(stop);
                    break 'deepening;
                }
            }
        }
    }
    if times {
        for (si, st) in stages.iter().enumerate() {
            eprintln!("{:50} {:>9} cases {:>8} ms", st.name, counts[si], millis[si]);
        }
    }
    let per_stage = J::Obj(stages.iter().enumerate().map(|(si, st)| (st.name.clone(), J::Num(counts[si] as i64))).collect());
    let (json_form, relay_ok) = json_support();
    let extra = vec![
        ("cases_per_stage", per_stage),
        ("histories_without_effect_not_extended", J::Num(noops.load(Ordering::Relaxed) as i64)),
        ("foreign_blocks_applied", J::Num(foreign.load(Ordering::Relaxed) as i64)),
        ("foreign_blocks_left_pending", J::Num(foreign_pending.load(Ordering::Relaxed) as i64)),
        ("cases_dropped_as_not_executable", J::Num(dropped.load(Ordering::Relaxed) as i64)),
        ("comparisons_switched_off", J::Arr(DEFAULT_OFF.iter().map(|s| J::str(s)).collect())),
        (
            "content_json",
            J::str(match (json_form, relay_ok) {
                (None, _) => "not injected: this tree decodes neither count form",
                (Some(false), true) => "count written as Yjs writes it; relayed between replicas",
                (Some(false), false) => "count written as Yjs writes it; never relayed (the tree's own encoding of it does not decode)",
                (Some(true), true) => "count written one lower (this tree reads one string more than announced); relayed between replicas",
                (Some(true), false) => "count written one lower; never relayed (the tree's own encoding of it does not decode)",
            }),
        ),
    ];
    finish(target, universe, res, &h, extra)
}

/// `replay` of a witness of this module; `Err`: usage error (exit 2). Reads after every operation
/// and every step.
pub fn cmd_replay(j: &J) -> Result<i32, String> {
    let case = SCase::from_json(j)?;
    match execute(&case, true) {
        Ok(info) => Ok(finish_replay(Ok(J::obj(vec![
            ("all_read_paths_agree", J::Bool(true)),
            ("steps", J::Num(case.steps.len() as i64)),
            ("final_length", J::Arr(info.len.iter().take(case.replicas).map(|l| J::Num(*l as i64)).collect())),
            ("foreign_blocks_applied", J::num(info.stats.foreign)),
            ("foreign_blocks_left_pending", J::num(info.stats.foreign_pending)),
        ])))),
        Err((_, f)) if is_invalid(&f) => Err(f.why),
        Err((done, mut f)) => {
            if let J::Obj(_) = f.actual {
                f.actual.push_field("failed_after_steps", J::Arr(done.iter().map(|s| s.json()).collect()));
            }
            Ok(finish_replay(Err(f)))
        }
    }
}
