//! Global allocator of the witness finder: `System` plus per-thread
//! accounting that the `decoders` target switches on around every call into
//! the code under test (largest single request, sum of all requests). While
//! the accounting is on, a request above `HARD_CAP` is NOT served: it is
//! recorded, announced on stderr (`vx-pending alloc ..`, so that a supervising
//! process knows which case was running should the refusal end in
//! `handle_alloc_error` -> abort) and answered with null.

use std::alloc::{GlobalAlloc, Layout, System};
use std::cell::Cell;
use std::io::Write;

/// Requests above this size are refused while the accounting is on. (Far above
/// anything a decoder needs for inputs of at most some 100 KiB, and low enough
/// that an untrusted count which IS turned into a reservation does not cost a
/// few hundred MiB of page faults per case.)
pub const HARD_CAP: usize = 16 << 20;

pub struct Tracking;

thread_local! {
    static ON: Cell<bool> = const { Cell::new(false) };
    static MAX_REQ: Cell<usize> = const { Cell::new(0) };
    static TOTAL: Cell<usize> = const { Cell::new(0) };
    static REFUSED: Cell<usize> = const { Cell::new(0) };
    /// The case that is running on this thread (input number, entry number);
    /// printed with the `vx-pending` line.
    static CASE: Cell<(u64, u64)> = const { Cell::new((0, 0)) };
}

/// Decimal rendering without touching the heap.
fn push_num(buf: &mut [u8; 96], len: &mut usize, mut n: u64) {
    let mut tmp = [0u8; 20];
    let mut i = 0;
    loop {
        tmp[i] = b'0' + (n % 10) as u8;
        n /= 10;
        i += 1;
        if n == 0 {
            break;
        }
    }
    while i > 0 {
        i -= 1;
        if *len < buf.len() {
            buf[*len] = tmp[i];
            *len += 1;
        }
    }
}

fn push_str(buf: &mut [u8; 96], len: &mut usize, s: &str) {
    for b in s.bytes() {
        if *len < buf.len() {
            buf[*len] = b;
            *len += 1;
        }
    }
}

/// `vx-pending <kind> <input number> <entry number> <value>` on stderr, without allocating.
pub fn pending_line(kind: &str, input: u64, entry: u64, value: u64) {
    let mut buf = [0u8; 96];
    let mut len = 0;
    push_str(&mut buf, &mut len, "vx-pending ");
    push_str(&mut buf, &mut len, kind);
    push_str(&mut buf, &mut len, " ");
    push_num(&mut buf, &mut len, input);
    push_str(&mut buf, &mut len, " ");
    push_num(&mut buf, &mut len, entry);
    push_str(&mut buf, &mut len, " ");
    push_num(&mut buf, &mut len, value);
    push_str(&mut buf, &mut len, "\n");
    let _ = std::io::stderr().write_all(&buf[..len]);
}

/// `true`: serve the request.
#[inline]
fn note(size: usize) -> bool {
    ON.try_with(|on| {
        if !on.get() {
            return true;
        }
        let _ = MAX_REQ.try_with(|m| {
            if size > m.get() {
                m.set(size)
            }
        });
        let _ = TOTAL.try_with(|t| t.set(t.get().saturating_add(size)));
        if size > HARD_CAP {
            // nothing below may allocate: the accounting is switched off while reporting
            on.set(false);
            let _ = REFUSED.try_with(|r| r.set(r.get().max(size)));
            let (input, entry) = CASE.try_with(|c| c.get()).unwrap_or((0, 0));
            pending_line("alloc", input, entry, size as u64);
            on.set(true);
            return false;
        }
        true
    })
    .unwrap_or(true)
}

unsafe impl GlobalAlloc for Tracking {
    unsafe fn alloc(&self, layout: Layout) -> *mut u8 {
        if !note(layout.size()) {
            return std::ptr::null_mut();
        }
        System.alloc(layout)
    }
    unsafe fn alloc_zeroed(&self, layout: Layout) -> *mut u8 {
        if !note(layout.size()) {
            return std::ptr::null_mut();
        }
        System.alloc_zeroed(layout)
    }
    unsafe fn realloc(&self, ptr: *mut u8, layout: Layout, new_size: usize) -> *mut u8 {
        if !note(new_size) {
            return std::ptr::null_mut();
        }
        System.realloc(ptr, layout, new_size)
    }
    unsafe fn dealloc(&self, ptr: *mut u8, layout: Layout) {
        System.dealloc(ptr, layout)
    }
}

/// What the accounting saw between `start` and `stop`.
#[derive(Clone, Copy, Debug, Default)]
pub struct Usage {
    /// Largest single request (bytes).
    pub max_request: usize,
    /// Sum of all requests (bytes).
    pub total: usize,
    /// Largest request that was refused (above `HARD_CAP`), 0 if none.
    pub refused: usize,
}

/// Names the case that runs next on this thread (for the `vx-pending` lines).
pub fn set_case(input: u64, entry: u64) {
    CASE.with(|c| c.set((input, entry)));
}

pub fn start() {
    MAX_REQ.with(|m| m.set(0));
    TOTAL.with(|t| t.set(0));
    REFUSED.with(|r| r.set(0));
    ON.with(|on| on.set(true));
}

pub fn stop() -> Usage {
    ON.with(|on| on.set(false));
    Usage {
        max_request: MAX_REQ.with(|m| m.get()),
        total: TOTAL.with(|t| t.get()),
        refused: REFUSED.with(|r| r.get()),
    }
}
