// unit `updlog` -- the per-transaction update encoding and its emission condition.  Serves C07 (kernel).
//   yrs/src/transaction.rs   TransactionMut::{encode_update, encode_update_v1, encode_update_v2}
//   yrs/src/store.rs         StoreEvents::{emit_update_v1, emit_update_v2}
//   yrs/src/event.rs         UpdateEvent::{new_v1, new_v2}
//
// C07: "Update events form a complete, minimal replication log: ... A transaction that changes nothing emits nothing, and every
// transaction that changes content or deletes something emits exactly one update per encoding."
//
// FUNCTIONS UNDER CONTRACT (whole real bodies)
//   TransactionMut::encode_update     appends  blocks_between(store, after_state, before_state) ++ id_set_toks(delete_set):  there is a
//                                     listing d with `diff_listing(d, after_state, before_state)` and the log grows by
//                                     `emit_all(.., sections(store, d))` -- the contract of `Store::write_blocks_between` PROVED in
//                                     unit blockstore (stub, contract text cross-checked): a section for exactly the clients on which
//                                     the transaction's after-state is ahead of its before-state (`lemma_update_clients`), each
//                                     from its before-state clock to the END of its list (also blocks integrated behind a gap, the
//                                     gap as a Skip block: blockstore's `lemma_section_exact`) -- followed by the delete set.
//                                     requires `enc_ok`: lists_wf, items_ok, and the after-state lists only known clients with clocks
//                                     <= the end of the client's list (what write_blocks_between needs of its local side).
//   TransactionMut::encode_update_v1 / _v2   the bytes of a fresh v1 / v2 encoder after encode_update (`upd_v1` / `upd_v2`).
//   UpdateEvent::new_v1 / new_v2      the event carries exactly those bytes.
//   StoreEvents::emit_update_v1 / _v2 the ghost log `emitted` of the observer (one entry per `trigger`, delivered to every
//                                     subscriber) grows by EXACTLY ONE entry -- the v1 resp. v2 update of the transaction -- iff the
//                                     observer has subscribers and (the delete set has a point or after_state != before_state);
//                                     otherwise it does not change (zero updates); the other observer is untouched.
//                                     `lemma_emission`: under wf_map "delete set not empty" is "the delete set has a point".
//
// STAND-INS / WHAT IS ASSUMED
//   TransactionMut   reduced to `store`, `before_state`, `after_state`, `delete_set`.  `before_state()` / `after_state()` are
//                    stand-ins that return the fields: the real ones compute the vectors lazily (OnceCell::get_or_init) from the
//                    store and the insert set; their VALUES are inputs here (NOT decided: that before_state is the state at the
//                    start of the transaction).  `store()` (ReadTxn: `self.store.deref()`) returns the field.
//   StateVector `!=` the derived PartialEq (std HashMap equality: same keys with equal values) is written out as a trusted
//                    `eq` with `r == (self@ == other@)` (A3).  Unit sv has no contract for it (only partial_cmp).  NOTE: this is
//                    equality of the MAPS: an explicit zero entry makes two vectors differ.
//   Observer         reduced to the number of callbacks and a ghost log of the payloads handed to `trigger`; `has_subscribers` is
//                    the real body over that (`!self.callbacks.is_empty()` -> `self.callbacks != 0`, stand-in), `trigger(|cb| cb(txn,
//                    &update))` is the abstract `vx_trigger(txn, &update)` (SUB; the from= texts contain the real closures, so an edit
//                    of a closure makes the rule miss and the run UNDECIDED): it records `update.update` once.
//   EncoderV1/V2     opaque encoders with a ghost token log (trusted stand-ins for the byte level, which is C09's): `new()` starts
//                    with the empty log, `to_vec()` returns `bytes_v1(log)` / `bytes_v2(log)` (uninterpreted).
//   IdSet            the real struct over the shared ids_common vocabulary; `IdSet::is_empty` is a STUB of unit ids_lift's proved
//                    contract (cross-checked); `<IdSet as Encode>::encode` is the abstract token producer `encode_id_set` (as in upd).
//   Block store      types and spec vocabulary COPIED from unit blockstore (needed to state the cross-checked stub contract).
// TRUSTED: axiom_client_id_key_model (A4), StateVector::eq (A3), vx_trigger, EncoderV1/V2 methods, the stubs, uninterp
//   item_slice_toks / item_rest_ok / id_set_toks / bytes_v1 / bytes_v2, the trusted items of ids_common/base.rs + vx/prelude.rs.
#![allow(unused_imports, unused_variables, unused_mut, dead_code, unused_parens, unused_braces, unused_assignments)]
use vstd::prelude::*;
use std::collections::HashMap;
use std::collections::BTreeMap;
use core::ops::Range;
use vstd::std_specs::cmp::PartialEqSpec;
use vstd::std_specs::btree::*;

verus! {

/*@rules R1 R2(elem=(Range<u32>, T)) R3 R4 R5 R6 R9 R10
   SUB(from=Vec<UnsafeCell<Block>>;;to=Vec<Block>)
   SUB(from=HashMap<ClientID, ClientBlockList, BuildHasherDefault<ClientHasher>>;;to=HashMap<ClientID, ClientBlockList>)
   SUB(from=HashMap<ClientID, u32, BuildHasherDefault<ClientHasher>>;;to=HashMap<ClientID, u32>)
   SUB(from=self.delete_set.encode(encoder);;to=E::encode_id_set(&self.delete_set, encoder))
   SUB(from=.trigger(|callback| callback(txn, &update));;to=.vx_trigger(txn, &update))
   SUB(from=.trigger(|fun| fun(txn, &update));;to=.vx_trigger(txn, &update))
@*/

#[derive(PartialEq, Eq, PartialOrd, Ord, Structural, Clone, Copy, Hash)]
pub struct ClientID(pub u64);


pub mod vx_trusted {
    use vstd::prelude::*;
    use vstd::std_specs::hash::*;
    use super::ClientID;

    /// A4: the derived `Hash` and `Eq` of ClientID agree, i.e. ClientID is a lawful std::collections::HashMap key
    #[verifier::external_body] pub broadcast proof fn axiom_client_id_key_model()
        ensures
            #[trigger] obeys_key_model::<ClientID>(),
    {
    }
}
use vx_trusted::*;

// the interval layer (IdRanges<T>, Ent, covers, canon, ...): the SHARED vocabulary of the ids_* units
pub mod vx_base {
    use vstd::prelude::*;
    use core::ops::Range;
    use vstd::std_specs::cmp::PartialEqSpec;

/*@include units/ids_common/base.rs @*/
}
use vx_base::*;

broadcast use {axiom_client_id_key_model, vx_clone_axioms};

/*@include units/ids_common/spec.rs @*/

#[derive(Copy, Clone, PartialEq, Eq, Structural)]
/*@extract yrs/src/block.rs | - | struct ID @*/

#[derive(Copy, Clone, PartialEq, Eq, Structural)]
/*@extract yrs/src/block.rs | - | struct BlockRange @*/

/// opaque: everything of an Item except `id` and `len` (as in units upd / blockstore)
pub struct ItemRest(pub u64);

pub struct Item {
    pub id: ID,
    pub len: u32,
    pub vx_rest: ItemRest,
}

/*@extract yrs/src/block.rs | - | enum Block @*/

/*@extract yrs/src/block_store.rs | - | struct ClientBlockList | rules=SUB(from=inner:;;to=pub inner:) @*/

/*@extract yrs/src/ids.rs | - | struct IdMapInner @*/

/*@extract yrs/src/id_set.rs | - | type IdRange @*/

/*@extract yrs/src/id_set.rs | - | struct IdSet @*/

/*@extract yrs/src/block_store.rs | - | struct BlockStore | rules=SUB(from=clients:;;to=pub clients:) @*/

/*@extract yrs/src/state_vector.rs | - | struct StateVector | rules=SUB(from=#[derive(Default, Debug, Clone, PartialEq, Eq)];;to=) @*/

impl View for StateVector {
    type V = Map<ClientID, u32>;

    closed spec fn view(&self) -> Map<ClientID, u32> {
        self.0@
    }
}

impl<T: Merge> IdMapInner<T> {
    pub closed spec fn view(&self) -> Map<ClientID, Seq<Ent<T>>> {
        lift(self.0@)
    }
}

impl IdSet {
    pub open spec fn view(&self) -> Map<ClientID, Seq<Ent<()>>> {
        self.0@
    }
}

/// stand-in: the one field the functions of this unit read
pub struct Store {
    pub blocks: BlockStore,
}

// ---- vocabulary copied from unit blockstore (the stub contract of write_blocks_from must be textually that of unit blockstore)
impl Block {
    /// first clock
    pub open spec fn start(&self) -> int {
        match self {
            Block::Item(x) => x.id.clock as int,
            Block::GC(r) => r.clock as int,
            Block::Skip(r) => r.clock as int,
        }
    }

    /// number of clocks
    pub open spec fn blen(&self) -> int {
        match self {
            Block::Item(x) => x.len as int,
            Block::GC(r) => r.len as int,
            Block::Skip(r) => r.len as int,
        }
    }

    /// first clock after the block
    pub open spec fn next(&self) -> int {
        self.start() + self.blen()
    }

    pub open spec fn spec_client(&self) -> ClientID {
        match self {
            Block::Item(x) => x.id.client,
            Block::GC(r) => r.client,
            Block::Skip(r) => r.client,
        }
    }

    pub open spec fn skip(&self) -> bool {
        self is Skip
    }

    /// at least one clock, and the clocks fit in u32
    pub open spec fn ok(&self) -> bool {
        self.blen() >= 1 && self.next() <= u32::MAX
    }
}

pub open spec fn list_ok(s: Seq<Block>) -> bool {
    forall|i: int| 0 <= i < s.len() ==> (#[trigger] s[i]).ok()
}

/// every block starts where its predecessor ends (two index variables: `s[i + 1]` under the trigger `s[i]` loops)
pub open spec fn list_contiguous(s: Seq<Block>) -> bool {
    forall|i: int, j: int| 0 <= i && j == i + 1 && j < s.len() ==> (#[trigger] s[i]).next() == (#[trigger] s[j]).start()
}

/// REPRESENTATION INVARIANT of a client's block list
pub open spec fn list_wf(s: Seq<Block>) -> bool {
    s.len() >= 1 && list_ok(s) && list_contiguous(s)
}

/// the clock after the last block (`ClientBlockList::clock`)
pub open spec fn list_clock(s: Seq<Block>) -> int {
    if s.len() == 0 { 0 } else { s.last().next() }
}

/// per-client entry sequences
pub open spec fn lift<T>(m: Map<ClientID, IdRanges<T>>) -> Map<ClientID, Seq<Ent<T>>> {
    m.map_values(|r: IdRanges<T>| r@)
}

/// the point (client, clock) is a member
pub open spec fn has_pt<T>(m: Map<ClientID, Seq<Ent<T>>>, client: ClientID, clock: int) -> bool {
    m.contains_key(client) && covers(m[client], clock)
}

/// every per-client entry is canonical
pub open spec fn canon_all<T: Merge>(m: Map<ClientID, Seq<Ent<T>>>) -> bool {
    forall|c: ClientID| #[trigger] m.contains_key(c) ==> canon(m[c])
}

/// "empty IdRanges entries are never stored in the map"
pub open spec fn no_empty_entry<T>(m: Map<ClientID, Seq<Ent<T>>>) -> bool {
    forall|c: ClientID| #[trigger] m.contains_key(c) ==> m[c].len() > 0
}

/// representation invariant of an IdSet / IdMapInner (unit ids_lift)
pub open spec fn wf_map<T: Merge>(m: Map<ClientID, Seq<Ent<T>>>) -> bool {
    canon_all(m) && no_empty_entry(m)
}

pub open spec fn sv_get(m: Map<ClientID, u32>, c: ClientID) -> u32 {
    if m.contains_key(c) { m[c] } else { 0 }
}

/// the blocks of client `c` (empty if the client is unknown)
pub open spec fn blocks_of(m: Map<ClientID, ClientBlockList>, c: ClientID) -> Seq<Block> {
    if m.contains_key(c) { m[c].inner@ } else { Seq::empty() }
}

/// every block of the list belongs to client `c`
pub open spec fn list_client(s: Seq<Block>, c: ClientID) -> bool {
    forall|i: int| 0 <= i < s.len() ==> (#[trigger] s[i]).spec_client() == c
}

/// REPRESENTATION INVARIANT, lists: every stored list is list_wf and holds blocks of its own client
pub open spec fn lists_wf(m: Map<ClientID, ClientBlockList>) -> bool {
    forall|c: ClientID| #[trigger] m.contains_key(c) ==> list_wf(m[c].inner@) && list_client(m[c].inner@, c)
}





/// index of the block that contains `clock`
pub open spec fn block_idx(s: Seq<Block>, clock: int) -> int {
    choose|i: int| 0 <= i < s.len() && (#[trigger] s[i]).start() <= clock < s[i].next()
}

pub enum Tok {
    Info(u8),
    Len(u32),
    Var(int),
    Client(ClientID),
    /// a token of a kind this unit's code never writes itself: only inside the abstract `item_slice_toks`
    Other(int),
}

/// `lib0::VarInt`, reduced to "has an integer value" (the byte level is C09's)
pub trait VarInt: Sized + Copy {
    spec fn vx_val(&self) -> int;
}

impl VarInt for u32 {
    open spec fn vx_val(&self) -> int { *self as int }
}

impl VarInt for usize {
    open spec fn vx_val(&self) -> int { *self as int }
}

/// the tokens `ItemSlice::encode` appends for the sub-range [start ..= end] of `item` (unit header; abstract here, no axioms)
pub uninterp spec fn item_slice_toks(item: Item, start: u32, end: u32) -> Seq<Tok>;

/// the part of the precondition of unit header's `ItemSlice::encode` that speaks about dropped fields of Item (abstract)
pub uninterp spec fn item_rest_ok(item: Item) -> bool;

/// what is written for the block `b` from its `off`-th clock on (same layout as unit upd's block_tokens: what
/// `Update::decode_block` reads): Item -> the item slice [off ..= len-1] (abstract), GC -> Info(0) Len(len - off),
/// Skip -> Info(10) Var(len - off)
pub open spec fn block_tokens(b: Block, off: u32) -> Seq<Tok> {
    match b {
        Block::Item(x) => item_slice_toks(*x, off, (x.len - 1) as u32),
        Block::Skip(r) => seq![Tok::Info(10), Tok::Var(r.len - off)],
        Block::GC(r) => seq![Tok::Info(0), Tok::Len((r.len - off) as u32)],
    }
}


/// one client section of the written update: the client, the first written clock, the client's list and the index of
/// the first written block
pub struct Section {
    pub client: ClientID,
    pub clock: u32,
    pub blocks: Seq<Block>,
    pub start: int,
}

pub open spec fn max_u32(a: u32, b: u32) -> u32 {
    if a >= b { a } else { b }
}

/// the section of client `c` for a remote that has everything below clock `k`: written from max(k, first.start) on
pub open spec fn section_of(cl: Map<ClientID, ClientBlockList>, c: ClientID, k: u32) -> Section {
    let bs = cl[c].inner@;
    let clock = max_u32(k, bs[0].start() as u32);
    Section { client: c, clock, blocks: bs, start: block_idx(bs, clock as int) }
}

pub open spec fn sections(cl: Map<ClientID, ClientBlockList>, d: Seq<(ClientID, u32)>) -> Seq<Section> {
    Seq::new(d.len(), |i: int| section_of(cl, d[i].0, d[i].1))
}

/// number of blocks, client, first written clock (what `Update::decode` reads per client)
pub open spec fn emit_section_head(l: Seq<Tok>, e: Section) -> Seq<Tok> {
    l.push(Tok::Var(e.blocks.len() - e.start)).push(Tok::Client(e.client)).push(Tok::Var(e.clock as int))
}

/// ... the first block cut at the clock ...
pub open spec fn emit_section_first(l: Seq<Tok>, e: Section) -> Seq<Tok> {
    emit_section_head(l, e) + block_tokens(e.blocks[e.start], (e.clock - e.blocks[e.start].start()) as u32)
}

/// ... the blocks lo .. n-1 whole (lo = start + 1)
pub open spec fn emit_rest(l: Seq<Tok>, bs: Seq<Block>, lo: int, n: int) -> Seq<Tok>
    decreases n - lo,
{
    if n <= lo { l } else { emit_rest(l, bs, lo, n - 1) + block_tokens(bs[n - 1], 0) }
}

pub open spec fn emit_section(l: Seq<Tok>, e: Section) -> Seq<Tok> {
    emit_rest(emit_section_first(l, e), e.blocks, e.start + 1, e.blocks.len() as int)
}

pub open spec fn emit_sections(l: Seq<Tok>, es: Seq<Section>, n: int) -> Seq<Tok>
    decreases n,
{
    if n <= 0 { l } else { emit_section(emit_sections(l, es, n - 1), es[n - 1]) }
}

/// everything `write_blocks_from` appends
pub open spec fn emit_all(l: Seq<Tok>, es: Seq<Section>) -> Seq<Tok> {
    emit_sections(l.push(Tok::Var(es.len() as int)), es, es.len() as int)
}

/// `(c, k)` is in the diff of `local` against `remote`: the remote lists `c` but is behind (send from its clock on), or
/// the remote does not list `c` at all (send everything, from clock 0)
pub open spec fn diff_has(local: Map<ClientID, u32>, remote: Map<ClientID, u32>, c: ClientID, k: u32) -> bool {
    ||| remote.contains_key(c) && sv_get(local, c) > remote[c] && k == remote[c]
    ||| local.contains_key(c) && !remote.contains_key(c) && k == 0
}

/// `d` lists exactly the diff of the two state vectors, highest client id first (hence no client twice)
pub open spec fn diff_listing(d: Seq<(ClientID, u32)>, local: Map<ClientID, u32>, remote: Map<ClientID, u32>) -> bool {
    &&& forall|c: ClientID, k: u32| #[trigger] d.contains((c, k)) <==> diff_has(local, remote, c, k)
    &&& forall|i: int, j: int| 0 <= i < j < d.len() ==> (#[trigger] d[i]).0.0 > (#[trigger] d[j]).0.0
}

/// every stored Item satisfies the abstract precondition of `ItemSlice::encode` about dropped fields (see unit upd)
pub open spec fn items_ok(cl: Map<ClientID, ClientBlockList>) -> bool {
    forall|c: ClientID, i: int| #![trigger cl[c].inner@[i]] cl.contains_key(c) && 0 <= i < cl[c].inner@.len() && cl[c].inner@[i] is Item ==> item_rest_ok(*cl[c].inner@[i]->Item_0)
}

/// PRECONDITION of `write_blocks_between` on its local side: it lists only clients the store knows, with clocks that do not
/// exceed the end of the client's list (so that the first written clock lies in the list and `find_index` hits)
pub open spec fn local_ok(cl: Map<ClientID, ClientBlockList>, local: Map<ClientID, u32>) -> bool {
    forall|c: ClientID| #[trigger] local.contains_key(c) ==> cl.contains_key(c) && local[c] <= list_clock(cl[c].inner@)
}

// ---------------------------------------------------------------------------------------------
// the encoder (token log), the delete set tokens
// ---------------------------------------------------------------------------------------------
/// the tokens `<IdSet as Encode>::encode` appends (abstract here, no axioms; as in unit upd)
pub uninterp spec fn id_set_toks(ds: IdSet) -> Seq<Tok>;

pub trait Kernels: Sized {
    /// the tokens written so far
    spec fn log(&self) -> Seq<Tok>;

    /// `<IdSet as Encode>::encode(&self, encoder)` (id_set.rs)
    fn encode_id_set(ds: &IdSet, encoder: &mut Self)
        ensures
            final(encoder).log() == old(encoder).log() + id_set_toks(*ds),
    ;
}

pub trait Encoder: Sized + Kernels {
    /*@extract yrs/src/updates/encoder.rs | trait Encoder: Write | fn write_client
    @sig
        ensures final(self).log() == old(self).log().push(Tok::Client(client)),
    @*/

    /*@extract yrs/src/updates/encoder.rs | trait Encoder: Write | fn write_info
    @sig
        ensures final(self).log() == old(self).log().push(Tok::Info(info)),
    @*/

    /*@extract yrs/src/updates/encoder.rs | trait Encoder: Write | fn write_len
    @sig
        ensures final(self).log() == old(self).log().push(Tok::Len(len)),
    @*/

    /// `lib0::Write::write_var::<T: VarInt>` (supertrait `Write`; default body `num.write(self)` dropped)
    fn write_var<T: VarInt>(&mut self, num: T)
        ensures final(self).log() == old(self).log().push(Tok::Var(num.vx_val())),
    ;
}

/// the bytes a v1 / v2 encoder returns for a token log (the byte level is C09's; abstract here, no axioms)
pub uninterp spec fn bytes_v1(l: Seq<Tok>) -> Seq<u8>;
pub uninterp spec fn bytes_v2(l: Seq<Tok>) -> Seq<u8>;

/// opaque stand-ins for `EncoderV1` / `EncoderV2` (see the header comment)
pub struct EncoderV1 { pub vx_log: Ghost<Seq<Tok>> }
pub struct EncoderV2 { pub vx_log: Ghost<Seq<Tok>> }

impl Kernels for EncoderV1 {
    open spec fn log(&self) -> Seq<Tok> { self.vx_log@ }
    #[verifier::external_body] fn encode_id_set(ds: &IdSet, encoder: &mut Self) { unimplemented!() }
}

impl Encoder for EncoderV1 {
    #[verifier::external_body] fn write_client(&mut self, client: ClientID) { unimplemented!() }
    #[verifier::external_body] fn write_info(&mut self, info: u8) { unimplemented!() }
    #[verifier::external_body] fn write_len(&mut self, len: u32) { unimplemented!() }
    #[verifier::external_body] fn write_var<T: VarInt>(&mut self, num: T) { unimplemented!() }
}

impl Kernels for EncoderV2 {
    open spec fn log(&self) -> Seq<Tok> { self.vx_log@ }
    #[verifier::external_body] fn encode_id_set(ds: &IdSet, encoder: &mut Self) { unimplemented!() }
}

impl Encoder for EncoderV2 {
    #[verifier::external_body] fn write_client(&mut self, client: ClientID) { unimplemented!() }
    #[verifier::external_body] fn write_info(&mut self, info: u8) { unimplemented!() }
    #[verifier::external_body] fn write_len(&mut self, len: u32) { unimplemented!() }
    #[verifier::external_body] fn write_var<T: VarInt>(&mut self, num: T) { unimplemented!() }
}

impl EncoderV1 {
    /// `EncoderV1::new()`: nothing written yet
    #[verifier::external_body]
    pub fn new() -> (r: Self)
        ensures r.log() == Seq::<Tok>::empty(),
    { unimplemented!() }

    /// `Encoder::to_vec(self)`: the bytes of what has been written
    #[verifier::external_body]
    pub fn to_vec(self) -> (r: Vec<u8>)
        ensures r@ == bytes_v1(self.log()),
    { unimplemented!() }
}

impl EncoderV2 {
    #[verifier::external_body]
    pub fn new() -> (r: Self)
        ensures r.log() == Seq::<Tok>::empty(),
    { unimplemented!() }

    #[verifier::external_body]
    pub fn to_vec(self) -> (r: Vec<u8>)
        ensures r@ == bytes_v2(self.log()),
    { unimplemented!() }
}

// ---------------------------------------------------------------------------------------------
// stubs of proved callees
// ---------------------------------------------------------------------------------------------
impl Store {
    // proved in unit blockstore
    #[verifier::external_body]
    /*@extract yrs/src/store.rs | impl Store | fn write_blocks_between | label=Store.write_blocks_between
    @sig
        requires
            lists_wf(self.blocks.clients@),
            items_ok(self.blocks.clients@),
            local_ok(self.blocks.clients@, local_sv@),
        ensures
            exists|d: Seq<(ClientID, u32)>| diff_listing(d, local_sv@, sv@)
                && final(encoder).log() == emit_all(old(encoder).log(), sections(self.blocks.clients@, d)),
    @*/
}

impl IdSet {
    // proved in unit ids_lift
    #[verifier::external_body]
    /*@extract yrs/src/id_set.rs | impl IdSet | fn is_empty | label=IdSet.is_empty
    @ret r
    @sig
        requires wf_map(self@),
        ensures
            r == (self@.len() == 0),
            r <==> forall|c: ClientID, k: int| !has_pt(self@, c, k),
    @*/
}

/// A3: `#[derive(PartialEq)]` of StateVector, written out (std HashMap equality: "same keys with equal values"); `==` / `!=` on
/// StateVector go through vstd's PartialEqSpec, which is tied to the equality of the map views by the trusted axiom below
/// (unit sv has no contract for it)
impl PartialEq for StateVector {
    #[verifier::external_body]
    fn eq(&self, other: &StateVector) -> (r: bool)
    {
        self.0 == other.0
    }
}

#[verifier::external_body] pub proof fn axiom_state_vector_eq()
    ensures
        <StateVector as PartialEqSpec>::obeys_eq_spec(),
        forall|a: StateVector, b: StateVector| #[trigger] a.eq_spec(&b) == (a@ == b@),
{
}

// ---------------------------------------------------------------------------------------------
// the transaction, the events
// ---------------------------------------------------------------------------------------------
/// stand-in, see the header comment
pub struct TransactionMut {
    pub store: Store,
    pub before_state: StateVector,
    pub after_state: StateVector,
    pub delete_set: IdSet,
}

/// what a transaction must satisfy for its update to be encodable (the representation invariant of its store, unit blockstore,
/// and of its delete set, unit ids_lift)
pub open spec fn txn_ok(txn: &TransactionMut) -> bool {
    &&& enc_ok(txn)
    &&& wf_map(txn.delete_set@)
}

/// what `encode_update` needs: the lists of the store are well-formed, and the transaction's AFTER-state lists only clients the
/// store knows, with clocks that do not exceed the end of the client's list.  (The real after_state() is get_state_vector() --
/// first gaps <= list ends, domain = the store's clients -- raised by `set_max(client, clock_end)` over the transaction's insert
/// set, whose ranges are ids of blocks this transaction pushed into the store: an argument about the stand-in's input, not
/// decided here.)
pub open spec fn enc_ok(txn: &TransactionMut) -> bool {
    &&& lists_wf(txn.store.blocks.clients@)
    &&& items_ok(txn.store.blocks.clients@)
    &&& local_ok(txn.store.blocks.clients@, txn.after_state@)
}

/// the tokens of the transaction's update: the blocks at or above the before-state, then the delete set
pub open spec fn is_update_toks(txn: &TransactionMut, l: Seq<Tok>) -> bool {
    exists|d: Seq<(ClientID, u32)>| diff_listing(d, txn.after_state@, txn.before_state@)
        && l == emit_all(Seq::<Tok>::empty(), sections(txn.store.blocks.clients@, d)) + id_set_toks(txn.delete_set)
}

pub open spec fn upd_v1(txn: &TransactionMut, u: Seq<u8>) -> bool {
    exists|l: Seq<Tok>| is_update_toks(txn, l) && u == bytes_v1(l)
}

pub open spec fn upd_v2(txn: &TransactionMut, u: Seq<u8>) -> bool {
    exists|l: Seq<Tok>| is_update_toks(txn, l) && u == bytes_v2(l)
}

/// the transaction changed something: its delete set has a point, or its state vector moved
pub open spec fn txn_changed(txn: &TransactionMut) -> bool {
    (exists|c: ClientID, k: int| has_pt(txn.delete_set@, c, k)) || txn.after_state@ != txn.before_state@
}

impl TransactionMut {
    /// stand-in for `ReadTxn::store` (`self.store.deref()`)
    pub fn store(&self) -> (r: &Store)
        ensures r == &self.store,
    {
        &self.store
    }

    /// stand-in: the real one computes the vector lazily (see the header comment)
    pub fn before_state(&self) -> (r: &StateVector)
        ensures r == &self.before_state,
    {
        &self.before_state
    }

    /// stand-in: the real one computes the vector lazily (see the header comment)
    pub fn after_state(&self) -> (r: &StateVector)
        ensures r == &self.after_state,
    {
        &self.after_state
    }

    /*@extract yrs/src/transaction.rs | impl<'doc> TransactionMut<'doc> | fn encode_update | label=TransactionMut.encode_update
    @sig
        requires
            enc_ok(self),
        ensures
            // blocks_between(store, after_state, before_state) ++ the delete set: a section for exactly the clients on which the
            // after-state is ahead of the before-state, each from its before-state clock to the END of its list
            exists|d: Seq<(ClientID, u32)>| diff_listing(d, self.after_state@, self.before_state@)
                && final(encoder).log() == emit_all(old(encoder).log(), sections(self.store.blocks.clients@, d)) + id_set_toks(self.delete_set),
    @*/

    /*@extract yrs/src/transaction.rs | impl<'doc> TransactionMut<'doc> | fn encode_update_v1 | label=TransactionMut.encode_update_v1
    @ret r
    @sig
        requires
            enc_ok(self),
        ensures
            upd_v1(self, r@),
    @*/

    /*@extract yrs/src/transaction.rs | impl<'doc> TransactionMut<'doc> | fn encode_update_v2 | label=TransactionMut.encode_update_v2
    @ret r
    @sig
        requires
            enc_ok(self),
        ensures
            upd_v2(self, r@),
    @*/
}

/*@extract yrs/src/event.rs | - | struct UpdateEvent @*/

impl UpdateEvent {
    /*@extract yrs/src/event.rs | impl UpdateEvent | fn new_v1 | label=UpdateEvent.new_v1
    @ret r
    @sig
        requires
            enc_ok(txn),
        ensures
            upd_v1(txn, r.update@),
    @*/

    /*@extract yrs/src/event.rs | impl UpdateEvent | fn new_v2 | label=UpdateEvent.new_v2
    @ret r
    @sig
        requires
            enc_ok(txn),
        ensures
            upd_v2(txn, r.update@),
    @*/
}

/// stand-in for `Observer<UpdateFn>`, see the header comment
pub struct Observer {
    /// number of registered callbacks
    pub callbacks: usize,
    /// the payloads handed to the subscribers so far (one entry per `trigger`)
    pub emitted: Ghost<Seq<Seq<u8>>>,
}

impl Observer {
    /// real: `!self.callbacks.is_empty()`
    pub fn has_subscribers(&self) -> (r: bool)
        ensures r == (self.callbacks != 0),
    {
        self.callbacks != 0
    }

    /// `trigger(|callback| callback(txn, &update))`: every registered callback is called once with the update (abstract)
    #[verifier::external_body]
    pub fn vx_trigger(&mut self, txn: &TransactionMut, update: &UpdateEvent)
        ensures
            final(self).callbacks == old(self).callbacks,
            final(self).emitted@ == old(self).emitted@.push(update.update@),
    {
        unimplemented!()
    }
}

/// stand-in: the two observers this unit is about (DROPPED: transaction_cleanup_events, after_transaction_events,
/// subdocs_events, destroy_events, before_observer_calls_events)
pub struct StoreEvents {
    pub update_v1_events: Observer,
    pub update_v2_events: Observer,
}

impl StoreEvents {
    /*@extract yrs/src/store.rs | impl StoreEvents | fn emit_update_v1 | label=StoreEvents.emit_update_v1
    @sig
        requires
            txn_ok(txn),
        ensures
            // exactly one update -- the transaction's v1 update -- iff there is someone to tell and something to tell
            old(self).update_v1_events.callbacks != 0 && txn_changed(txn)
                ==> exists|u: Seq<u8>| upd_v1(txn, u) && final(self).update_v1_events.emitted@ == old(self).update_v1_events.emitted@.push(u),
            // nothing otherwise
            !(old(self).update_v1_events.callbacks != 0 && txn_changed(txn))
                ==> final(self).update_v1_events.emitted@ == old(self).update_v1_events.emitted@,
            final(self).update_v1_events.callbacks == old(self).update_v1_events.callbacks,
            final(self).update_v2_events == old(self).update_v2_events,
    @start
        proof { axiom_state_vector_eq(); }
    @*/

    /*@extract yrs/src/store.rs | impl StoreEvents | fn emit_update_v2 | label=StoreEvents.emit_update_v2
    @sig
        requires
            txn_ok(txn),
        ensures
            old(self).update_v2_events.callbacks != 0 && txn_changed(txn)
                ==> exists|u: Seq<u8>| upd_v2(txn, u) && final(self).update_v2_events.emitted@ == old(self).update_v2_events.emitted@.push(u),
            !(old(self).update_v2_events.callbacks != 0 && txn_changed(txn))
                ==> final(self).update_v2_events.emitted@ == old(self).update_v2_events.emitted@,
            final(self).update_v2_events.callbacks == old(self).update_v2_events.callbacks,
            final(self).update_v1_events == old(self).update_v1_events,
    @start
        proof { axiom_state_vector_eq(); }
    @*/
}

/// which clients an update has a section for: exactly those on which the after-state is ahead of the before-state (or that
/// only the after-state lists)
pub proof fn lemma_update_clients(d: Seq<(ClientID, u32)>, after: Map<ClientID, u32>, before: Map<ClientID, u32>, c: ClientID)
    requires
        diff_listing(d, after, before),
    ensures
        (exists|i: int| 0 <= i < d.len() && (#[trigger] d[i]).0 == c) <==>
            (before.contains_key(c) && sv_get(after, c) > before[c]) || (after.contains_key(c) && !before.contains_key(c)),
        forall|i: int| 0 <= i < d.len() && (#[trigger] d[i]).0 == c ==> d[i].1 == sv_get(before, c),
{
    if exists|i: int| 0 <= i < d.len() && (#[trigger] d[i]).0 == c {
        let i = choose|i: int| 0 <= i < d.len() && (#[trigger] d[i]).0 == c;
        assert(d.contains((c, d[i].1)));
        assert(diff_has(after, before, c, d[i].1));
    }
    if (before.contains_key(c) && sv_get(after, c) > before[c]) || (after.contains_key(c) && !before.contains_key(c)) {
        let k: u32 = if before.contains_key(c) { before[c] } else { 0 };
        assert(diff_has(after, before, c, k));
        assert(d.contains((c, k)));
        let i = choose|i: int| 0 <= i < d.len() && d[i] == (c, k);
        assert(d[i].0 == c);
    }
    assert forall|i: int| 0 <= i < d.len() && (#[trigger] d[i]).0 == c implies d[i].1 == sv_get(before, c) by {
        assert(d.contains((c, d[i].1)));
        assert(diff_has(after, before, c, d[i].1));
    }
}

/// C07, read as the property states it: with a subscriber, a transaction that changes nothing (no deleted id, state vector
/// unchanged) emits nothing, and one that deletes something or moves the state vector emits exactly one update
pub proof fn lemma_emission(txn: &TransactionMut)
    ensures
        !txn_changed(txn) <==> (forall|c: ClientID, k: int| !has_pt(txn.delete_set@, c, k)) && txn.after_state@ == txn.before_state@,
{
}

} // verus!
fn main() {}
