// unit `ids_insert` — IdRanges<T> (yrs/src/ids.rs, yrs/src/id_set.rs) under contract.  Serves C16.
// Function bodies are pulled from /repo on every run by vx/extract.py; this file holds only the
// abstraction (view / canonical form), the contracts and the proof hints.
#![allow(unused_imports, unused_variables, unused_mut, dead_code, unused_parens, unused_braces)]
use vstd::prelude::*;

verus! {

/*@rules R1 R2(elem=(Range<u32>, T)) R3 R4 R5 R6 R9 R10 @*/

pub mod vx_base {
    use vstd::prelude::*;
    use core::ops::Range;
    use vstd::std_specs::cmp::PartialEqSpec;

/*@include units/ids_common/base.rs @*/
}

pub mod vx_ids {
    use vstd::prelude::*;
    use core::ops::Range;
    use vstd::std_specs::cmp::PartialEqSpec;
    use super::vx_base::*;

    broadcast use vx_clone_axioms;

/*@include units/ids_common/spec.rs @*/

    impl<T: Merge> IdRanges<T> {
        /*@extract yrs/src/ids.rs | impl<T: Merge> IdRanges<T> | fn insert_with
        @sig
            requires canon(old(self)@), value.wf(),
            ensures
                canon(final(self)@),
                forall|c: int| covers(final(self)@, c) <==> covers(old(self)@, c) || inr(range, c),
                forall|c: int| covers(old(self)@, c) && !inr(range, c) ==> #[trigger] val_at(final(self)@, c).eq_spec(&val_at(old(self)@, c)),
                forall|c: int| !covers(old(self)@, c) && inr(range, c) ==> #[trigger] val_at(final(self)@, c).eq_spec(&value),
                forall|c: int| covers(old(self)@, c) && inr(range, c) ==> #[trigger] val_at(final(self)@, c).eq_spec(&val_at(old(self)@, c).merge_spec(&value)),
                @loop 1
            decreases self.0.len() - hi,
        @*/
    }

    impl IdRanges<()> {
        /*@extract yrs/src/ids.rs | impl IdRanges<()> | fn insert
        @sig
            requires canon(old(self)@),
            ensures
                canon(final(self)@),
                forall|c: int| covers(final(self)@, c) <==> covers(old(self)@, c) || inr(range, c),
        @*/
    }
}

} // verus!
fn main() {}
