// unit `ids_insert` — IdRanges<T> (yrs/src/ids.rs, yrs/src/id_set.rs) under contract.  Serves C16.
// Function bodies are pulled from /repo on every run by vx/extract.py; this file holds only the
// abstraction (view / canonical form), the contracts and the proof hints.
#![allow(unused_imports, unused_variables, unused_mut, dead_code, unused_parens, unused_braces)]
use vstd::prelude::*;

verus! {

/*@rules R1 R2(elem=(Range<u32>, T)) R3 R4 R5 R6 R9 R10 @*/

pub mod vx_base {
    use vstd::prelude::*;
    use core::ops::Range;
    use vstd::std_specs::cmp::PartialEqSpec;

/*@include units/ids_common/base.rs @*/
}

pub mod vx_ids {
    use vstd::prelude::*;
    use core::ops::Range;
    use vstd::std_specs::cmp::PartialEqSpec;
    use super::vx_base::*;

    broadcast use vx_clone_axioms;

/*@include units/ids_common/spec.rs @*/

    // ------------------------------------------------------------------------------------------
    // generic sequence lemmas: gap, sub-sequence, concatenation, splice
    // ------------------------------------------------------------------------------------------
    pub open spec fn umin(a: u32, b: u32) -> u32 { if a < b { a } else { b } }

    pub open spec fn umax(a: u32, b: u32) -> u32 { if a < b { b } else { a } }

    /// a clock in the gap in front of entry `k` (after entry `k - 1`) is not covered
    pub proof fn lemma_gap<T>(s: Seq<Ent<T>>, k: int, c: int)
        requires
            sorted(s),
            nonempty(s),
            0 <= k <= s.len(),
            k > 0 ==> s[k - 1].0.end <= c,
            k < s.len() ==> c < s[k].0.start,
        ensures
            !covers(s, c),
    {
        if covers(s, c) {
            let j = idx_of(s, c);
            assert(inr(s[j].0, c));
            if j < k - 1 {
                assert(s[j].0.end <= s[k - 1].0.start);
                assert(s[k - 1].0.start < s[k - 1].0.end);
            } else if j > k {
                assert(s[k].0.end <= s[j].0.start);
                assert(s[k].0.start < s[k].0.end);
            }
        }
    }

    /// every covered clock lies between the first start and the last end
    pub proof fn lemma_bounds<T>(s: Seq<Ent<T>>, c: int)
        requires
            sorted(s),
            nonempty(s),
            covers(s, c),
        ensures
            s.len() > 0,
            s[0].0.start <= c < s.last().0.end,
    {
        let j = idx_of(s, c);
        assert(inr(s[j].0, c));
        let n = s.len() - 1;
        if 0 < j {
            assert(s[0].0.end <= s[j].0.start);
            assert(s[0].0.start < s[0].0.end);
        }
        if j < n {
            assert(s[j].0.end <= s[n].0.start);
            assert(s[n].0.start < s[n].0.end);
        }
    }

    /// a contiguous piece of a canonical sequence
    pub proof fn lemma_sub<T: Merge>(s: Seq<Ent<T>>, a: int, b: int)
        requires
            canon(s),
            0 <= a <= b <= s.len(),
        ensures
            canon(s.subrange(a, b)),
            forall|c: int| #[trigger] covers(s.subrange(a, b), c) ==> covers(s, c) && val_at(s.subrange(a, b), c) == val_at(s, c),
            forall|c: int, k: int| a <= k < b && #[trigger] inr(s[k].0, c) ==> covers(s.subrange(a, b), c),
    {
        let t = s.subrange(a, b);
        assert forall|i: int| 0 <= i < t.len() implies (#[trigger] t[i]).0.start < t[i].0.end by {
            assert(t[i] == s[i + a]);
        }
        assert forall|i: int, j: int| 0 <= i < j < t.len() implies (#[trigger] t[i]).0.end <= (#[trigger] t[j]).0.start by {
            assert(t[i] == s[i + a] && t[j] == s[j + a]);
            assert(s[i + a].0.end <= s[j + a].0.start);
        }
        assert forall|i: int| 0 <= i < t.len() implies (#[trigger] t[i]).1.wf() by {
            assert(t[i] == s[i + a]);
        }
        assert forall|i: int, j: int| 0 <= i && j == i + 1 && j < t.len() && (#[trigger] t[i]).0.end == (#[trigger] t[j]).0.start implies !t[i].1.eq_spec(&t[j].1) by {
            assert(t[i] == s[i + a] && t[j] == s[j + a]);
            assert(s[i + a].0.end == s[j + a].0.start);
        }
        assert forall|c: int| #[trigger] covers(t, c) implies covers(s, c) && val_at(t, c) == val_at(s, c) by {
            let i = idx_of(t, c);
            assert(inr(t[i].0, c));
            assert(t[i] == s[i + a]);
            assert(inr(s[i + a].0, c));
            lemma_idx_unique(s, i + a, c);
            lemma_idx_unique(t, i, c);
        }
        assert forall|c: int, k: int| a <= k < b && #[trigger] inr(s[k].0, c) implies covers(t, c) by {
            assert(t[k - a] == s[k]);
            assert(inr(t[k - a].0, c));
        }
    }

    /// concatenation of two canonical sequences, the first entirely in front of the second
    pub proof fn lemma_concat<T: Merge>(a: Seq<Ent<T>>, b: Seq<Ent<T>>)
        requires
            canon(a),
            canon(b),
            a.len() > 0 && b.len() > 0 ==> a.last().0.end <= b[0].0.start,
            a.len() > 0 && b.len() > 0 && a.last().0.end == b[0].0.start ==> !a.last().1.eq_spec(&b[0].1),
        ensures
            canon(a + b),
            forall|c: int| #[trigger] covers(a + b, c) <==> covers(a, c) || covers(b, c),
            forall|c: int| covers(a, c) ==> #[trigger] val_at(a + b, c) == val_at(a, c),
            forall|c: int| covers(b, c) ==> #[trigger] val_at(a + b, c) == val_at(b, c),
    {
        let t = a + b;
        let n = a.len() as int;
        assert forall|i: int| 0 <= i < t.len() implies (#[trigger] t[i]).0.start < t[i].0.end && t[i].1.wf() by {
            if i < n { assert(t[i] == a[i]); } else { assert(t[i] == b[i - n]); }
        }
        assert forall|i: int, j: int| 0 <= i < j < t.len() implies (#[trigger] t[i]).0.end <= (#[trigger] t[j]).0.start by {
            if j < n {
                assert(t[i] == a[i] && t[j] == a[j]);
            } else if i >= n {
                assert(t[i] == b[i - n] && t[j] == b[j - n]);
            } else {
                assert(t[i] == a[i] && t[j] == b[j - n]);
                if i < n - 1 {
                    assert(a[i].0.end <= a[n - 1].0.start);
                    assert(a[n - 1].0.start < a[n - 1].0.end);
                }
                if j - n > 0 {
                    assert(b[0].0.end <= b[j - n].0.start);
                    assert(b[0].0.start < b[0].0.end);
                }
            }
        }
        assert forall|i: int, j: int| 0 <= i && j == i + 1 && j < t.len() && (#[trigger] t[i]).0.end == (#[trigger] t[j]).0.start implies !t[i].1.eq_spec(&t[j].1) by {
            if j < n {
                assert(t[i] == a[i] && t[j] == a[j]);
            } else if i >= n {
                assert(t[i] == b[i - n] && t[j] == b[j - n]);
            } else {
                assert(t[i] == a[n - 1] && t[j] == b[0]);
            }
        }
        assert forall|c: int| #[trigger] covers(t, c) <==> covers(a, c) || covers(b, c) by {
            if covers(t, c) {
                let i = idx_of(t, c);
                assert(inr(t[i].0, c));
                if i < n { assert(inr(a[i].0, c)); } else { assert(inr(b[i - n].0, c)); }
            }
            if covers(a, c) {
                let i = idx_of(a, c);
                assert(inr(a[i].0, c));
                assert(t[i] == a[i]);
                assert(inr(t[i].0, c));
            }
            if covers(b, c) {
                let i = idx_of(b, c);
                assert(inr(b[i].0, c));
                assert(t[i + n] == b[i]);
                assert(inr(t[i + n].0, c));
            }
        }
        assert forall|c: int| covers(a, c) implies #[trigger] val_at(t, c) == val_at(a, c) by {
            let i = idx_of(a, c);
            assert(inr(a[i].0, c));
            assert(t[i] == a[i]);
            lemma_idx_unique(t, i, c);
        }
        assert forall|c: int| covers(b, c) implies #[trigger] val_at(t, c) == val_at(b, c) by {
            let i = idx_of(b, c);
            assert(inr(b[i].0, c));
            assert(t[i + n] == b[i]);
            lemma_idx_unique(t, i + n, c);
        }
    }

    /// entries `[lo, hi)` of `o` replaced by `r`
    pub open spec fn splice<T>(o: Seq<Ent<T>>, lo: int, hi: int, r: Seq<Ent<T>>) -> Seq<Ent<T>> {
        o.subrange(0, lo) + r + o.subrange(hi, o.len() as int)
    }

    /// Splice lemma: `r` is canonical, lives inside the window `[wa, wb)`, the entries before `lo` end at or
    /// before `wa`, the entries from `hi` on start at or after `wb`, the replaced entries lie inside the window,
    /// and the two seams are not coalescable.
    pub proof fn lemma_splice<T: Merge>(o: Seq<Ent<T>>, lo: int, hi: int, r: Seq<Ent<T>>, wa: int, wb: int)
        requires
            canon(o),
            canon(r),
            0 <= lo <= hi <= o.len(),
            r.len() > 0,
            forall|c: int| #[trigger] covers(r, c) ==> wa <= c < wb,
            lo > 0 ==> o[lo - 1].0.end <= wa,
            hi < o.len() ==> wb <= o[hi].0.start,
            lo < hi ==> wa <= o[lo].0.start && o[hi - 1].0.end <= wb,
            lo > 0 && o[lo - 1].0.end == r[0].0.start ==> !o[lo - 1].1.eq_spec(&r[0].1),
            hi < o.len() && r.last().0.end == o[hi].0.start ==> !r.last().1.eq_spec(&o[hi].1),
        ensures
            canon(splice(o, lo, hi, r)),
            forall|c: int| #[trigger] covers(splice(o, lo, hi, r), c) <==> covers(r, c) || (covers(o, c) && !(wa <= c < wb)),
            forall|c: int| covers(r, c) ==> #[trigger] val_at(splice(o, lo, hi, r), c) == val_at(r, c),
            forall|c: int| covers(o, c) && !(wa <= c < wb) ==> #[trigger] val_at(splice(o, lo, hi, r), c) == val_at(o, c),
    {
        let n = o.len() as int;
        let pre = o.subrange(0, lo);
        let suf = o.subrange(hi, n);
        let res = splice(o, lo, hi, r);
        lemma_sub(o, 0, lo);
        lemma_sub(o, hi, n);
        // r's own extent lies inside the window
        assert(inr(r[0].0, r[0].0.start as int));
        assert(covers(r, r[0].0.start as int));
        assert(inr(r.last().0, r.last().0.end as int - 1));
        assert(covers(r, r.last().0.end as int - 1));
        assert(wa <= r[0].0.start && r.last().0.end <= wb && wa < wb);
        if lo > 0 {
            assert(pre.last() == o[lo - 1]);
        }
        lemma_concat(pre, r);
        let pr = pre + r;
        assert(pr.last() == r.last());
        if hi < n {
            assert(suf[0] == o[hi]);
        }
        lemma_concat(pr, suf);
        assert(res == pr + suf);
        // which clocks of `o` survive in pre / suf
        assert forall|c: int| covers(pre, c) implies c < wa by {
            lemma_bounds(pre, c);
        }
        assert forall|c: int| covers(suf, c) implies wb <= c by {
            lemma_bounds(suf, c);
        }
        assert forall|c: int| covers(o, c) && !(wa <= c < wb) implies covers(pre, c) || covers(suf, c) by {
            let k = idx_of(o, c);
            assert(inr(o[k].0, c));
            if lo <= k < hi {
                if lo < k { assert(o[lo].0.end <= o[k].0.start); assert(o[lo].0.start < o[lo].0.end); }
                if k < hi - 1 { assert(o[k].0.end <= o[hi - 1].0.start); assert(o[hi - 1].0.start < o[hi - 1].0.end); }
                assert(false);
            }
        }
        assert forall|c: int| #[trigger] covers(res, c) <==> covers(r, c) || (covers(o, c) && !(wa <= c < wb)) by {
            assert(covers(pr, c) <==> covers(pre, c) || covers(r, c));
        }
        assert forall|c: int| covers(r, c) implies #[trigger] val_at(res, c) == val_at(r, c) by {
            assert(covers(pr, c));
            assert(val_at(pr, c) == val_at(r, c));
        }
        assert forall|c: int| covers(o, c) && !(wa <= c < wb) implies #[trigger] val_at(res, c) == val_at(o, c) by {
            if covers(pre, c) {
                assert(covers(pr, c));
                assert(val_at(pr, c) == val_at(pre, c));
            } else {
                assert(covers(suf, c));
            }
        }
    }

    /// the contract of `insert_with` as a predicate on (old view, new view)
    pub open spec fn ins_post<T: Merge>(o: Seq<Ent<T>>, range: Range<u32>, value: T, res: Seq<Ent<T>>) -> bool {
        &&& canon(res)
        &&& forall|c: int| covers(res, c) <==> covers(o, c) || inr(range, c)
        &&& forall|c: int| covers(o, c) && !inr(range, c) ==> #[trigger] val_at(res, c).eq_spec(&val_at(o, c))
        &&& forall|c: int| !covers(o, c) && inr(range, c) ==> #[trigger] val_at(res, c).eq_spec(&value)
        &&& forall|c: int| covers(o, c) && inr(range, c) ==> #[trigger] val_at(res, c).eq_spec(&val_at(o, c).merge_spec(&value))
    }

    impl<T: Merge> IdRanges<T> {
        /*@extract yrs/src/ids.rs | impl<T: Merge> IdRanges<T> | fn insert_with
        @sig
            requires canon(old(self)@), value.wf(),
            ensures
                canon(final(self)@),
                forall|c: int| covers(final(self)@, c) <==> covers(old(self)@, c) || inr(range, c),
                forall|c: int| covers(old(self)@, c) && !inr(range, c) ==> #[trigger] val_at(final(self)@, c).eq_spec(&val_at(old(self)@, c)),
                forall|c: int| !covers(old(self)@, c) && inr(range, c) ==> #[trigger] val_at(final(self)@, c).eq_spec(&value),
                forall|c: int| covers(old(self)@, c) && inr(range, c) ==> #[trigger] val_at(final(self)@, c).eq_spec(&val_at(old(self)@, c).merge_spec(&value)),
                @loop 1
            decreases self.0.len() - hi,
        @*/
    }

    impl IdRanges<()> {
        /*@extract yrs/src/ids.rs | impl IdRanges<()> | fn insert
        @sig
            requires canon(old(self)@),
            ensures
                canon(final(self)@),
                forall|c: int| covers(final(self)@, c) <==> covers(old(self)@, c) || inr(range, c),
        @*/
    }
}

} // verus!
fn main() {}
