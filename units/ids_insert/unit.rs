// unit `ids_insert` — IdRanges<T> (yrs/src/ids.rs, yrs/src/id_set.rs) under contract.  Serves C16.
// Function bodies are pulled from /repo on every run by vx/extract.py; this file holds only the
// abstraction (view / canonical form), the contracts and the proof hints.
#![allow(unused_imports, unused_variables, unused_mut, dead_code, unused_parens, unused_braces)]
use vstd::prelude::*;

verus! {

/*@rules R1 R2(elem=(Range<u32>, T)) R3 R4 R5 R6 R9 R10 @*/

pub mod vx_base {
    use vstd::prelude::*;
    use core::ops::Range;
    use vstd::std_specs::cmp::PartialEqSpec;

/*@include units/ids_common/base.rs @*/
}

pub mod vx_ids {
    use vstd::prelude::*;
    use core::ops::Range;
    use vstd::std_specs::cmp::PartialEqSpec;
    use super::vx_base::*;

    broadcast use vx_clone_axioms;

/*@include units/ids_common/spec.rs @*/

    // ------------------------------------------------------------------------------------------
    // generic sequence lemmas: gap, sub-sequence, concatenation, splice
    // ------------------------------------------------------------------------------------------
    pub open spec fn umin(a: u32, b: u32) -> u32 { if a < b { a } else { b } }

    pub open spec fn umax(a: u32, b: u32) -> u32 { if a < b { b } else { a } }

    /// a clock in the gap in front of entry `k` (after entry `k - 1`) is not covered
    pub proof fn lemma_gap<T>(s: Seq<Ent<T>>, k: int, c: int)
        requires
            sorted(s),
            nonempty(s),
            0 <= k <= s.len(),
            k > 0 ==> s[k - 1].0.end <= c,
            k < s.len() ==> c < s[k].0.start,
        ensures
            !covers(s, c),
    {
        if covers(s, c) {
            let j = idx_of(s, c);
            assert(inr(s[j].0, c));
            if j < k - 1 {
                assert(s[j].0.end <= s[k - 1].0.start);
                assert(s[k - 1].0.start < s[k - 1].0.end);
            } else if j > k {
                assert(s[k].0.end <= s[j].0.start);
                assert(s[k].0.start < s[k].0.end);
            }
        }
    }

    /// every covered clock lies between the first start and the last end
    pub proof fn lemma_bounds<T>(s: Seq<Ent<T>>, c: int)
        requires
            sorted(s),
            nonempty(s),
            covers(s, c),
        ensures
            s.len() > 0,
            s[0].0.start <= c < s.last().0.end,
    {
        let j = idx_of(s, c);
        assert(inr(s[j].0, c));
        let n = s.len() - 1;
        if 0 < j {
            assert(s[0].0.end <= s[j].0.start);
            assert(s[0].0.start < s[0].0.end);
        }
        if j < n {
            assert(s[j].0.end <= s[n].0.start);
            assert(s[n].0.start < s[n].0.end);
        }
    }

    /// a contiguous piece of a canonical sequence
    pub proof fn lemma_sub<T: Merge>(s: Seq<Ent<T>>, a: int, b: int)
        requires
            canon(s),
            0 <= a <= b <= s.len(),
        ensures
            canon(s.subrange(a, b)),
            forall|c: int| #[trigger] covers(s.subrange(a, b), c) ==> covers(s, c) && val_at(s.subrange(a, b), c) == val_at(s, c),
            forall|c: int, k: int| a <= k < b && #[trigger] inr(s[k].0, c) ==> covers(s.subrange(a, b), c),
    {
        let t = s.subrange(a, b);
        assert forall|i: int| 0 <= i < t.len() implies (#[trigger] t[i]).0.start < t[i].0.end by {
            assert(t[i] == s[i + a]);
        }
        assert forall|i: int, j: int| 0 <= i < j < t.len() implies (#[trigger] t[i]).0.end <= (#[trigger] t[j]).0.start by {
            assert(t[i] == s[i + a] && t[j] == s[j + a]);
            assert(s[i + a].0.end <= s[j + a].0.start);
        }
        assert forall|i: int| 0 <= i < t.len() implies (#[trigger] t[i]).1.wf() by {
            assert(t[i] == s[i + a]);
        }
        assert forall|i: int, j: int| 0 <= i && j == i + 1 && j < t.len() && (#[trigger] t[i]).0.end == (#[trigger] t[j]).0.start implies !t[i].1.eq_spec(&t[j].1) by {
            assert(t[i] == s[i + a] && t[j] == s[j + a]);
            assert(s[i + a].0.end == s[j + a].0.start);
        }
        assert forall|c: int| #[trigger] covers(t, c) implies covers(s, c) && val_at(t, c) == val_at(s, c) by {
            let i = idx_of(t, c);
            assert(inr(t[i].0, c));
            assert(t[i] == s[i + a]);
            assert(inr(s[i + a].0, c));
            lemma_idx_unique(s, i + a, c);
            lemma_idx_unique(t, i, c);
        }
        assert forall|c: int, k: int| a <= k < b && #[trigger] inr(s[k].0, c) implies covers(t, c) by {
            assert(t[k - a] == s[k]);
            assert(inr(t[k - a].0, c));
        }
    }

    /// concatenation, part 1: order
    pub proof fn lemma_concat_sorted<T>(a: Seq<Ent<T>>, b: Seq<Ent<T>>)
        requires
            sorted(a),
            nonempty(a),
            sorted(b),
            nonempty(b),
            a.len() > 0 && b.len() > 0 ==> a.last().0.end <= b[0].0.start,
        ensures
            sorted(a + b),
            nonempty(a + b),
    {
        let t = a + b;
        let n = a.len() as int;
        assert forall|i: int| 0 <= i < t.len() implies (#[trigger] t[i]).0.start < t[i].0.end by {
            if i < n { assert(t[i] == a[i]); } else { assert(t[i] == b[i - n]); }
        }
        assert forall|i: int, j: int| 0 <= i < j < t.len() implies (#[trigger] t[i]).0.end <= (#[trigger] t[j]).0.start by {
            if j < n {
                assert(t[i] == a[i] && t[j] == a[j]);
            } else if i >= n {
                assert(t[i] == b[i - n] && t[j] == b[j - n]);
            } else {
                assert(t[i] == a[i] && t[j] == b[j - n]);
                if i < n - 1 {
                    assert(a[i].0.end <= a[n - 1].0.start);
                    assert(a[n - 1].0.start < a[n - 1].0.end);
                }
                if j - n > 0 {
                    assert(b[0].0.end <= b[j - n].0.start);
                    assert(b[0].0.start < b[0].0.end);
                }
            }
        }
    }

    /// concatenation, part 2: values
    pub proof fn lemma_concat_vals<T: Merge>(a: Seq<Ent<T>>, b: Seq<Ent<T>>)
        requires
            vals_wf(a),
            vals_wf(b),
            coalesced(a),
            coalesced(b),
            a.len() > 0 && b.len() > 0 && a.last().0.end == b[0].0.start ==> !a.last().1.eq_spec(&b[0].1),
        ensures
            vals_wf(a + b),
            coalesced(a + b),
    {
        let t = a + b;
        let n = a.len() as int;
        assert forall|i: int| 0 <= i < t.len() implies (#[trigger] t[i]).1.wf() by {
            if i < n { assert(t[i] == a[i]); } else { assert(t[i] == b[i - n]); }
        }
        assert forall|i: int, j: int| 0 <= i && j == i + 1 && j < t.len() && (#[trigger] t[i]).0.end == (#[trigger] t[j]).0.start implies !t[i].1.eq_spec(&t[j].1) by {
            if j < n {
                assert(t[i] == a[i] && t[j] == a[j]);
            } else if i >= n {
                assert(t[i] == b[i - n] && t[j] == b[j - n]);
            } else {
                assert(t[i] == a[n - 1] && t[j] == b[0]);
            }
        }
    }

    /// concatenation, part 3: coverage and value lookup
    pub proof fn lemma_concat_cov<T>(a: Seq<Ent<T>>, b: Seq<Ent<T>>)
        requires
            sorted(a + b),
        ensures
            forall|c: int| #[trigger] covers(a + b, c) <==> covers(a, c) || covers(b, c),
            forall|c: int| covers(a, c) ==> #[trigger] val_at(a + b, c) == val_at(a, c),
            forall|c: int| covers(b, c) ==> #[trigger] val_at(a + b, c) == val_at(b, c),
    {
        let t = a + b;
        let n = a.len() as int;
        assert forall|c: int| #[trigger] covers(t, c) <==> covers(a, c) || covers(b, c) by {
            if covers(t, c) {
                let i = idx_of(t, c);
                assert(inr(t[i].0, c));
                if i < n { assert(inr(a[i].0, c)); } else { assert(inr(b[i - n].0, c)); }
            }
            if covers(a, c) {
                let i = idx_of(a, c);
                assert(inr(a[i].0, c));
                assert(t[i] == a[i]);
                assert(inr(t[i].0, c));
            }
            if covers(b, c) {
                let i = idx_of(b, c);
                assert(inr(b[i].0, c));
                assert(t[i + n] == b[i]);
                assert(inr(t[i + n].0, c));
            }
        }
        assert forall|c: int| covers(a, c) implies #[trigger] val_at(t, c) == val_at(a, c) by {
            let i = idx_of(a, c);
            assert(inr(a[i].0, c));
            assert(t[i] == a[i]);
            lemma_idx_unique(t, i, c);
        }
        assert forall|c: int| covers(b, c) implies #[trigger] val_at(t, c) == val_at(b, c) by {
            let i = idx_of(b, c);
            assert(inr(b[i].0, c));
            assert(t[i + n] == b[i]);
            lemma_idx_unique(t, i + n, c);
        }
    }

    /// concatenation of two canonical sequences, the first entirely in front of the second
    pub proof fn lemma_concat<T: Merge>(a: Seq<Ent<T>>, b: Seq<Ent<T>>)
        requires
            canon(a),
            canon(b),
            a.len() > 0 && b.len() > 0 ==> a.last().0.end <= b[0].0.start,
            a.len() > 0 && b.len() > 0 && a.last().0.end == b[0].0.start ==> !a.last().1.eq_spec(&b[0].1),
        ensures
            canon(a + b),
            forall|c: int| #[trigger] covers(a + b, c) <==> covers(a, c) || covers(b, c),
            forall|c: int| covers(a, c) ==> #[trigger] val_at(a + b, c) == val_at(a, c),
            forall|c: int| covers(b, c) ==> #[trigger] val_at(a + b, c) == val_at(b, c),
    {
        lemma_concat_sorted(a, b);
        lemma_concat_vals(a, b);
        lemma_concat_cov(a, b);
    }

    /// entries `[lo, hi)` of `o` replaced by `r`
    #[verifier::opaque]
    pub open spec fn splice<T>(o: Seq<Ent<T>>, lo: int, hi: int, r: Seq<Ent<T>>) -> Seq<Ent<T>> {
        o.subrange(0, lo) + r + o.subrange(hi, o.len() as int)
    }

    /// the extent of a non-empty canonical sequence whose coverage lies in `[wa, wb)`
    pub proof fn lemma_extent<T: Merge>(r: Seq<Ent<T>>, wa: int, wb: int)
        requires
            nonempty(r),
            r.len() > 0,
            forall|c: int| #[trigger] covers(r, c) ==> wa <= c < wb,
        ensures
            wa <= r[0].0.start,
            r.last().0.end <= wb,
            wa < wb,
    {
        assert(inr(r[0].0, r[0].0.start as int));
        assert(covers(r, r[0].0.start as int));
        assert(inr(r.last().0, r.last().0.end as int - 1));
        assert(covers(r, r.last().0.end as int - 1));
    }

    /// the parts of `o` in front of index `lo` / from index `hi` on, described by clock bounds
    pub proof fn lemma_outside<T: Merge>(o: Seq<Ent<T>>, lo: int, hi: int, wa: int, wb: int)
        requires
            canon(o),
            0 <= lo <= hi <= o.len(),
            wa < wb,
            lo > 0 ==> o[lo - 1].0.end <= wa,
            hi < o.len() ==> wb <= o[hi].0.start,
            lo < hi ==> wa <= o[lo].0.start && o[hi - 1].0.end <= wb,
        ensures
            canon(o.subrange(0, lo)),
            canon(o.subrange(hi, o.len() as int)),
            forall|c: int| #[trigger] covers(o.subrange(0, lo), c) <==> covers(o, c) && c < wa,
            forall|c: int| #[trigger] covers(o.subrange(hi, o.len() as int), c) <==> covers(o, c) && wb <= c,
            forall|c: int| covers(o, c) && c < wa ==> #[trigger] val_at(o.subrange(0, lo), c) == val_at(o, c),
            forall|c: int| covers(o, c) && wb <= c ==> #[trigger] val_at(o.subrange(hi, o.len() as int), c) == val_at(o, c),
    {
        let n = o.len() as int;
        let pre = o.subrange(0, lo);
        let suf = o.subrange(hi, n);
        lemma_sub(o, 0, lo);
        lemma_sub(o, hi, n);
        if lo > 0 { assert(pre.last() == o[lo - 1]); }
        if hi < n { assert(suf[0] == o[hi]); }
        assert forall|c: int| #[trigger] covers(pre, c) <==> covers(o, c) && c < wa by {
            if covers(pre, c) {
                lemma_bounds(pre, c);
            }
            if covers(o, c) && c < wa {
                let k = idx_of(o, c);
                assert(inr(o[k].0, c));
                if k >= lo {
                    if lo < hi {
                        if lo < k { assert(o[lo].0.end <= o[k].0.start); assert(o[lo].0.start < o[lo].0.end); }
                    } else {
                        if hi < k { assert(o[hi].0.end <= o[k].0.start); assert(o[hi].0.start < o[hi].0.end); }
                    }
                    assert(false);
                }
            }
        }
        assert forall|c: int| #[trigger] covers(suf, c) <==> covers(o, c) && wb <= c by {
            if covers(suf, c) {
                lemma_bounds(suf, c);
            }
            if covers(o, c) && wb <= c {
                let k = idx_of(o, c);
                assert(inr(o[k].0, c));
                if k < hi {
                    if lo < hi {
                        if k < hi - 1 { assert(o[k].0.end <= o[hi - 1].0.start); assert(o[hi - 1].0.start < o[hi - 1].0.end); }
                    } else {
                        if k < lo - 1 { assert(o[k].0.end <= o[lo - 1].0.start); assert(o[lo - 1].0.start < o[lo - 1].0.end); }
                    }
                    assert(false);
                }
            }
        }
    }

    /// concatenation of three canonical sequences, the middle one not empty
    pub proof fn lemma_concat3<T: Merge>(a: Seq<Ent<T>>, b: Seq<Ent<T>>, d: Seq<Ent<T>>)
        requires
            canon(a),
            canon(b),
            canon(d),
            b.len() > 0,
            a.len() > 0 ==> a.last().0.end <= b[0].0.start,
            a.len() > 0 && a.last().0.end == b[0].0.start ==> !a.last().1.eq_spec(&b[0].1),
            d.len() > 0 ==> b.last().0.end <= d[0].0.start,
            d.len() > 0 && b.last().0.end == d[0].0.start ==> !b.last().1.eq_spec(&d[0].1),
        ensures
            canon(a + b + d),
            forall|c: int| #[trigger] covers(a + b + d, c) <==> covers(a, c) || covers(b, c) || covers(d, c),
            forall|c: int| covers(a, c) ==> #[trigger] val_at(a + b + d, c) == val_at(a, c),
            forall|c: int| covers(b, c) ==> #[trigger] val_at(a + b + d, c) == val_at(b, c),
            forall|c: int| covers(d, c) ==> #[trigger] val_at(a + b + d, c) == val_at(d, c),
    {
        lemma_concat(a, b);
        let ab = a + b;
        assert(ab.last() == b.last());
        lemma_concat(ab, d);
        assert forall|c: int| covers(a, c) implies #[trigger] val_at(ab + d, c) == val_at(a, c) by {
            assert(covers(ab, c));
            assert(val_at(ab, c) == val_at(a, c));
        }
        assert forall|c: int| covers(b, c) implies #[trigger] val_at(ab + d, c) == val_at(b, c) by {
            assert(covers(ab, c));
            assert(val_at(ab, c) == val_at(b, c));
        }
    }

    /// Splice lemma: `r` is canonical, lives inside the window `[wa, wb)`, the entries before `lo` end at or
    /// before `wa`, the entries from `hi` on start at or after `wb`, the replaced entries lie inside the window,
    /// and the two seams are not coalescable.
    pub proof fn lemma_splice<T: Merge>(o: Seq<Ent<T>>, lo: int, hi: int, r: Seq<Ent<T>>, wa: int, wb: int)
        requires
            canon(o),
            canon(r),
            0 <= lo <= hi <= o.len(),
            r.len() > 0,
            forall|c: int| #[trigger] covers(r, c) ==> wa <= c < wb,
            lo > 0 ==> o[lo - 1].0.end <= wa,
            hi < o.len() ==> wb <= o[hi].0.start,
            lo < hi ==> wa <= o[lo].0.start && o[hi - 1].0.end <= wb,
            lo > 0 && o[lo - 1].0.end == r[0].0.start ==> !o[lo - 1].1.eq_spec(&r[0].1),
            hi < o.len() && r.last().0.end == o[hi].0.start ==> !r.last().1.eq_spec(&o[hi].1),
        ensures
            canon(splice(o, lo, hi, r)),
            forall|c: int| #[trigger] covers(splice(o, lo, hi, r), c) <==> covers(r, c) || (covers(o, c) && !(wa <= c < wb)),
            forall|c: int| covers(r, c) ==> #[trigger] val_at(splice(o, lo, hi, r), c) == val_at(r, c),
            forall|c: int| covers(o, c) && !(wa <= c < wb) ==> #[trigger] val_at(splice(o, lo, hi, r), c) == val_at(o, c),
    {
        reveal(splice);
        let n = o.len() as int;
        let pre = o.subrange(0, lo);
        let suf = o.subrange(hi, n);
        let res = splice(o, lo, hi, r);
        lemma_extent(r, wa, wb);
        lemma_outside(o, lo, hi, wa, wb);
        if lo > 0 { assert(pre.last() == o[lo - 1]); }
        if hi < n { assert(suf[0] == o[hi]); }
        lemma_concat3(pre, r, suf);
        assert forall|c: int| #[trigger] covers(res, c) <==> covers(r, c) || (covers(o, c) && !(wa <= c < wb)) by {
            assert(covers(pre, c) <==> covers(o, c) && c < wa);
            assert(covers(suf, c) <==> covers(o, c) && wb <= c);
        }
        assert forall|c: int| covers(o, c) && !(wa <= c < wb) implies #[trigger] val_at(res, c) == val_at(o, c) by {
            if c < wa {
                assert(covers(pre, c));
                assert(val_at(pre, c) == val_at(o, c));
            } else {
                assert(covers(suf, c));
                assert(val_at(suf, c) == val_at(o, c));
            }
        }
    }

    /// the three stages of the drain + insert loop
    pub proof fn lemma_splice_start<T>(o: Seq<Ent<T>>, lo: int, hi: int, r: Seq<Ent<T>>, s: Seq<Ent<T>>)
        requires
            0 <= lo <= hi <= o.len(),
            s == o.subrange(0, lo) + o.subrange(hi, o.len() as int),
        ensures
            s == splice(o, lo, hi, r.subrange(0, 0)),
            s.len() == lo + (o.len() - hi),
    {
        reveal(splice);
        assert(s =~= splice(o, lo, hi, r.subrange(0, 0)));
    }

    pub proof fn lemma_splice_step<T>(o: Seq<Ent<T>>, lo: int, hi: int, r: Seq<Ent<T>>, i: int, s: Seq<Ent<T>>, s2: Seq<Ent<T>>)
        requires
            0 <= lo <= hi <= o.len(),
            0 <= i < r.len(),
            s == splice(o, lo, hi, r.subrange(0, i)),
            s2 == s.insert(lo + i, r[i]),
        ensures
            s2 == splice(o, lo, hi, r.subrange(0, i + 1)),
            s2.len() == lo + i + 1 + (o.len() - hi),
    {
        reveal(splice);
        assert(s2 =~= splice(o, lo, hi, r.subrange(0, i + 1)));
    }

    pub proof fn lemma_splice_done<T>(o: Seq<Ent<T>>, lo: int, hi: int, r: Seq<Ent<T>>, i: int, s: Seq<Ent<T>>)
        requires
            i == r.len(),
            s == splice(o, lo, hi, r.subrange(0, i)),
        ensures
            s == splice(o, lo, hi, r),
    {
        reveal(splice);
        assert(r.subrange(0, i) =~= r);
    }

    /// the contract of `insert_with` as a predicate on (old view, new view)
    #[verifier::opaque]
    pub open spec fn ins_post<T: Merge>(o: Seq<Ent<T>>, range: Range<u32>, value: T, res: Seq<Ent<T>>) -> bool {
        &&& canon(res)
        &&& forall|c: int| #![trigger covers(res, c)] #![trigger covers(o, c)] #![trigger inr(range, c)] covers(res, c) <==> covers(o, c) || inr(range, c)
        &&& forall|c: int| covers(o, c) && !inr(range, c) ==> #[trigger] val_at(res, c).eq_spec(&val_at(o, c))
        &&& forall|c: int| !covers(o, c) && inr(range, c) ==> #[trigger] val_at(res, c).eq_spec(&value)
        &&& forall|c: int| covers(o, c) && inr(range, c) ==> #[trigger] val_at(res, c).eq_spec(&val_at(o, c).merge_spec(&value))
    }

    // ------------------------------------------------------------------------------------------
    // early exits: empty range, tail fast path, no-overlap path
    // ------------------------------------------------------------------------------------------
    /// nothing changes (empty range)
    pub proof fn lemma_ins_noop<T: Merge>(o: Seq<Ent<T>>, range: Range<u32>, value: T)
        requires
            canon(o),
            range.start >= range.end,
        ensures
            ins_post(o, range, value, o),
    {
        reveal(ins_post);
        assert forall|c: int| covers(o, c) && !inr(range, c) implies #[trigger] val_at(o, c).eq_spec(&val_at(o, c)) by {
            let k = idx_of(o, c);
            assert(inr(o[k].0, c));
            o[k].1.law_eq_refl();
        }
    }

    /// a single new entry placed into a gap at index `lo` (touching a neighbour is allowed when the values differ)
    pub proof fn lemma_ins_single<T: Merge>(o: Seq<Ent<T>>, lo: int, range: Range<u32>, value: T, res: Seq<Ent<T>>)
        requires
            canon(o),
            value.wf(),
            range.start < range.end,
            0 <= lo <= o.len(),
            lo > 0 ==> o[lo - 1].0.end <= range.start,
            lo > 0 && o[lo - 1].0.end == range.start ==> !o[lo - 1].1.eq_spec(&value),
            lo < o.len() ==> range.end <= o[lo].0.start,
            lo < o.len() && range.end == o[lo].0.start ==> !value.eq_spec(&o[lo].1),
            res =~= o.insert(lo, (range, value)),
        ensures
            ins_post(o, range, value, res),
    {
        reveal(ins_post);
        reveal(splice);
        let r = seq![(range, value)];
        assert(r[0] == (range, value));
        assert(canon(r));
        assert forall|c: int| #[trigger] covers(r, c) <==> inr(range, c) by {
            if covers(r, c) {
                let k = idx_of(r, c);
                assert(inr(r[k].0, c));
            }
            if inr(range, c) {
                assert(inr(r[0].0, c));
            }
        }
        assert forall|c: int| covers(r, c) implies val_at(r, c) == value by {
            assert(inr(r[0].0, c));
            lemma_idx_unique(r, 0, c);
        }
        lemma_splice(o, lo, lo, r, range.start as int, range.end as int);
        assert(res =~= splice(o, lo, lo, r));
        assert forall|c: int| inr(range, c) implies !covers(o, c) by {
            lemma_gap(o, lo, c);
        }
        assert forall|c: int| covers(o, c) && !inr(range, c) implies #[trigger] val_at(res, c).eq_spec(&val_at(o, c)) by {
            let k = idx_of(o, c);
            assert(inr(o[k].0, c));
            o[k].1.law_eq_refl();
        }
        assert forall|c: int| !covers(o, c) && inr(range, c) implies #[trigger] val_at(res, c).eq_spec(&value) by {
            assert(covers(r, c));
            value.law_eq_refl();
        }
    }

    /// a `last_mut()` borrow that was not written through leaves the vector as it was
    pub proof fn lemma_unchanged<T>(o: Seq<Ent<T>>, res: Seq<Ent<T>>)
        requires
            if o.len() > 0 { res == o.update(o.len() - 1, o.last()) } else { res.len() == 0 },
        ensures
            res == o,
    {
        assert(res =~= o);
    }

    /// tail fast path: push behind the last entry (touching allowed when the values differ)
    pub proof fn lemma_ins_push<T: Merge>(o: Seq<Ent<T>>, range: Range<u32>, value: T, res: Seq<Ent<T>>)
        requires
            canon(o),
            value.wf(),
            range.start < range.end,
            o.len() > 0,
            o.last().0.end <= range.start,
            o.last().0.end == range.start ==> !o.last().1.eq_spec(&value),
            res == o.update(o.len() - 1, o.last()).push((range, value)),
        ensures
            ins_post(o, range, value, res),
    {
        assert(res =~= o.insert(o.len() as int, (range, value)));
        lemma_ins_single(o, o.len() as int, range, value, res);
    }

    /// tail fast path "same value - extend"
    pub proof fn lemma_ins_extend<T: Merge>(o: Seq<Ent<T>>, range: Range<u32>, value: T, res: Seq<Ent<T>>)
        requires
            canon(o),
            value.wf(),
            range.start < range.end,
            o.len() > 0,
            o.last().0.start <= range.start <= o.last().0.end,
            o.last().1.eq_spec(&value),
            res == o.update(o.len() - 1, (o.last().0.start..umax(o.last().0.end, range.end), o.last().1)),
        ensures
            ins_post(o, range, value, res),
    {
        reveal(ins_post);
        let n = o.len() - 1;
        let l = o[n];
        let ne = umax(l.0.end, range.end);
        lemma_extend_last(o, ne, res);
        assert forall|i: int| 0 <= i < res.len() implies (#[trigger] res[i]).0.start < res[i].0.end && res[i].1.wf() by {
            if i < n { assert(res[i] == o[i]); }
        }
        assert forall|i: int, j: int| 0 <= i && j == i + 1 && j < res.len() && (#[trigger] res[i]).0.end == (#[trigger] res[j]).0.start implies !res[i].1.eq_spec(&res[j].1) by {
            assert(res[i] == o[i]);
            assert(res[j].1 == o[j].1 && res[j].0.start == o[j].0.start);
        }
        assert forall|c: int| covers(res, c) <==> covers(o, c) || inr(range, c) by {
            if inr(l.0.start..ne, c) && !inr(range, c) { assert(inr(o[n].0, c)); }
        }
        assert forall|c: int| covers(o, c) && !inr(range, c) implies #[trigger] val_at(res, c).eq_spec(&val_at(o, c)) by {
            let k = idx_of(o, c);
            assert(inr(o[k].0, c));
            o[k].1.law_eq_refl();
        }
        assert forall|c: int| !covers(o, c) && inr(range, c) implies #[trigger] val_at(res, c).eq_spec(&value) by {
            assert(inr(l.0.start..ne, c));
        }
        assert forall|c: int| covers(o, c) && inr(range, c) implies #[trigger] val_at(res, c).eq_spec(&val_at(o, c).merge_spec(&value)) by {
            let k = idx_of(o, c);
            assert(inr(o[k].0, c));
            if k < n { assert(o[k].0.end <= o[n].0.start); }
            lemma_idx_unique(o, n, c);
            assert(inr(l.0.start..ne, c));
            l.1.law_merge_idem(&value);
        }
    }

    // ------------------------------------------------------------------------------------------
    // general path, part 1: the window [lo, hi) and the frontier invariant of `replacement`
    // ------------------------------------------------------------------------------------------
    /// entries `lo..hi` are exactly those that overlap or touch `range`
    #[verifier::opaque]
    pub open spec fn win<T: Merge>(o: Seq<Ent<T>>, lo: int, hi: int, range: Range<u32>) -> bool {
        &&& canon(o)
        &&& 0 <= lo < hi <= o.len()
        &&& range.start < range.end
        &&& (lo > 0 ==> o[lo - 1].0.end < range.start)
        &&& (hi < o.len() ==> range.end < o[hi].0.start)
        &&& forall|k: int| lo <= k < hi ==> range.start <= (#[trigger] o[k]).0.end && o[k].0.start <= range.end
    }

    /// left end of the rebuilt region
    pub open spec fn win_lo<T>(o: Seq<Ent<T>>, lo: int, range: Range<u32>) -> int {
        umin(o[lo].0.start, range.start) as int
    }

    /// right end of the rebuilt region
    pub open spec fn win_hi<T>(o: Seq<Ent<T>>, hi: int, range: Range<u32>) -> int {
        umax(o[hi - 1].0.end, range.end) as int
    }

    /// the clocks the result must cover
    pub open spec fn target<T>(o: Seq<Ent<T>>, range: Range<u32>, c: int) -> bool {
        covers(o, c) || inr(range, c)
    }

    /// `v` is an acceptable value for clock `c` in the result
    pub open spec fn tv_ok<T: Merge>(o: Seq<Ent<T>>, range: Range<u32>, value: T, c: int, v: T) -> bool {
        &&& (covers(o, c) && !inr(range, c) ==> v.eq_spec(&val_at(o, c)))
        &&& (!covers(o, c) && inr(range, c) ==> v.eq_spec(&value))
        &&& (covers(o, c) && inr(range, c) ==> val_at(o, c).merge_spec(&value).wf() && v.eq_spec(&val_at(o, c).merge_spec(&value)))
    }

    /// frontier invariant: `r` is the canonical result restricted to `[r0, f)`
    #[verifier::opaque]
    pub open spec fn finv<T: Merge>(o: Seq<Ent<T>>, range: Range<u32>, value: T, r0: int, r: Seq<Ent<T>>, f: int) -> bool {
        &&& canon(r)
        &&& r0 <= f
        &&& (r.len() > 0 ==> r.last().0.end <= f)
        &&& forall|c: int| #[trigger] covers(r, c) <==> r0 <= c < f && target(o, range, c)
        &&& forall|c: int| #[trigger] covers(r, c) ==> tv_ok(o, range, value, c, val_at(r, c))
    }

    /// the contract of `push_coalesced` as a predicate on (before, after)
    #[verifier::opaque]
    pub open spec fn pushed<T: Merge>(a: Seq<Ent<T>>, b: Seq<Ent<T>>, rg: Range<u32>, v: T) -> bool {
        &&& canon(b)
        &&& forall|c: int| #[trigger] covers(b, c) <==> covers(a, c) || inr(rg, c)
        &&& forall|c: int| covers(a, c) ==> #[trigger] val_at(b, c) == val_at(a, c)
        &&& forall|c: int| inr(rg, c) ==> #[trigger] val_at(b, c).eq_spec(&v)
        &&& (rg.start < rg.end ==> b.len() > 0 && b.last().0.end == rg.end)
        &&& (rg.start >= rg.end ==> b == a)
    }

    /// one push moves the frontier from `f` to `rg.end`, provided nothing of the target lies in `[f, rg.start)`,
    /// all of `rg` is target and `v` is an acceptable value on `rg`
    pub proof fn lemma_advance<T: Merge>(o: Seq<Ent<T>>, range: Range<u32>, value: T, r0: int, r: Seq<Ent<T>>, f: int, r2: Seq<Ent<T>>, rg: Range<u32>, v: T)
        requires
            canon(o),
            value.wf(),
            v.wf(),
            finv(o, range, value, r0, r, f),
            pushed(r, r2, rg, v),
            rg.start < rg.end,
            f <= rg.start,
            forall|c: int| f <= c < rg.start ==> !#[trigger] target(o, range, c),
            forall|c: int| #[trigger] inr(rg, c) ==> target(o, range, c) && tv_ok(o, range, value, c, v),
        ensures
            finv(o, range, value, r0, r2, rg.end as int),
    {
        reveal(finv);
        reveal(pushed);
        assert forall|c: int| #[trigger] covers(r2, c) <==> r0 <= c < rg.end && target(o, range, c) by {
            assert(covers(r2, c) <==> covers(r, c) || inr(rg, c));
            assert(covers(r, c) <==> r0 <= c < f && target(o, range, c));
            if f <= c < rg.start {
                assert(!target(o, range, c));
            }
        }
        assert forall|c: int| #[trigger] covers(r2, c) implies tv_ok(o, range, value, c, val_at(r2, c)) by {
            assert(covers(r2, c) <==> covers(r, c) || inr(rg, c));
            if covers(r, c) {
                assert(val_at(r2, c) == val_at(r, c));
            } else {
                assert(inr(rg, c));
                let w = val_at(r2, c);
                let k = idx_of(r2, c);
                assert(inr(r2[k].0, c));
                assert(r2[k].1.wf());
                assert(w.eq_spec(&v));
                assert(tv_ok(o, range, value, c, v));
                if covers(o, c) {
                    let j = idx_of(o, c);
                    assert(inr(o[j].0, c));
                    assert(o[j].1.wf());
                    if inr(range, c) {
                        w.law_eq_trans(&v, &val_at(o, c).merge_spec(&value));
                    } else {
                        w.law_eq_trans(&v, &val_at(o, c));
                    }
                } else {
                    w.law_eq_trans(&v, &value);
                }
            }
        }
    }

    /// entries of the window other than the first start inside `range`
    pub proof fn lemma_win_facts<T: Merge>(o: Seq<Ent<T>>, lo: int, hi: int, range: Range<u32>, i: int)
        requires
            win(o, lo, hi, range),
            lo <= i < hi,
        ensures
            range.start <= o[i].0.end,
            o[i].0.start <= range.end,
            o[i].0.start < o[i].0.end,
            o[i].1.wf(),
            win_lo(o, lo, range) <= o[i].0.start,
            i > lo ==> range.start <= o[i - 1].0.end <= o[i].0.start,
            i > 0 ==> o[i - 1].0.end <= o[i].0.start,
    {
        reveal(win);
        if i > lo {
            assert(range.start <= o[i - 1].0.end);
            assert(o[lo].0.end <= o[i].0.start);
            assert(o[lo].0.start < o[lo].0.end);
        }
        if i > 0 {
            assert(o[i - 1].0.end <= o[i].0.start);
        }
    }

    /// step 1 of iteration `i`: the gap in front of entry `i`
    pub proof fn lemma_step_gap<T: Merge>(o: Seq<Ent<T>>, lo: int, hi: int, range: Range<u32>, value: T, i: int, cursor: u32, g0: Seq<Ent<T>>, g1: Seq<Ent<T>>)
        requires
            win(o, lo, hi, range),
            value.wf(),
            lo <= i < hi,
            cursor == (if i == lo { win_lo(o, lo, range) } else { o[i - 1].0.end as int }),
            finv(o, range, value, win_lo(o, lo, range), g0, cursor as int),
            if cursor >= range.start && cursor < o[i].0.start {
                pushed(g0, g1, cursor..umin(o[i].0.start, range.end), value)
            } else {
                g1 == g0
            },
        ensures
            finv(o, range, value, win_lo(o, lo, range), g1, o[i].0.start as int),
            canon(g1),
            g1.len() > 0 ==> g1.last().0.end <= o[i].0.start,
    {
        reveal(win);
        reveal(finv);
        reveal(pushed);
        lemma_win_facts(o, lo, hi, range, i);
        let e = o[i];
        if cursor >= range.start && cursor < e.0.start {
            let rg = cursor..umin(e.0.start, range.end);
            assert(rg.end == e.0.start);
            assert forall|c: int| #[trigger] inr(rg, c) implies target(o, range, c) && tv_ok(o, range, value, c, value) by {
                lemma_gap(o, i, c);
                value.law_eq_refl();
            }
            lemma_advance(o, range, value, win_lo(o, lo, range), g0, cursor as int, g1, rg, value);
        } else {
            assert(cursor == e.0.start);
        }
        lemma_finv_pre(o, range, value, win_lo(o, lo, range), g1, o[i].0.start as int);
    }

    /// step 2: the part of entry `i` in front of `range`
    pub proof fn lemma_step_prefix<T: Merge>(o: Seq<Ent<T>>, lo: int, hi: int, range: Range<u32>, value: T, i: int, g1: Seq<Ent<T>>, g2: Seq<Ent<T>>)
        requires
            win(o, lo, hi, range),
            value.wf(),
            lo <= i < hi,
            finv(o, range, value, win_lo(o, lo, range), g1, o[i].0.start as int),
            if o[i].0.start < range.start {
                pushed(g1, g2, o[i].0.start..range.start, o[i].1)
            } else {
                g2 == g1
            },
        ensures
            finv(o, range, value, win_lo(o, lo, range), g2, umax(o[i].0.start, range.start) as int),
            canon(g2),
            g2.len() > 0 ==> g2.last().0.end <= umax(o[i].0.start, range.start),
    {
        reveal(win);
        reveal(finv);
        reveal(pushed);
        lemma_win_facts(o, lo, hi, range, i);
        let e = o[i];
        if e.0.start < range.start {
            let rg = e.0.start..range.start;
            assert forall|c: int| #[trigger] inr(rg, c) implies target(o, range, c) && tv_ok(o, range, value, c, e.1) by {
                assert(inr(o[i].0, c));
                lemma_idx_unique(o, i, c);
                e.1.law_eq_refl();
            }
            lemma_advance(o, range, value, win_lo(o, lo, range), g1, e.0.start as int, g2, rg, e.1);
        }
        lemma_finv_pre(o, range, value, win_lo(o, lo, range), g2, umax(o[i].0.start, range.start) as int);
    }

    /// step 3: the part of entry `i` inside `range`
    pub proof fn lemma_step_overlap<T: Merge>(o: Seq<Ent<T>>, lo: int, hi: int, range: Range<u32>, value: T, i: int, g2: Seq<Ent<T>>, g3: Seq<Ent<T>>)
        requires
            win(o, lo, hi, range),
            value.wf(),
            lo <= i < hi,
            finv(o, range, value, win_lo(o, lo, range), g2, umax(o[i].0.start, range.start) as int),
            if umax(o[i].0.start, range.start) < umin(o[i].0.end, range.end) {
                o[i].1.merge_spec(&value).wf() && pushed(g2, g3, umax(o[i].0.start, range.start)..umin(o[i].0.end, range.end), o[i].1.merge_spec(&value))
            } else {
                g3 == g2
            },
        ensures
            finv(o, range, value, win_lo(o, lo, range), g3, umax(umax(o[i].0.start, range.start), umin(o[i].0.end, range.end)) as int),
            canon(g3),
            g3.len() > 0 ==> g3.last().0.end <= umax(umax(o[i].0.start, range.start), umin(o[i].0.end, range.end)),
    {
        reveal(win);
        reveal(finv);
        reveal(pushed);
        lemma_win_facts(o, lo, hi, range, i);
        let e = o[i];
        let os = umax(e.0.start, range.start);
        let oe = umin(e.0.end, range.end);
        if os < oe {
            let rg = os..oe;
            let m = e.1.merge_spec(&value);
            assert forall|c: int| #[trigger] inr(rg, c) implies target(o, range, c) && tv_ok(o, range, value, c, m) by {
                assert(inr(o[i].0, c));
                lemma_idx_unique(o, i, c);
                m.law_eq_refl();
            }
            lemma_advance(o, range, value, win_lo(o, lo, range), g2, os as int, g3, rg, m);
        }
        lemma_finv_pre(o, range, value, win_lo(o, lo, range), g3, umax(umax(o[i].0.start, range.start), umin(o[i].0.end, range.end)) as int);
    }

    /// step 4: the part of entry `i` behind `range`
    pub proof fn lemma_step_suffix<T: Merge>(o: Seq<Ent<T>>, lo: int, hi: int, range: Range<u32>, value: T, i: int, g3: Seq<Ent<T>>, g4: Seq<Ent<T>>)
        requires
            win(o, lo, hi, range),
            value.wf(),
            lo <= i < hi,
            finv(o, range, value, win_lo(o, lo, range), g3, umax(umax(o[i].0.start, range.start), umin(o[i].0.end, range.end)) as int),
            if o[i].0.end > range.end {
                pushed(g3, g4, range.end..o[i].0.end, o[i].1)
            } else {
                g4 == g3
            },
        ensures
            finv(o, range, value, win_lo(o, lo, range), g4, o[i].0.end as int),
            canon(g4),
            g4.len() > 0 ==> g4.last().0.end <= o[i].0.end,
    {
        reveal(win);
        reveal(finv);
        reveal(pushed);
        lemma_win_facts(o, lo, hi, range, i);
        let e = o[i];
        if e.0.end > range.end {
            let rg = range.end..e.0.end;
            assert forall|c: int| #[trigger] inr(rg, c) implies target(o, range, c) && tv_ok(o, range, value, c, e.1) by {
                assert(inr(o[i].0, c));
                lemma_idx_unique(o, i, c);
                e.1.law_eq_refl();
            }
            lemma_advance(o, range, value, win_lo(o, lo, range), g3, range.end as int, g4, rg, e.1);
        }
        lemma_finv_pre(o, range, value, win_lo(o, lo, range), g4, o[i].0.end as int);
    }

    /// step 5 (after the loop): the rest of `range` behind the last entry of the window
    pub proof fn lemma_step_tail<T: Merge>(o: Seq<Ent<T>>, lo: int, hi: int, range: Range<u32>, value: T, g0: Seq<Ent<T>>, g1: Seq<Ent<T>>)
        requires
            win(o, lo, hi, range),
            value.wf(),
            finv(o, range, value, win_lo(o, lo, range), g0, o[hi - 1].0.end as int),
            if o[hi - 1].0.end < range.end {
                pushed(g0, g1, o[hi - 1].0.end..range.end, value)
            } else {
                g1 == g0
            },
        ensures
            finv(o, range, value, win_lo(o, lo, range), g1, win_hi(o, hi, range)),
    {
        reveal(win);
        reveal(finv);
        reveal(pushed);
        lemma_win_facts(o, lo, hi, range, hi - 1);
        let cursor = o[hi - 1].0.end;
        if cursor < range.end {
            let rg = cursor..range.end;
            assert forall|c: int| #[trigger] inr(rg, c) implies target(o, range, c) && tv_ok(o, range, value, c, value) by {
                lemma_gap(o, hi, c);
                value.law_eq_refl();
            }
            lemma_advance(o, range, value, win_lo(o, lo, range), g0, cursor as int, g1, rg, value);
        }
    }

    // ------------------------------------------------------------------------------------------
    // general path, part 2: splicing the finished replacement into the old sequence
    // ------------------------------------------------------------------------------------------
    /// the finished replacement is not empty: it covers `range.start`
    pub proof fn lemma_repl_nonempty<T: Merge>(o: Seq<Ent<T>>, lo: int, hi: int, range: Range<u32>, value: T, r: Seq<Ent<T>>)
        requires
            win(o, lo, hi, range),
            finv(o, range, value, win_lo(o, lo, range), r, win_hi(o, hi, range)),
        ensures
            r.len() > 0,
    {
        reveal(win);
        reveal(finv);
        let c0 = range.start as int;
        assert(inr(range, c0));
        assert(target(o, range, c0));
        assert(covers(r, c0));
        let k = idx_of(r, c0);
        assert(inr(r[k].0, c0));
    }

    /// left seam: if the entry in front of the window touches the replacement, the values differ
    pub proof fn lemma_seam_left<T: Merge>(o: Seq<Ent<T>>, lo: int, hi: int, range: Range<u32>, value: T, r: Seq<Ent<T>>)
        requires
            win(o, lo, hi, range),
            value.wf(),
            finv(o, range, value, win_lo(o, lo, range), r, win_hi(o, hi, range)),
            r.len() > 0,
            lo > 0,
            o[lo - 1].0.end == r[0].0.start,
        ensures
            !o[lo - 1].1.eq_spec(&r[0].1),
    {
        reveal(win);
        reveal(finv);
        let wa = win_lo(o, lo, range);
        lemma_win_facts(o, lo, hi, range, lo);
        let c = r[0].0.start as int;
        assert(inr(r[0].0, c));
        lemma_idx_unique(r, 0, c);
        assert(wa <= c);
        assert(o[lo - 1].0.end <= o[lo].0.start);
        assert(c == o[lo].0.start && c < range.start);
        assert(inr(o[lo].0, c));
        lemma_idx_unique(o, lo, c);
        assert(tv_ok(o, range, value, c, val_at(r, c)));
        assert(r[0].1.eq_spec(&o[lo].1));
        assert(o[lo - 1].1.wf() && o[lo].1.wf() && r[0].1.wf());
        if o[lo - 1].1.eq_spec(&r[0].1) {
            o[lo - 1].1.law_eq_trans(&r[0].1, &o[lo].1);
            assert(false);
        }
    }

    /// right seam: if the replacement touches the entry behind the window, the values differ
    pub proof fn lemma_seam_right<T: Merge>(o: Seq<Ent<T>>, lo: int, hi: int, range: Range<u32>, value: T, r: Seq<Ent<T>>)
        requires
            win(o, lo, hi, range),
            value.wf(),
            finv(o, range, value, win_lo(o, lo, range), r, win_hi(o, hi, range)),
            r.len() > 0,
            hi < o.len(),
            r.last().0.end == o[hi].0.start,
        ensures
            !r.last().1.eq_spec(&o[hi].1),
    {
        reveal(win);
        reveal(finv);
        let wb = win_hi(o, hi, range);
        lemma_win_facts(o, lo, hi, range, hi - 1);
        let n = r.len() - 1;
        let c = r[n].0.end as int - 1;
        assert(inr(r[n].0, c));
        lemma_idx_unique(r, n, c);
        assert(c < wb);
        assert(o[hi - 1].0.end <= o[hi].0.start);
        assert(c + 1 == o[hi - 1].0.end && c >= range.end);
        assert(inr(o[hi - 1].0, c));
        lemma_idx_unique(o, hi - 1, c);
        assert(tv_ok(o, range, value, c, val_at(r, c)));
        assert(r[n].1.eq_spec(&o[hi - 1].1));
        assert(o[hi - 1].1.wf() && o[hi].1.wf() && r[n].1.wf());
        if r[n].1.eq_spec(&o[hi].1) {
            r[n].1.law_eq_sym(&o[hi - 1].1);
            o[hi - 1].1.law_eq_trans(&r[n].1, &o[hi].1);
            assert(false);
        }
    }

    /// the contract from the splice facts and the frontier invariant of the finished replacement
    pub proof fn lemma_ins_final<T: Merge>(o: Seq<Ent<T>>, range: Range<u32>, value: T, r: Seq<Ent<T>>, res: Seq<Ent<T>>, wa: int, wb: int)
        requires
            canon(o),
            finv(o, range, value, wa, r, wb),
            wa <= range.start,
            range.end <= wb,
            canon(res),
            forall|c: int| #[trigger] covers(res, c) <==> covers(r, c) || (covers(o, c) && !(wa <= c < wb)),
            forall|c: int| covers(r, c) ==> #[trigger] val_at(res, c) == val_at(r, c),
            forall|c: int| covers(o, c) && !(wa <= c < wb) ==> #[trigger] val_at(res, c) == val_at(o, c),
        ensures
            ins_post(o, range, value, res),
    {
        reveal(finv);
        reveal(ins_post);
        assert forall|c: int| #![trigger covers(res, c)] #![trigger covers(o, c)] #![trigger inr(range, c)] covers(res, c) <==> covers(o, c) || inr(range, c) by {
            assert(covers(r, c) <==> wa <= c < wb && target(o, range, c));
        }
        assert forall|c: int| covers(o, c) && !inr(range, c) implies #[trigger] val_at(res, c).eq_spec(&val_at(o, c)) by {
            if wa <= c < wb {
                assert(target(o, range, c));
                assert(covers(r, c));
                assert(tv_ok(o, range, value, c, val_at(r, c)));
            } else {
                let k = idx_of(o, c);
                assert(inr(o[k].0, c));
                o[k].1.law_eq_refl();
            }
        }
        assert forall|c: int| !covers(o, c) && inr(range, c) implies #[trigger] val_at(res, c).eq_spec(&value) by {
            assert(target(o, range, c));
            assert(covers(r, c));
            assert(tv_ok(o, range, value, c, val_at(r, c)));
        }
        assert forall|c: int| covers(o, c) && inr(range, c) implies #[trigger] val_at(res, c).eq_spec(&val_at(o, c).merge_spec(&value)) by {
            assert(target(o, range, c));
            assert(covers(r, c));
            assert(tv_ok(o, range, value, c, val_at(r, c)));
        }
    }

    pub proof fn lemma_ins_general<T: Merge>(o: Seq<Ent<T>>, lo: int, hi: int, range: Range<u32>, value: T, r: Seq<Ent<T>>, res: Seq<Ent<T>>)
        requires
            win(o, lo, hi, range),
            value.wf(),
            finv(o, range, value, win_lo(o, lo, range), r, win_hi(o, hi, range)),
            res == splice(o, lo, hi, r),
        ensures
            ins_post(o, range, value, res),
            r.len() > 0,
    {
        let wa = win_lo(o, lo, range);
        let wb = win_hi(o, hi, range);
        lemma_repl_nonempty(o, lo, hi, range, value, r);
        assert(0 <= lo < hi <= o.len()) by { reveal(win); }
        if lo > 0 && o[lo - 1].0.end == r[0].0.start {
            lemma_seam_left(o, lo, hi, range, value, r);
        }
        if hi < o.len() && r.last().0.end == o[hi].0.start {
            lemma_seam_right(o, lo, hi, range, value, r);
        }
        assert(canon(o) && canon(r) && 0 <= lo < hi <= o.len()
            && (lo > 0 ==> o[lo - 1].0.end <= wa) && (hi < o.len() ==> wb <= o[hi].0.start)
            && wa <= o[lo].0.start && o[hi - 1].0.end <= wb && wa <= range.start && range.end <= wb
            && (forall|c: int| #[trigger] covers(r, c) ==> wa <= c < wb)) by {
            reveal(win);
            reveal(finv);
            if lo > 0 { assert(o[lo - 1].0.end <= o[lo].0.start); }
            if hi < o.len() { assert(o[hi - 1].0.end <= o[hi].0.start); }
        }
        lemma_splice(o, lo, hi, r, wa, wb);
        lemma_ins_final(o, range, value, r, res, wa, wb);
    }

    /// the partition index of `start < x` in a canonical sequence (what `partition_point` computes)
    pub open spec fn part_idx<T>(o: Seq<Ent<T>>, x: u32) -> int
        decreases o.len(),
    {
        if o.len() == 0 {
            0
        } else if o.last().0.start < x {
            o.len() as int
        } else {
            part_idx(o.drop_last(), x)
        }
    }

    /// The predicate of the binary search is monotone; stated with a single-index trigger so that the
    /// partition precondition of `partition_point` follows without a quadratic number of instantiations.
    pub proof fn lemma_part<T: Merge>(o: Seq<Ent<T>>, x: u32)
        requires
            sorted(o),
            nonempty(o),
        ensures
            0 <= part_idx(o, x) <= o.len(),
            forall|i: int| 0 <= i < o.len() ==> (((#[trigger] o[i]).0.start < x) <==> i < part_idx(o, x)),
        decreases o.len(),
    {
        if o.len() > 0 {
            let n = o.len() - 1;
            let d = o.drop_last();
            assert forall|i: int, j: int| 0 <= i < j < d.len() implies (#[trigger] d[i]).0.end <= (#[trigger] d[j]).0.start by {
                assert(d[i] == o[i] && d[j] == o[j]);
            }
            assert forall|i: int| 0 <= i < d.len() implies (#[trigger] d[i]).0.start < d[i].0.end by {
                assert(d[i] == o[i]);
            }
            lemma_part(d, x);
            assert forall|i: int| 0 <= i < o.len() implies (((#[trigger] o[i]).0.start < x) <==> i < part_idx(o, x)) by {
                if o[n].0.start < x {
                    if i < n {
                        assert(o[i].0.end <= o[n].0.start);
                        assert(o[i].0.start < o[i].0.end);
                    }
                } else {
                    if i < n {
                        assert(d[i] == o[i]);
                    }
                }
            }
        }
    }

    /// `canon` gives the precondition of `lemma_part` (usable where the parts of `canon` are hidden)
    pub proof fn lemma_part_canon<T: Merge>(o: Seq<Ent<T>>, x: u32)
        requires
            canon(o),
        ensures
            0 <= part_idx(o, x) <= o.len(),
            forall|i: int| 0 <= i < o.len() ==> (((#[trigger] o[i]).0.start < x) <==> i < part_idx(o, x)),
    {
        lemma_part(o, x);
    }

    /// what is known about `lo` after the binary search and the optional step to the left
    #[verifier::opaque]
    pub open spec fn lo_ok<T>(o: Seq<Ent<T>>, lo: int, range: Range<u32>) -> bool {
        &&& 0 <= lo <= o.len()
        &&& (lo > 0 ==> o[lo - 1].0.end < range.start)
        &&& (lo < o.len() ==> o[lo].0.end >= range.start)
        &&& forall|k: int| lo < k < o.len() ==> (#[trigger] o[k]).0.start >= range.start
    }

    pub proof fn lemma_lo_ok<T: Merge>(o: Seq<Ent<T>>, lo0: int, lo: int, range: Range<u32>)
        requires
            canon(o),
            0 <= lo0 <= o.len(),
            forall|i: int| 0 <= i < lo0 ==> (#[trigger] o[i]).0.start < range.start,
            forall|i: int| lo0 <= i < o.len() ==> !((#[trigger] o[i]).0.start < range.start),
            if lo0 > 0 && o[lo0 - 1].0.end >= range.start { lo == lo0 - 1 } else { lo == lo0 },
        ensures
            lo_ok(o, lo, range),
    {
        reveal(lo_ok);
        if lo < lo0 {
            assert(o[lo].0.start < range.start);
            if lo > 0 { assert(o[lo - 1].0.end <= o[lo].0.start); }
        } else {
            if lo < o.len() {
                assert(o[lo].0.start >= range.start);
                assert(o[lo].0.start < o[lo].0.end);
            }
        }
        assert forall|k: int| lo < k < o.len() implies (#[trigger] o[k]).0.start >= range.start by {}
    }

    /// invariant of the `hi` scan: entries `lo..hi` start at or before `range.end`
    #[verifier::opaque]
    pub open spec fn scan_ok<T>(o: Seq<Ent<T>>, lo: int, hi: int, range: Range<u32>) -> bool {
        forall|k: int| lo <= k < hi ==> (#[trigger] o[k]).0.start <= range.end
    }

    pub proof fn lemma_scan_init<T>(o: Seq<Ent<T>>, lo: int, range: Range<u32>)
        ensures
            scan_ok(o, lo, lo, range),
    {
        reveal(scan_ok);
    }

    pub proof fn lemma_scan_step<T>(o: Seq<Ent<T>>, lo: int, hi: int, range: Range<u32>)
        requires
            scan_ok(o, lo, hi, range),
            o[hi].0.start <= range.end,
        ensures
            scan_ok(o, lo, hi + 1, range),
    {
        reveal(scan_ok);
    }

    /// the window predicate from the facts the binary search and the `hi` scan provide
    pub proof fn lemma_win_intro2<T: Merge>(o: Seq<Ent<T>>, lo: int, hi: int, range: Range<u32>)
        requires
            canon(o),
            range.start < range.end,
            lo_ok(o, lo, range),
            scan_ok(o, lo, hi, range),
            lo < hi <= o.len(),
            hi < o.len() ==> range.end < o[hi].0.start,
        ensures
            win(o, lo, hi, range),
    {
        reveal(lo_ok);
        reveal(scan_ok);
        lemma_win_intro(o, lo, hi, range);
    }

    /// the no-overlap path: `lo == hi`
    pub proof fn lemma_ins_gap<T: Merge>(o: Seq<Ent<T>>, lo: int, range: Range<u32>, value: T, res: Seq<Ent<T>>)
        requires
            canon(o),
            value.wf(),
            range.start < range.end,
            lo_ok(o, lo, range),
            lo < o.len() ==> range.end < o[lo].0.start,
            res == o.insert(lo, (range, value)),
        ensures
            ins_post(o, range, value, res),
    {
        reveal(lo_ok);
        lemma_ins_single(o, lo, range, value, res);
    }

    /// establishing the window predicate from the facts the binary search and the `hi` scan provide
    pub proof fn lemma_win_intro<T: Merge>(o: Seq<Ent<T>>, lo: int, hi: int, range: Range<u32>)
        requires
            canon(o),
            0 <= lo < hi <= o.len(),
            range.start < range.end,
            lo > 0 ==> o[lo - 1].0.end < range.start,
            hi < o.len() ==> range.end < o[hi].0.start,
            o[lo].0.end >= range.start,
            forall|k: int| lo < k < o.len() ==> (#[trigger] o[k]).0.start >= range.start,
            forall|k: int| lo <= k < hi ==> (#[trigger] o[k]).0.start <= range.end,
        ensures
            win(o, lo, hi, range),
    {
        reveal(win);
        assert forall|k: int| lo <= k < hi implies range.start <= (#[trigger] o[k]).0.end && o[k].0.start <= range.end by {
            if k > lo { assert(o[k].0.start >= range.start); }
        }
    }

    /// the empty replacement satisfies the frontier invariant at the left end of the window
    pub proof fn lemma_finv_init<T: Merge>(o: Seq<Ent<T>>, range: Range<u32>, value: T, r0: int, r: Seq<Ent<T>>)
        requires
            r.len() == 0,
        ensures
            finv(o, range, value, r0, r, r0),
    {
        reveal(finv);
        assert forall|c: int| !#[trigger] covers(r, c) by {
            if covers(r, c) {
                let k = idx_of(r, c);
                assert(inr(r[k].0, c));
            }
        }
    }

    /// what the next `push_coalesced` call needs to know about `replacement`
    pub proof fn lemma_finv_pre<T: Merge>(o: Seq<Ent<T>>, range: Range<u32>, value: T, r0: int, r: Seq<Ent<T>>, f: int)
        requires
            finv(o, range, value, r0, r, f),
        ensures
            canon(r),
            r.len() > 0 ==> r.last().0.end <= f,
    {
        reveal(finv);
    }

    /// the seam-coalescing branches of `insert_with` are unreachable: the result is already canonical
    pub proof fn lemma_dead<T: Merge>(o: Seq<Ent<T>>, range: Range<u32>, value: T, res: Seq<Ent<T>>, k: int)
        requires
            ins_post(o, range, value, res),
            0 <= k,
            k + 1 < res.len(),
            res[k].0.end >= res[k + 1].0.start,
        ensures
            !res[k].1.eq_spec(&res[k + 1].1),
    {
        reveal(ins_post);
        lemma_no_coalesce(res, k);
    }

    /// unfolding the contract predicate (the coverage clause is given triggers on `covers`)
    pub proof fn lemma_post_elim<T: Merge>(o: Seq<Ent<T>>, range: Range<u32>, value: T, res: Seq<Ent<T>>)
        requires
            ins_post(o, range, value, res),
        ensures
            canon(res),
            forall|c: int| #[trigger] covers(res, c) <==> covers(o, c) || inr(range, c),
            forall|c: int| covers(o, c) && !inr(range, c) ==> #[trigger] val_at(res, c).eq_spec(&val_at(o, c)),
            forall|c: int| !covers(o, c) && inr(range, c) ==> #[trigger] val_at(res, c).eq_spec(&value),
            forall|c: int| covers(o, c) && inr(range, c) ==> #[trigger] val_at(res, c).eq_spec(&val_at(o, c).merge_spec(&value)),
    {
        reveal(ins_post);
    }

    /// invariant of the rebuild loop (`for i in lo..hi`), packed; `gi` is the loop index, `r` the replacement
    #[verifier::opaque]
    pub open spec fn inv2<T: Merge>(o: Seq<Ent<T>>, lo: int, hi: int, range: Range<u32>, value: T, gi: int, cursor: u32, r: Seq<Ent<T>>) -> bool {
        &&& win(o, lo, hi, range)
        &&& value.wf()
        &&& lo <= gi <= hi
        &&& (gi == lo ==> cursor == win_lo(o, lo, range))
        &&& (gi > lo ==> cursor == o[gi - 1].0.end)
        &&& finv(o, range, value, win_lo(o, lo, range), r, cursor as int)
    }

    pub proof fn lemma_inv2_init<T: Merge>(o: Seq<Ent<T>>, lo: int, hi: int, range: Range<u32>, value: T, cursor: u32, r: Seq<Ent<T>>)
        requires
            win(o, lo, hi, range),
            value.wf(),
            lo < hi,
            cursor == win_lo(o, lo, range),
            r.len() == 0,
        ensures
            inv2(o, lo, hi, range, value, lo, cursor, r),
    {
        reveal(inv2);
        lemma_finv_init(o, range, value, win_lo(o, lo, range), r);
    }

    pub proof fn lemma_inv2_elim<T: Merge>(o: Seq<Ent<T>>, lo: int, hi: int, range: Range<u32>, value: T, gi: int, cursor: u32, r: Seq<Ent<T>>)
        requires
            inv2(o, lo, hi, range, value, gi, cursor, r),
        ensures
            win(o, lo, hi, range),
            lo <= gi <= hi,
            cursor == (if gi == lo { win_lo(o, lo, range) } else { o[gi - 1].0.end as int }),
            finv(o, range, value, win_lo(o, lo, range), r, cursor as int),
            canon(r),
            r.len() > 0 ==> r.last().0.end <= cursor,
    {
        reveal(inv2);
        lemma_finv_pre(o, range, value, win_lo(o, lo, range), r, cursor as int);
    }

    pub proof fn lemma_inv2_next<T: Merge>(o: Seq<Ent<T>>, lo: int, hi: int, range: Range<u32>, value: T, gi: int, cursor: u32, r: Seq<Ent<T>>)
        requires
            win(o, lo, hi, range),
            value.wf(),
            lo <= gi < hi,
            cursor == o[gi].0.end,
            finv(o, range, value, win_lo(o, lo, range), r, cursor as int),
        ensures
            inv2(o, lo, hi, range, value, gi + 1, cursor, r),
    {
        reveal(inv2);
    }

    pub proof fn lemma_inv2_exit<T: Merge>(o: Seq<Ent<T>>, lo: int, hi: int, range: Range<u32>, value: T, cursor: u32, r: Seq<Ent<T>>)
        requires
            inv2(o, lo, hi, range, value, hi, cursor, r),
            lo < hi,
        ensures
            cursor == o[hi - 1].0.end,
            finv(o, range, value, win_lo(o, lo, range), r, o[hi - 1].0.end as int),
            canon(r),
            r.len() > 0 ==> r.last().0.end <= cursor,
    {
        reveal(inv2);
        lemma_finv_pre(o, range, value, win_lo(o, lo, range), r, cursor as int);
    }

    /// in a canonical sequence two neighbours that touch have different values: the seam-coalescing branches
    /// of `insert_with` are unreachable
    pub proof fn lemma_no_coalesce<T: Merge>(s: Seq<Ent<T>>, k: int)
        requires
            canon(s),
            0 <= k,
            k + 1 < s.len(),
            s[k].0.end >= s[k + 1].0.start,
        ensures
            !s[k].1.eq_spec(&s[k + 1].1),
    {
        assert(s[k].0.end <= s[k + 1].0.start);
    }

    impl<T: Merge> IdRanges<T> {
        /*@extract yrs/src/ids.rs | impl<T: Merge> IdRanges<T> | fn insert_with
        @sig
            requires canon(old(self)@), value.wf(),
            ensures
                canon(final(self)@),
                forall|c: int| #![trigger covers(final(self)@, c)] #![trigger covers(old(self)@, c)] #![trigger inr(range, c)] covers(final(self)@, c) <==> covers(old(self)@, c) || inr(range, c),
                forall|c: int| covers(old(self)@, c) && !inr(range, c) ==> #[trigger] val_at(final(self)@, c).eq_spec(&val_at(old(self)@, c)),
                forall|c: int| !covers(old(self)@, c) && inr(range, c) ==> #[trigger] val_at(final(self)@, c).eq_spec(&value),
                forall|c: int| covers(old(self)@, c) && inr(range, c) ==> #[trigger] val_at(final(self)@, c).eq_spec(&val_at(old(self)@, c).merge_spec(&value)),
        @start
            hide(sorted);
            hide(coalesced);
            let ghost o = self.0@;
            proof { T::law_obeys_eq(); }
        @before 1 `stmt:return`
            proof {
                lemma_ins_noop(o, range, value);
                lemma_post_elim(o, range, value, self.0@);
            }
        @before 2 `stmt:return`
            proof {
                lemma_ins_push(o, range, value, self.0@);
                lemma_post_elim(o, range, value, self.0@);
            }
        @before 3 `stmt:return`
            proof {
                lemma_ins_extend(o, range, value, self.0@);
                lemma_post_elim(o, range, value, self.0@);
            }
        @before 4 `stmt:return`
            proof {
                lemma_ins_push(o, range, value, self.0@);
                lemma_post_elim(o, range, value, self.0@);
            }
        @before 1 `stmt:let lo`
            proof {
                lemma_unchanged(o, self.0@);
                lemma_part_canon(o, range.start);
            }
        @after 1 `stmt:let lo`
            let ghost lo0 = lo;
        @before 1 `stmt:let hi`
            proof { lemma_lo_ok(o, lo0 as int, lo as int, range); }
        @after 1 `stmt:let hi`
            proof { lemma_scan_init(o, lo as int, range); }
        @loop 1
            invariant
                self.0@ == o,
                lo <= hi <= o.len(),
                scan_ok(o, lo as int, hi as int, range),
            decreases self.0.len() - hi,
        @before 1 `stmt:assign hi`
            proof { lemma_scan_step(o, lo as int, hi as int, range); }
        @after 1 `stmt:while`
            proof {
                if lo < hi { lemma_win_intro2(o, lo as int, hi as int, range); }
            }
        @after 1 `stmt:call insert`
            let ghost sg = self.0@;
            proof { lemma_ins_gap(o, lo as int, range, value, sg); }
        @before 1 `stmt:assign end`
            proof { lemma_dead(o, range, value, sg, lo as int); assert(false); }
        @before 2 `stmt:assign end`
            proof { lemma_dead(o, range, value, sg, lo - 1); assert(false); }
        @before 5 `stmt:return`
            proof { lemma_post_elim(o, range, value, self.0@); }
        @before 1 `stmt:for`
            let ghost mut gi: int = lo as int;
            proof { lemma_inv2_init(o, lo as int, hi as int, range, value, cursor, replacement@); }
        @loop 2 iter=it2
            invariant
                it2.index@ == gi - lo,
                it2.seq().len() == hi - lo,
                gi == i,
                self.0@ == o,
                lo < hi <= o.len(),
                range.start < range.end,
                value.wf(),
                new_start == range.start,
                new_end == range.end,
                inv2(o, lo as int, hi as int, range, value, gi, cursor, replacement@),
        @after 1 `stmt:let entry_range`
            let ghost g0 = replacement@;
            proof {
                lemma_inv2_elim(o, lo as int, hi as int, range, value, gi, cursor, g0);
                assert(*entry_range == o[i as int].0 && *entry_value == o[i as int].1);
                lemma_win_facts(o, lo as int, hi as int, range, i as int);
            }
        @after 1 `stmt:call push_coalesced`
            proof { assert(pushed(g0, replacement@, cursor..umin(entry_range.start, new_end), value)) by { reveal(pushed); } }
        @after 11 `stmt:if`
            let ghost g1 = replacement@;
            proof { lemma_step_gap(o, lo as int, hi as int, range, value, i as int, cursor, g0, g1); }
        @after 2 `stmt:call push_coalesced`
            proof { assert(pushed(g1, replacement@, entry_range.start..new_start, *entry_value)) by { reveal(pushed); } }
        @before 1 `stmt:let overlap_start`
            let ghost g2 = replacement@;
            proof { lemma_step_prefix(o, lo as int, hi as int, range, value, i as int, g1, g2); }
        @after 3 `stmt:call push_coalesced`
            proof {
                assert(merged == o[i as int].1.merge_spec(&value) && merged.wf());
                assert(pushed(g2, replacement@, overlap_start..overlap_end, o[i as int].1.merge_spec(&value))) by { reveal(pushed); }
            }
        @after 13 `stmt:if`
            let ghost g3 = replacement@;
            proof {
                assert(overlap_start == umax(o[i as int].0.start, range.start));
                assert(overlap_end == umin(o[i as int].0.end, range.end));
                lemma_step_overlap(o, lo as int, hi as int, range, value, i as int, g2, g3);
            }
        @after 4 `stmt:call push_coalesced`
            proof { assert(pushed(g3, replacement@, new_end..entry_range.end, *entry_value)) by { reveal(pushed); } }
        @before 1 `stmt:assign cursor`
            let ghost g4 = replacement@;
            proof { lemma_step_suffix(o, lo as int, hi as int, range, value, i as int, g3, g4); }
        @after 1 `stmt:assign cursor`
            proof {
                lemma_inv2_next(o, lo as int, hi as int, range, value, gi, cursor, replacement@);
                gi = gi + 1;
            }
        @after 1 `stmt:for`
            let ghost h0 = replacement@;
            proof {
                assert(gi == hi);
                lemma_inv2_exit(o, lo as int, hi as int, range, value, cursor, h0);
            }
        @after 5 `stmt:call push_coalesced`
            proof { assert(pushed(h0, replacement@, cursor..new_end, value)) by { reveal(pushed); } }
        @before 1 `stmt:let repl_len`
            let ghost rp = replacement@;
            proof { lemma_step_tail(o, lo as int, hi as int, range, value, h0, rp); }
        @after 1 `stmt:call vx_drain`
            proof { lemma_splice_start(o, lo as int, hi as int, rp, self.0@); }
        @loop 3 iter=it
            invariant
                i == it.index@,
                it.seq() == rp,
                lo <= hi <= o.len(),
                i <= rp.len(),
                self.0.len() == lo + i + (o.len() - hi),
                self.0@ == splice(o, lo as int, hi as int, rp.subrange(0, i as int)),
        @before 2 `stmt:call insert`
            let ghost s0 = self.0@;
        @after 2 `stmt:call insert`
            proof {
                lemma_splice_step(o, lo as int, hi as int, rp, i as int, s0, self.0@);
                assert(self.0.len() == lo + i + 1 + (o.len() - hi));
            }
        @before 1 `stmt:let splice_end`
            let ghost sf = self.0@;
            proof {
                lemma_splice_done(o, lo as int, hi as int, rp, i as int, sf);
                lemma_ins_general(o, lo as int, hi as int, range, value, rp, sf);
            }
        @before 3 `stmt:assign end`
            proof { lemma_dead(o, range, value, sf, prev as int); assert(false); }
        @before 4 `stmt:assign end`
            proof { lemma_dead(o, range, value, sf, lo - 1); assert(false); }
        @end
            proof { lemma_post_elim(o, range, value, self.0@); }
        @*/
    }

    impl IdRanges<()> {
        /*@extract yrs/src/ids.rs | impl IdRanges<()> | fn insert
        @sig
            requires canon(old(self)@),
            ensures
                canon(final(self)@),
                forall|c: int| #![trigger covers(final(self)@, c)] #![trigger covers(old(self)@, c)] #![trigger inr(range, c)] covers(final(self)@, c) <==> covers(old(self)@, c) || inr(range, c),
        @*/
    }
}

} // verus!
fn main() {}
