// unit `seqread` -- HEADER TO BE WRITTEN
#![allow(unused_imports, unused_variables, unused_mut, dead_code, unused_parens, unused_braces, unused_assignments)]
use vstd::prelude::*;
use std::marker::PhantomData;

verus! {

/*@rules R9 R10
   SUB(from=Arc<str>;;to=Str)
   SUB(from=.as_deref();;to=)
@*/

pub mod vx_base {
    use vstd::prelude::*;
    use core::ops::Range;
/*@include vx/prelude.rs @*/
}
use vx_base::vx_unreachable;

// ---------------------------------------------------------------------------------------------
// stand-ins for the value types
// ---------------------------------------------------------------------------------------------
/// `Arc<str>` (the key of a Format content): opaque
#[derive(PartialEq, Eq, Structural, Clone, Copy)]
pub struct Str(pub u64);

/// `crate::Doc` (a sub-document handle): opaque
#[derive(PartialEq, Eq, Structural, Clone, Copy)]
pub struct Doc(pub u64);

/// `Box<Branch>` inside `ItemContent::Type` (a nested shared type): opaque identity
#[derive(PartialEq, Eq, Structural, Clone, Copy)]
pub struct TypeBox(pub u64);

/// `crate::any::Any` as far as the readers build it
#[derive(Copy)]
pub enum Any { Null, Undefined, Prim(u64), Text(Ghost<Seq<char>>), Buffer(Ghost<Seq<u8>>), Array(Ghost<Seq<Any>>) }

/// `crate::out::Out`: a primitive value, a sub-document or a reference to a nested shared type
#[derive(Clone, Copy)]
pub enum Out { Any(Any), YDoc(Doc), YRef(TypeBox) }

impl Clone for Any {
    /// derived `Clone`
    fn clone(&self) -> (r: Self)
        ensures r == *self,
    {
        *self
    }
}

impl Default for Out {
    /*@extract yrs/src/out.rs | impl Default for Out | fn default | label=out_default
    @ret r
    @sig
        ensures r == Out::Any(Any::Undefined),
    @*/
}

/// `String` / `str` / `SmallString`: a sequence of characters
pub struct String {
    pub chars: Vec<char>,
}

pub open spec fn c_utf16(c: char) -> nat {
    if (c as u32) < 0x10000 { 1 } else { 2 }
}

pub open spec fn c_utf8(c: char) -> nat {
    if (c as u32) < 0x80 { 1 } else if (c as u32) < 0x800 { 2 } else if (c as u32) < 0x10000 { 3 } else { 4 }
}

/// length of a text in UTF-16 code units
pub open spec fn utf16_len(s: Seq<char>) -> nat
    decreases s.len(),
{
    if s.len() == 0 { 0 } else { c_utf16(s[0]) + utf16_len(s.skip(1)) }
}

/// length of a text in UTF-8 bytes
pub open spec fn utf8_len(s: Seq<char>) -> nat
    decreases s.len(),
{
    if s.len() == 0 { 0 } else { c_utf8(s[0]) + utf8_len(s.skip(1)) }
}

#[derive(Copy, Clone, PartialEq, Eq, Structural)]
/*@extract yrs/src/doc.rs | - | enum OffsetKind @*/

/// length of a text in the unit of `kind`
pub open spec fn text_len(s: Seq<char>, kind: OffsetKind) -> nat {
    match kind {
        OffsetKind::Bytes => utf8_len(s),
        OffsetKind::Utf16 => utf16_len(s),
    }
}

/// ABSTRACTION of `SplittableString` (real: `content: SmallString<[u8; 8]>`): its characters and its two lengths
pub struct SplittableString {
    pub content: String,
    pub vx_utf16_len: usize,
    pub vx_bytes_len: usize,
}

impl SplittableString {
    pub open spec fn chars(&self) -> Seq<char> {
        self.content.chars@
    }

    /// the two cached lengths are the lengths of the characters
    pub open spec fn str_ok(&self) -> bool {
        self.vx_utf16_len == utf16_len(self.chars()) && self.vx_bytes_len == utf8_len(self.chars())
    }

    pub open spec fn len_spec(&self, kind: OffsetKind) -> usize {
        match kind {
            OffsetKind::Bytes => self.vx_bytes_len,
            OffsetKind::Utf16 => self.vx_utf16_len,
        }
    }

    /// STAND-IN body of `SplittableString::len` (real: the byte length for Bytes and for one-byte strings, else
    /// `encode_utf16().count()`)
    pub fn len(&self, kind: OffsetKind) -> (r: usize)
        ensures r == self.len_spec(kind),
    {
        match kind {
            OffsetKind::Bytes => self.vx_bytes_len,
            OffsetKind::Utf16 => self.vx_utf16_len,
        }
    }

    /// `SplittableString::as_str` / `Deref<Target = str>`
    pub fn as_str(&self) -> (r: &String)
        ensures r.chars@ == self.chars(),
    {
        &self.content
    }
}

// ---------------------------------------------------------------------------------------------
// real declarations + the lowered item / branch
// ---------------------------------------------------------------------------------------------
/*@extract yrs/src/block.rs | - | const ITEM_FLAG_DELETED @*/
/*@extract yrs/src/block.rs | - | const ITEM_FLAG_COUNTABLE @*/

#[derive(Copy, Clone, PartialEq, Eq, Structural)]
/*@extract yrs/src/block.rs | - | struct ItemFlags | rules=SUB(from=ItemFlags(u16);;to=ItemFlags(pub u16)) @*/

impl ItemFlags {
    pub open spec fn deleted_spec(&self) -> bool {
        self.0 & 0b0000_0100 == 0b0000_0100
    }

    pub open spec fn countable_spec(&self) -> bool {
        self.0 & 0b0000_0010 == 0b0000_0010
    }

    /*@extract yrs/src/block.rs | impl ItemFlags | fn check | label=flags_check
    @ret r
    @sig
        ensures r == (self.0 & value == value),
    @*/

    /*@extract yrs/src/block.rs | impl ItemFlags | fn is_deleted | label=flags_is_deleted
    @ret r
    @sig
        ensures r == self.deleted_spec(),
    @*/

    /*@extract yrs/src/block.rs | impl ItemFlags | fn is_countable | label=flags_is_countable
    @ret r
    @sig
        ensures r == self.countable_spec(),
    @*/
}

/*@extract yrs/src/block.rs | - | enum ItemContent | rules=SUB(from=Box<Branch>;;to=TypeBox) @*/

impl ItemContent {
    /// what `ItemContent::len(kind)` returns: the number of INDEX units of the content
    pub open spec fn len_spec(&self, kind: OffsetKind) -> u32 {
        match self {
            ItemContent::Deleted(deleted) => *deleted,
            ItemContent::String(str) => str.len_spec(kind) as u32,
            ItemContent::Any(v) => v@.len() as u32,
            ItemContent::JSON(v) => v@.len() as u32,
            _ => 1,
        }
    }

    /// THE ELEMENTS of a content, per kind -- what `ItemContent::read` / `get_content` yield, in order:
    ///   Any(v): every value of v;  JSON(v): every string of v, as a text value;  Binary(b): ONE buffer value;  Doc(_, d): ONE
    ///   sub-document;  Type(t): ONE reference to the nested shared type;  Embed(a): ONE value;  String(s): one ONE-CHARACTER text
    ///   value per `char` (Unicode scalar value) of s;  Deleted(_) / Format(..): none.
    pub open spec fn elems_spec(&self) -> Seq<Out> {
        match self {
            ItemContent::Any(v) => v@.map_values(|a: Any| Out::Any(a)),
            ItemContent::JSON(v) => v@.map_values(|s: String| Out::Any(Any::Text(Ghost(s.chars@)))),
            ItemContent::Binary(b) => seq![Out::Any(Any::Buffer(Ghost(b@)))],
            ItemContent::Doc(_, d) => seq![Out::YDoc(*d)],
            ItemContent::Type(t) => seq![Out::YRef(*t)],
            ItemContent::Embed(a) => seq![Out::Any(*a)],
            ItemContent::String(s) => s.chars().map_values(|c: char| Out::Any(Any::Text(Ghost(seq![c])))),
            ItemContent::Deleted(_) => Seq::empty(),
            ItemContent::Format(_, _) => Seq::empty(),
        }
    }

    /*@extract yrs/src/block.rs | impl ItemContent | fn len | label=content_len
    @ret r
    @sig
        ensures r == self.len_spec(kind),
    @*/
}

/// sliced + lowered, see the table at the top
pub struct Item {
    pub len: u32,
    pub left: Option<&'static Item>,
    pub right: Option<&'static Item>,
    pub info: ItemFlags,
    pub content: ItemContent,
}

pub type ItemPtr = &'static Item;

/// sliced + lowered, see the table at the top
pub struct Branch {
    pub start: Option<ItemPtr>,
    pub block_len: u32,
    pub content_len: u32,
}

pub type BranchPtr = &'static Branch;

/// a VISIBLE item: not a tombstone and of a countable content kind (what indexes count)
pub open spec fn vis(p: &Item) -> bool {
    !p.info.deleted_spec() && p.info.countable_spec()
}

impl Item {
    /*@extract yrs/src/block.rs | impl Item | fn is_deleted | label=item_is_deleted
    @ret r
    @sig
        ensures r == self.info.deleted_spec(),
    @*/

    /*@extract yrs/src/block.rs | impl Item | fn is_countable | label=item_is_countable
    @ret r
    @sig
        ensures r == self.info.countable_spec(),
    @*/

    /*@extract yrs/src/block.rs | impl Item | fn len | label=item_len
    @ret r
    @sig
        ensures r == self.len,
    @*/

    /*@extract yrs/src/block.rs | impl Item | fn content_len | label=item_content_len
    @ret r
    @sig
        ensures r == self.content.len_spec(kind),
    @*/
}

// ---------------------------------------------------------------------------------------------
// specification, part 1: the chain and THE VIEW
// ---------------------------------------------------------------------------------------------
/// the items reachable through `.right`, nearest first (A5: the chain is finite -- an immutable value of this type IS one)
pub open spec fn chain(n: Option<ItemPtr>) -> Seq<ItemPtr>
    decreases n,
{
    match n {
        None => Seq::empty(),
        Some(p) => seq![p] + chain(p.right),
    }
}

/// the elements of an item
pub open spec fn elems(p: &Item) -> Seq<Out> {
    p.content.elems_spec()
}

/// the elements an item contributes to the sequence: all of them if it is visible, none otherwise
pub open spec fn velems(p: &Item) -> Seq<Out> {
    if vis(p) { elems(p) } else { Seq::empty() }
}

/// THE VIEW  V(c): the concatenation, over the items of the chain that are not deleted and countable, of their elements
pub open spec fn view(c: Seq<ItemPtr>) -> Seq<Out>
    decreases c.len(),
{
    if c.len() == 0 { Seq::empty() } else { velems(c[0]) + view(c.skip(1)) }
}

/// V of a branch
pub open spec fn bview(b: &Branch) -> Seq<Out> {
    view(chain(b.start))
}

/// ITEM WELL-FORMEDNESS (A-LEN): for a visible item, the block length `len`, the index length `content.len(kind)` and the
/// number of elements its content yields are the same number
pub open spec fn item_ok(p: &Item, kind: OffsetKind) -> bool {
    vis(p) ==> p.len as int == elems(p).len() && p.content.len_spec(kind) as int == elems(p).len()
}

pub open spec fn items_ok(c: Seq<ItemPtr>, kind: OffsetKind) -> bool {
    forall|i: int| 0 <= i < c.len() ==> item_ok(#[trigger] c[i], kind)
}

/// shift a location by `k` items
pub open spec fn lift(k: int, w: Option<(int, int)>) -> Option<(int, int)> {
    match w {
        Some((j, r)) => Some((k + j, r)),
        None => None,
    }
}

/// WHERE V[i] LIVES: (index of the item in the chain, offset of the element in that item); None if there is no V[i]
pub open spec fn locate(c: Seq<ItemPtr>, i: int) -> Option<(int, int)>
    decreases c.len(),
{
    if c.len() == 0 {
        None
    } else if vis(c[0]) && i < elems(c[0]).len() {
        Some((0, i))
    } else {
        lift(1, locate(c.skip(1), i - velems(c[0]).len()))
    }
}

pub proof fn lemma_items_ok_skip(c: Seq<ItemPtr>, kind: OffsetKind, n: int)
    requires
        items_ok(c, kind),
        0 <= n <= c.len(),
    ensures
        items_ok(c.skip(n), kind),
{
    let t = c.skip(n);
    assert forall|i: int| 0 <= i < t.len() implies item_ok(#[trigger] t[i], kind) by {
        assert(t[i] == c[i + n]);
    }
}

/// `locate` characterized: for 0 <= i, None exactly when i >= |V|; otherwise a VISIBLE item k and an offset o inside it with
/// V[i] == elems(c[k])[o]
pub proof fn lemma_locate(c: Seq<ItemPtr>, i: int)
    requires
        0 <= i,
    ensures
        locate(c, i) is None <==> i >= view(c).len(),
        match locate(c, i) {
            Some((k, o)) => 0 <= k < c.len() && vis(c[k]) && 0 <= o < elems(c[k]).len() && view(c)[i] == elems(c[k])[o],
            None => true,
        },
    decreases c.len(),
{
    if c.len() > 0 {
        if vis(c[0]) && i < elems(c[0]).len() {
        } else {
            let t = c.skip(1);
            let m = i - velems(c[0]).len();
            lemma_locate(t, m);
            match locate(t, m) {
                Some((k, o)) => {
                    assert(t[k] == c[k + 1]);
                },
                None => {},
            }
        }
    }
}

/// `cur` is what is left of the chain `c0` (a suffix of it)
pub open spec fn walk_inv(c0: Seq<ItemPtr>, cur: Seq<ItemPtr>) -> bool {
    cur.len() <= c0.len() && cur =~= c0.skip(c0.len() - cur.len())
}

pub open spec fn lift1(k: int, w: Option<int>) -> Option<int> {
    match w {
        Some(j) => Some(k + j),
        None => None,
    }
}

/// index of the first item that is not a tombstone
pub open spec fn first_live(c: Seq<ItemPtr>) -> Option<int>
    decreases c.len(),
{
    if c.len() == 0 {
        None
    } else if !c[0].info.deleted_spec() {
        Some(0)
    } else {
        lift1(1, first_live(c.skip(1)))
    }
}

// ---------------------------------------------------------------------------------------------
// the real code, part 1: Branch (yrs/src/branch.rs)
// ---------------------------------------------------------------------------------------------
impl Branch {
    /*@extract yrs/src/branch.rs | impl Branch | fn len | label=branch_len
    @ret r
    @sig
        ensures r == self.block_len,
    @*/

    /*@extract yrs/src/branch.rs | impl Branch | fn content_len | label=branch_content_len
    @ret r
    @sig
        ensures r == self.content_len,
    @*/

    // (loop_isolation(false): the contract speaks about the INITIAL value of the `mut index` parameter, which no loop invariant
    // can name)
    #[verifier::loop_isolation(false)]
    #[verifier::allow_complex_invariants]
    /*@extract yrs/src/branch.rs | impl Branch | fn get_at | label=branch_get_at | rules=SUB(from=self.start.as_ref();;to=self.start) SUB(from=ptr.map(ItemPtr::deref);;to=ptr) SUB(from=item.right.as_ref();;to=item.right)
    @ret r
    @sig
        requires
            items_ok(chain(self.start), OffsetKind::Utf16),
        ensures
            // Some((content of the item holding V[index], offset of V[index] in it)) ...
            match locate(chain(self.start), index as int) {
                Some((k, o)) => r == Some((&chain(self.start)[k].content, o as usize)),
                None => r is None,
            },
            // ... iff index < |V|
            r is None <==> index >= bview(self).len(),
    @start
        let ghost c0 = chain(self.start);
        let ghost index0 = index;
        proof {
            lemma_locate(c0, index as int);
            assert(c0.skip(0) =~= c0);
        }
    @loop 1
        invariant
            c0 == chain(self.start),
            items_ok(c0, OffsetKind::Utf16),
            walk_inv(c0, chain(ptr)),
            locate(c0, index0 as int) == lift(c0.len() - chain(ptr).len(), locate(chain(ptr), index as int)),
        ensures
            locate(c0, index0 as int) is None,
        decreases
            chain(ptr).len(),
    @loopstart 1
        proof {
            let k = c0.len() - chain(ptr).len();
            assert(chain(ptr) =~= seq![item] + chain(item.right));
            assert(chain(ptr)[0] == c0[k] && chain(ptr)[0] == item);
            assert(chain(ptr).skip(1) =~= chain(item.right));
            assert(c0.skip(k).skip(1) =~= c0.skip(k + 1));
            assert(item_ok(c0[k], OffsetKind::Utf16));
        }
    @before 1 `stmt:return`
        proof {
            assert(locate(chain(ptr), index as int) == Some((0int, index as int)));
            let k = c0.len() - chain(ptr).len();
            assert(locate(c0, index0 as int) == Some((k, index as int)));
            assert(c0[k] == item);
        }
    @*/

    /*@extract yrs/src/branch.rs | impl Branch | fn first | label=branch_first | rules=SUB(from=self.start.as_ref();;to=self.start) SUB(from=ptr.map(ItemPtr::deref);;to=ptr) SUB(from=item.right.as_ref();;to=item.right)
    @ret r
    @sig
        ensures
            // the first item of the chain that is not a tombstone (countable or not), None if there is none
            match first_live(chain(self.start)) {
                Some(k) => r == Some(chain(self.start)[k]),
                None => r is None,
            },
    @start
        let ghost c0 = chain(self.start);
        proof {
            assert(c0.skip(0) =~= c0);
        }
    @loop 1
        invariant
            c0 == chain(self.start),
            walk_inv(c0, chain(ptr)),
            first_live(c0) == lift1(c0.len() - chain(ptr).len(), first_live(chain(ptr))),
        ensures
            first_live(c0) is None,
        decreases
            chain(ptr).len(),
    @loopstart 1
        proof {
            let k = c0.len() - chain(ptr).len();
            assert(chain(ptr) =~= seq![item] + chain(item.right));
            assert(chain(ptr)[0] == c0[k]);
            assert(chain(ptr).skip(1) =~= chain(item.right));
            assert(c0.skip(k).skip(1) =~= c0.skip(k + 1));
        }
    @*/
}

// the body of the loop of `get_at` on its own (R18 statement region; `return Some(..)` is spelled `return (Some(..), index)`, falling
// through is `(None, index)`: SUB / tail, logged), so that an edit of the body fails a contract clause of real code
/*@extract yrs/src/branch.rs | impl Branch | region get_at | stmt=stmt:while #1 >> stmt:let len | stmtnth=1 | upto=stmt:while #1 >> stmt:if | tail=(None, index) | label=get_at_step | rules=SUB(from=return Some((&item.content, index as usize));;to=return (Some((&item.content, index as usize)), index))
@header
    pub fn get_at_step<'a>(item: &'a Item, mut index: u32) -> (r: (Option<(&'a ItemContent, usize)>, u32))
@sig
    ensures
        // a visible item that holds the index: found, at offset `index`
        vis(item) && index < item.len ==> r.0 == Some((&item.content, index as usize)),
        // a visible item in front of the index: its `len` units are consumed; an invisible item (tombstone / not countable): passed
        !(vis(item) && index < item.len) ==> r.0 is None && r.1 == index - (if vis(item) { item.len as int } else { 0 }),
@*/

} // verus!
fn main() {}
