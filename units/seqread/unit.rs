// unit `seqread` -- the READERS of a sequence-like shared type (yrs/src/branch.rs: `Branch::{get_at, first, len, content_len}`;
// yrs/src/block_iter.rs: `BlockIter::{new, rel, finished, next_item, left, right, can_forward, forward, try_forward, slice,
// read_value}`; yrs/src/types/array.rs: trait `Array` default methods `len`, `get`, `iter`, `ArrayIter::{from, from_ref, next}`,
// `impl ToJson for ArrayRef`; yrs/src/types/text.rs: `impl GetString for TextRef`, `Text::len`; yrs/src/block.rs: `ItemContent::{len,
// get_content}`, the `Any` / `JSON` arms of `ItemContent::read`, `Item::{is_deleted, is_countable, len, content_len}`, `ItemFlags`).
// Serves C17 (KERNEL ONLY, the SEQUENCE half; the map half is unit `mapread`): "every way of reading a shared type tells the same
// story: len equals the number of elements yielded by iteration and the size of to_json; get(i) equals the i-th iterated element
// and returns nothing exactly when i is out of range; a text's length equals the length of get_string in the configured unit plus
// one per embed ..." and the first mechanism of C03 ("index -> item position -- Branch::index_to_ptr, BlockIter::try_forward":
// here the READ-ONLY walks `get_at` and `try_forward`; `index_to_ptr` splits blocks, it is a writer).
// NOT here: `backward`, `delete`, `split_rel`, `insert_contents` (they mutate the list), `Text::diff` (formatting attributes), the
// XML readers (`XmlFragment::{get, children}` go through `get_at` / `read_value`, both under contract here, and then through the
// `XmlOut::try_from` conversions, which are not ingested), that integration keeps the cached counters right.
//
// THE VIEW (ONE for all readers; for EVERY list state -- tombstones, non-countable items anywhere, any block layout; no invariant
// of the integration code is used).  c = chain(branch.start) = the items reachable through `.right`;  vis(p) := !deleted(p) &&
// countable(p) (the two FLAGS of the item);
//     V(branch) = view(c) := the concatenation, over the visible items of c in order, of elems(p.content)
//   AN ELEMENT, per content kind (`ItemContent::elems_spec`, following `ItemContent::read`): Any(v): every value of v; JSON(v):
//   every string of v as a text value; Binary: ONE buffer value; Doc: ONE sub-document; Type: ONE reference to the nested type;
//   Embed: ONE value; String(s): one ONE-CHARACTER text value per `char` of s; Deleted / Format: none.
//   locate(c, i) = WHERE V[i] LIVES: (index k of the item in c, offset o inside it); `lemma_locate`: None iff i >= |V|, else a
//   visible item and V[i] == elems(c[k])[o].
// ASSUMPTION A-LEN (`item_ok(p, kind)`, of every item of the chain, for the document's offset kind): for a VISIBLE item the
//   three numbers the readers count with are the same and >= 1: `p.len` (get_at), `p.content.len(kind)` (BlockIter) and the number
//   of elements `read` yields.  DERIVED (`lemma_item_ok_non_string`) from what `Item::new` establishes (`item_new_ok`: len ==
//   content.len(Utf16) >= 1, countable flag == content kind) for EVERY content kind but String, in both offset kinds.  For String
//   content it holds iff the string has as many chars as index units (`lemma_item_ok_string`): see OBSERVATION S1.
// ABSTRACTION FUNCTION of a `BlockIter` cursor (next_item, rel, reached_end):
//     ahead(cursor) := [] if reached_end, else view(chain(next_item)).skip(rel)        -- the elements still in front of it
//     pos(cursor)   := |V| - |ahead(cursor)|                                          -- the position in V it stands for
//   REPRESENTATION INVARIANT `wf`: the cursor is in order (`cursor_ok`: rel is 0 or an offset INSIDE the visible item under the
//   cursor; no item only at the end), chain(next_item) is a suffix of c, rel <= index <= |V| and V[index ..] == ahead(cursor)
//   (so pos(cursor) == index: `lemma_pos`).  Established by `new` (position 0), kept by try_forward / forward / slice / read_value.
//
// WHAT THE CODE CONSULTS BESIDES THE LIST: two CACHED counters of the branch.  `block_len` is what `Array::len` / `Branch::len`
//   return and the buffer size of `to_json`; `content_len` is what `Text::len` returns AND what `try_forward` / `slice` /
//   `finished` compare positions with.  They are maintained by integration / deletion; `counters_ok(b) := block_len == |V| &&
//   content_len == |V|` is the ONE thing this unit cannot decide.  Every contract below is TOTAL in the counters: it says what
//   the function does for EVERY value of them, and what that means when they are right.
// CONTRACTS (whole functions; p = position / index before the call, cl = branch.content_len, A = ahead(cursor) before the call)
//   Branch::get_at(i)        [A-LEN(Utf16)] Some((&c[k].content, o)) for (k, o) = locate(c, i) -- the content of the item holding V[i]
//                            and the offset of V[i] in it -- ; None iff i >= |V|.
//   Branch::first            the first item of c that is not a tombstone (countable or not), None if there is none.
//   Branch::{len, content_len}, Array::len, Text::len      return the CACHED field (block_len resp. content_len).
//   BlockIter::new           position 0, ahead == V, wf for every offset kind under which the chain is A-LEN.
//   BlockIter::{rel, next_item, left, right}   the fields / field expressions they read (`left`: next_item at the end, else its
//                            `.left`; `right`: None at the end, else next_item).
//   BlockIter::finished      reached_end || index == cl;  with cl == |V|: <==> pos(cursor) == |V|.
//   BlockIter::can_forward   !reached_end && (len > 0 || the item is INVISIBLE)  (the `|| self.reached_end` inside is dead).
//   BlockIter::try_forward(n) [cursor part of wf; DOMAIN: index + n <= u32::MAX, unchecked addition]
//                            TRUE iff (n == 0 on an empty list) or (p + n <= cl and the list is not empty); false changes nothing.
//                            True: ahead == A.skip(min(n, |A|)), index == p + min(n, |A|): FROM POSITION p THE CURSOR STANDS AT
//                            min(p + n, |V|); wf is kept; the cursor is NORMALISED: `reached_end`, or next_item is the VISIBLE
//                            item that holds V[p + n] and rel < its length is the offset of V[p + n] in it (a target on a
//                            block boundary is offset 0 of the NEXT visible item, never offset == length of the previous one;
//                            trailing invisible items are passed).  Forward to EXACTLY the end (p + n == |V|) is allowed and
//                            sets reached_end (`finished`).  With cl == |V|: true <==> p + n <= |V|.  The `return false`s inside
//                            the loop are unreachable.
//     theorem_index_to_position (pure)  such a cursor at index < |V| is EXACTLY locate(c, index): `try_forward(i)` on a new
//                            BlockIter and `get_at(i)` designate the same (item, offset), and V[i] is that element.
//   BlockIter::forward(n)    requires the `true` case of try_forward (else `panic!("Length exceeded")`), ensures its effect.
//   BlockIter::slice(buf)    [wf; DOMAIN: buf.len() and index + buf.len() fit u32]  p + buf.len() > cl: the buffer is REFUSED AS
//                            A WHOLE -- returns 0, nothing read, nothing changed (even if elements are ahead).  Otherwise
//                            r == min(buf.len(), |V| - p), buf[0 .. r) == V[p .. p + r), the rest of buf untouched, cursor at
//                            p + r, wf kept.  (r < buf.len() needs cl > |V|; then next_item is set to None at the end.)  The
//                            early `return read` is unreachable.
//   BlockIter::read_value    [wf; DOMAIN index < u32::MAX]  == get_spec(branch, p) := Some(V[p]) if p < |V| && p < cl, else None;
//                            advances by one exactly when it answers.
//   Array::get(i)            [A-LEN; DOMAIN i < u32::MAX]  == get_spec(branch, i); with cl == |V|: None <==> i >= |V|.
//   ArrayIter::{from, from_ref}, Array::iter   position 0, pending == V.   ArrayIter::next  == get_spec(branch, p); Some: == pending[0],
//                            pending' == pending.skip(1); None: nothing changes in `pending`; with cl == |V|: None <==> pending == [].
//     lemma_drain (pure)     iterating to the end yields exactly what was pending, in order.
//   <ArrayRef as ToJson>::to_json   REQUIRES block_len == 0 || (block_len <= |V| && block_len <= content_len): the WEAKEST
//                            precondition under which its `panic!("Defect: Array::to_json didn't read all elements")` is
//                            unreachable (proved).  ensures r == Any::Array(JSON images of V[0 .. block_len)); with block_len ==
//                            |V|: of exactly V.  (A too SMALL block_len does not panic: to_json silently lists a prefix.)
//   GetString::get_string    == text_of(c): the String contents of the items that are NOT TOMBSTONES, in list order.  It does not
//                            test `is_countable` (a String item is countable by kind) and ignores embeds, formats, nested types.
//   ItemContent::len         the real body.   ItemContent::read: STAND-IN body dispatching to the REAL arms `Any` and `JSON`
//                            (`content_read_any`, `content_read_json`, R18 arm regions); contract `read_post`: for an offset inside
//                            the content, elems[offset ..] are copied to the front of buf as far as both reach, count returned.
//   ItemContent::get_content the real body: all elements if there are `len(Utf16)` of them (A-LEN); a prefix if more; NOTHING if fewer.
//   STEP level (R18 regions, so that an edit of a loop body / prologue fails a contract clause of real code, not only a spliced
//   invariant): get_at_step, try_forward_enter, try_forward_step, slice_enter, slice_step, slice_refill, get_string_step.
// THE TYING THEOREM `theorem_seq_read_paths_agree` (pure), for EVERY branch state with A-LEN items:
//   (1) get_at(i) finds an element exactly for 0 <= i < |V|, and it is V[i];  (2) get(i) / read_value / ArrayIter::next / slice
//   never return anything but V[i], the element get_at(i) points to, and do return it for every i below the cached content_len;
//   (3) to_json lists the JSON images of a prefix of V;  and UNDER ITS SINGLE PRECONDITION `counters_ok` (the cached counters
//   equal |V|):  (4) get(i) == V[i] for i < len() and get(i) is None EXACTLY when i >= len();  (5) iter(), drained, yields exactly
//   V in order: len() elements, the i-th being get(i);  (6) to_json is the array of the JSON images of exactly these: size len().
// TEXT (`theorem_text_len`, pure, BOTH offset kinds): units_of(c, kind) -- the sum of content.len(kind) over the visible items:
//   what `Text::len` returns when the cached `content_len` is right -- == text_len(get_string(), kind) + the number of visible
//   non-string items ("plus one per embed").  Bytes lines up as well as Utf16 (lengths are additive under concatenation); known
//   finding K3 is about OFFSETS inside a block, not about lengths.  `lemma_plain_text_view`: for a plain text V is the
//   characters of get_string(), one element each -- |V| counts CHARS while len counts units/bytes; no reader of a text goes
//   through `read` / BlockIter, so no two readers of a text disagree.
//
// FINDINGS: none on states the crate's own API produces -- with right counters all readers agree on every layout (tombstones,
//   Format / collected items in between and trailing, `rel` at a block boundary, index == |V|, embeds in a text).
// OBSERVATION S1 (reproduced through the public API: units/seqread/repro/main.rs; needs a hand-crafted update, like OBSERVATION C of
//   `mapread`): String content inside an ARRAY (the Array API stores text as Any::String values; the decoder and integration accept
//   any content kind under any parent).  A-LEN fails for a string with an astral character (len == content_len == 2 UTF-16 units,
//   `read` yields 1 element: `observation_s1_string_item_breaks_a_len`) or, in a Bytes document, any non-ASCII character.  Then the
//   loop of `slice` makes no progress (`read` returns 0 at offset 1, `rel + 0 != content_len`, `continue`): the termination proof
//   of `slice` is exactly where A-LEN (r >= 1) is used.  apply_update of [1,1,1,0,4,1,1,'a',4,0xF0,0x9F,0x98,0x80,0] into a
//   document with an array "a": len() == 2, get(0) == "\u{1F600}", and get(1), iter().collect(), to_json() DO NOT RETURN;
//   Bytes document, content "\u{e9}": len() == 1, to_json() == ["\u{e9}"], get(1) and iter() do not return.  With BMP-only
//   content in a UTF-16 document ("ab") all readers agree (2 one-character elements).
// ------------------------------------------------------------------------------------------------------------------
// LOWERING AND STAND-IN TYPES (everything not listed is extracted verbatim from /repo on every run)
//   ItemPtr / BranchPtr   real: `NonNull` wrappers with Deref.  here `&'static Item` / `&'static Branch` (read-only lowering R15).
//                ASSUMPTION A5: the pointees are alive and not mutated during a call / the life of an iterator; an immutable value
//                of the lowered type IS a finite chain.  Spellings (identities on the lowered type; SUB, logged):
//                `.as_deref()` -> ``, `self.start.as_ref()` -> `self.start`, `ptr.map(ItemPtr::deref)` -> `ptr`,
//                `item.right.as_ref()` -> `item.right`, `self.0.deref()` -> `self.0`, `BranchPtr::from(self.as_ref())` ->
//                `self.as_ref()` with `as_ref` returning `BranchPtr`, `array: &Branch` -> `array: BranchPtr`.
//   Item         sliced to `len`, `left`, `right`, `info`, `content`.   Branch  sliced to `start`, `block_len`, `content_len`.
//   ItemContent  the REAL enum declaration with payload types spelled as stand-ins: `Any` = enum { Null, Undefined, Prim, String,
//                Buffer, Array } with ghost payloads (Copy; `Clone` returns an equal value); `Out` = { Any, YDoc, YRef };
//                `Arc<str>` -> `Str`, `Doc`, `Box<Branch>` -> `TypeBox`: opaque identities; `String` = a vector of chars;
//                `SplittableString` = its chars + its two lengths as fields (`str_ok` names their relation; `len` / `as_str`
//                stand-in bodies).  `Out::to_json` is OPAQUE (`json_of`, closed).
//   ReadTxn      `store().offset_kind` (`kind_spec`).  `Borrow<T>`: stand-in trait with the two std impls (T, &T).
//   trait Array / Text / AsRef / ToJson / GetString / Iterator impls are emitted as inherent methods of ArrayRef / TextRef /
//                ArrayIter (`Option<Self::Item>` -> `Option<Out>`); field visibility (`pub` added): SUB, logged.
//   STAND-INS FOR std WITH VERIFIED BODIES (no external_body of this unit's own; each has std's documented behaviour as contract):
//                `std::mem::replace` -> `vx_replace` (body: vstd's `mem::swap`);  `buf.into_iter()` -> `vx_into_iter(buf)` whose
//                `.map(f)` / `.collect()` apply the REAL closure (`|v| v.to_json(txn)`, annotated with its contract: @closure) to
//                every element in order -- the payload of `Any::Array` is a ghost sequence;  `String::{new, push_str}` (push_str
//                applied to a `&SplittableString` through its Deref<Target = str>);  `Any::from(&str)`, `String::as_str`.
//                vstd's own: `vec![x; n]`, slices (`&mut buf[a..]`, index assignment), arrays, `Vec::default`, `Option::clone`.
//   `#[verifier::loop_isolation(false)]` + `allow_complex_invariants` on `get_at`: its contract speaks about the INITIAL value of
//                the `mut index` parameter, which no loop invariant can name (`locate` is hidden there and unfolded one step at
//                a time by `lemma_locate_unfold`, which keeps the query small also on an edited body).
// TRUSTED: nothing of its own.  `vx_unreachable` (vx/prelude.rs, R9: `panic!` = an obligation) is used by forward / to_json.
// ------------------------------------------------------------------------------------------------------------------
#![allow(unused_imports, unused_variables, unused_mut, dead_code, unused_parens, unused_braces, unused_assignments)]
use vstd::prelude::*;
use std::marker::PhantomData;

verus! {

/*@rules R9 R10
   SUB(from=Arc<str>;;to=Str)
   SUB(from=.as_deref();;to=)
@*/

pub mod vx_base {
    use vstd::prelude::*;
    use core::ops::Range;
/*@include vx/prelude.rs @*/
}
use vx_base::vx_unreachable;

// ---------------------------------------------------------------------------------------------
// stand-ins for the value types
// ---------------------------------------------------------------------------------------------
/// `Arc<str>` (the key of a Format content): opaque
#[derive(PartialEq, Eq, Structural, Clone, Copy)]
pub struct Str(pub u64);

/// `crate::Doc` (a sub-document handle): opaque
#[derive(PartialEq, Eq, Structural, Clone, Copy)]
pub struct Doc(pub u64);

/// `Box<Branch>` inside `ItemContent::Type` (a nested shared type): opaque identity
#[derive(PartialEq, Eq, Structural, Clone, Copy)]
pub struct TypeBox(pub u64);

/// `crate::any::Any` as far as the readers build it
#[derive(Copy)]
pub enum Any { Null, Undefined, Prim(u64), String(Ghost<Seq<char>>), Buffer(Ghost<Seq<u8>>), Array(Ghost<Seq<Any>>) }

/// `crate::out::Out`: a primitive value, a sub-document or a reference to a nested shared type
#[derive(Clone, Copy)]
pub enum Out { Any(Any), YDoc(Doc), YRef(TypeBox) }

impl Clone for Any {
    /// derived `Clone`
    fn clone(&self) -> (r: Self)
        ensures r == *self,
    {
        *self
    }
}

impl Default for Out {
    /*@extract yrs/src/out.rs | impl Default for Out | fn default | label=out_default
    @ret r
    @sig
        ensures r == Out::Any(Any::Undefined),
    @*/
}

/// `String` / `str` / `SmallString`: a sequence of characters
pub struct String {
    pub chars: Vec<char>,
}

pub open spec fn c_utf16(c: char) -> nat {
    if (c as u32) < 0x10000 { 1 } else { 2 }
}

pub open spec fn c_utf8(c: char) -> nat {
    if (c as u32) < 0x80 { 1 } else if (c as u32) < 0x800 { 2 } else if (c as u32) < 0x10000 { 3 } else { 4 }
}

/// length of a text in UTF-16 code units
pub open spec fn utf16_len(s: Seq<char>) -> nat
    decreases s.len(),
{
    if s.len() == 0 { 0 } else { c_utf16(s[0]) + utf16_len(s.skip(1)) }
}

/// length of a text in UTF-8 bytes
pub open spec fn utf8_len(s: Seq<char>) -> nat
    decreases s.len(),
{
    if s.len() == 0 { 0 } else { c_utf8(s[0]) + utf8_len(s.skip(1)) }
}

#[derive(Copy, Clone, PartialEq, Eq, Structural)]
/*@extract yrs/src/doc.rs | - | enum OffsetKind @*/

/// length of a text in the unit of `kind`
pub open spec fn text_len(s: Seq<char>, kind: OffsetKind) -> nat {
    match kind {
        OffsetKind::Bytes => utf8_len(s),
        OffsetKind::Utf16 => utf16_len(s),
    }
}

/// ABSTRACTION of `SplittableString` (real: `content: SmallString<[u8; 8]>`): its characters and its two lengths
pub struct SplittableString {
    pub content: String,
    pub vx_utf16_len: usize,
    pub vx_bytes_len: usize,
}

impl SplittableString {
    pub open spec fn chars(&self) -> Seq<char> {
        self.content.chars@
    }

    /// the two cached lengths are the lengths of the characters
    pub open spec fn str_ok(&self) -> bool {
        self.vx_utf16_len == utf16_len(self.chars()) && self.vx_bytes_len == utf8_len(self.chars())
    }

    pub open spec fn len_spec(&self, kind: OffsetKind) -> usize {
        match kind {
            OffsetKind::Bytes => self.vx_bytes_len,
            OffsetKind::Utf16 => self.vx_utf16_len,
        }
    }

    /// STAND-IN body of `SplittableString::len` (real: the byte length for Bytes and for one-byte strings, else
    /// `encode_utf16().count()`)
    pub fn len(&self, kind: OffsetKind) -> (r: usize)
        ensures r == self.len_spec(kind),
    {
        match kind {
            OffsetKind::Bytes => self.vx_bytes_len,
            OffsetKind::Utf16 => self.vx_utf16_len,
        }
    }

    /// `SplittableString::as_str` / `Deref<Target = str>`
    pub fn as_str(&self) -> (r: &String)
        ensures r.chars@ == self.chars(),
    {
        &self.content
    }
}

impl String {
    /// `String::as_str`
    pub fn as_str(&self) -> (r: &String)
        ensures r.chars@ == self.chars@,
    {
        self
    }
}

impl Any {
    /// `Any::from(c.to_string())`: the one-character text value
    pub fn from_char(c: char) -> (r: Any)
        ensures r == Any::String(Ghost(seq![c])),
    {
        let ghost g = seq![c];
        Any::String(Ghost(g))
    }

    /// `impl From<&str> for Any`: the text value with the same characters
    pub fn from(v: &String) -> (r: Any)
        ensures r == Any::String(Ghost(v.chars@)),
    {
        Any::String(Ghost(v.chars@))
    }
}

/// `std::mem::replace` (no vstd specification): moves `src` into `dest`, returns the previous value.  Verified body (vstd's `swap`)
pub fn vx_replace<T>(dest: &mut T, src: T) -> (r: T)
    ensures
        r == *old(dest),
        *final(dest) == src,
{
    let mut s = src;
    core::mem::swap(dest, &mut s);
    s
}

impl String {
    /// `String::new`
    pub fn new() -> (r: String)
        ensures r.chars@ == Seq::<char>::empty(),
    {
        String { chars: Vec::new() }
    }

    /// `String::push_str(&str)` -- std: "appends a given string slice onto the end of this String" -- applied to a
    /// `&SplittableString` through its `Deref<Target = str>`.  STAND-IN with a verified body.
    pub fn push_str(&mut self, other: &SplittableString)
        ensures
            final(self).chars@ == old(self).chars@ + other.chars(),
    {
        let mut i: usize = 0;
        while i < other.content.chars.len()
            invariant
                0 <= i <= other.content.chars@.len(),
                self.chars@ == old(self).chars@ + other.content.chars@.subrange(0, i as int),
            decreases other.content.chars@.len() - i,
        {
            self.chars.push(other.content.chars[i]);
            proof {
                assert(other.content.chars@.subrange(0, i as int).push(other.content.chars@[i as int]) =~= other.content.chars@.subrange(0, i + 1));
            }
            i += 1;
        }
        proof {
            assert(other.content.chars@.subrange(0, i as int) =~= other.content.chars@);
        }
    }
}

pub mod vx_out {
    use vstd::prelude::*;
    use super::{Any, Out, ReadTxn};

    /// the JSON image of a value (`Out::to_json`): opaque outside this module
    pub closed spec fn json_of(o: Out) -> Any {
        match o {
            Out::Any(a) => a,
            Out::YDoc(d) => Any::Prim(d.0),
            Out::YRef(t) => Any::Prim(t.0),
        }
    }

    /// the first arm of the real `Out::to_json` (`Out::Any(a) => a.clone()`)
    pub proof fn lemma_json_of_any(a: Any)
        ensures json_of(Out::Any(a)) == a,
    {
    }

    impl Out {
        /// `Out::to_json` (real: recursion into the nested shared type): OPAQUE
        pub fn to_json<T: ReadTxn>(&self, txn: &T) -> (r: Any)
            ensures r == json_of(*self),
        {
            match self {
                Out::Any(a) => *a,
                Out::YDoc(d) => Any::Prim(d.0),
                Out::YRef(t) => Any::Prim(t.0),
            }
        }
    }
}
use vx_out::*;

// `buf.into_iter().map(|v| v.to_json(txn)).collect()` into the `Arc<[Any]>` of `Any::Array` -- std: every element of the vector, in
// order, mapped by the closure.  STAND-INS with verified bodies for `Vec::into_iter` / `Iterator::map` / `Iterator::collect`; the
// closure is the REAL one (annotated with its contract, @closure); the payload of `Any::Array` is a ghost sequence here.
pub struct VxIntoIter {
    pub v: Vec<Out>,
}

pub struct VxMap<F> {
    pub v: Vec<Out>,
    pub f: F,
}

pub fn vx_into_iter(v: Vec<Out>) -> (r: VxIntoIter)
    ensures r.v@ == v@,
{
    VxIntoIter { v }
}

impl VxIntoIter {
    pub fn map<F: Fn(Out) -> Any>(self, f: F) -> (r: VxMap<F>)
        ensures r.v@ == self.v@ && r.f == f,
    {
        VxMap { v: self.v, f }
    }
}

impl<F: Fn(Out) -> Any> VxMap<F> {
    pub fn collect(self) -> (r: Ghost<Seq<Any>>)
        requires
            forall|i: int| 0 <= i < self.v@.len() ==> call_requires(self.f, (#[trigger] self.v@[i],)),
        ensures
            r@.len() == self.v@.len(),
            forall|i: int| 0 <= i < self.v@.len() ==> call_ensures(self.f, (self.v@[i],), #[trigger] r@[i]),
    {
        let ghost mut res: Seq<Any> = Seq::empty();
        let mut i: usize = 0;
        while i < self.v.len()
            invariant
                0 <= i <= self.v@.len(),
                res.len() == i,
                forall|k: int| 0 <= k < self.v@.len() ==> call_requires(self.f, (#[trigger] self.v@[k],)),
                forall|k: int| 0 <= k < i ==> call_ensures(self.f, (self.v@[k],), #[trigger] res[k]),
            decreases self.v@.len() - i,
        {
            let x = self.v[i];
            let y = (self.f)(x);
            proof {
                res = res.push(y);
            }
            i += 1;
        }
        Ghost(res)
    }
}

// ---------------------------------------------------------------------------------------------
// real declarations + the lowered item / branch
// ---------------------------------------------------------------------------------------------
/*@extract yrs/src/block.rs | - | const ITEM_FLAG_DELETED @*/
/*@extract yrs/src/block.rs | - | const ITEM_FLAG_COUNTABLE @*/

#[derive(Copy, Clone, PartialEq, Eq, Structural)]
/*@extract yrs/src/block.rs | - | struct ItemFlags | rules=SUB(from=ItemFlags(u16);;to=ItemFlags(pub u16)) @*/

impl ItemFlags {
    pub open spec fn deleted_spec(&self) -> bool {
        self.0 & 0b0000_0100 == 0b0000_0100
    }

    pub open spec fn countable_spec(&self) -> bool {
        self.0 & 0b0000_0010 == 0b0000_0010
    }

    /*@extract yrs/src/block.rs | impl ItemFlags | fn check | label=flags_check
    @ret r
    @sig
        ensures r == (self.0 & value == value),
    @*/

    /*@extract yrs/src/block.rs | impl ItemFlags | fn is_deleted | label=flags_is_deleted
    @ret r
    @sig
        ensures r == self.deleted_spec(),
    @*/

    /*@extract yrs/src/block.rs | impl ItemFlags | fn is_countable | label=flags_is_countable
    @ret r
    @sig
        ensures r == self.countable_spec(),
    @*/
}

/*@extract yrs/src/block.rs | - | enum ItemContent | rules=SUB(from=Box<Branch>;;to=TypeBox) @*/

impl ItemContent {
    /// what `ItemContent::len(kind)` returns: the number of INDEX units of the content
    pub open spec fn len_spec(&self, kind: OffsetKind) -> u32 {
        match self {
            ItemContent::Deleted(deleted) => *deleted,
            ItemContent::String(str) => str.len_spec(kind) as u32,
            ItemContent::Any(v) => v@.len() as u32,
            ItemContent::JSON(v) => v@.len() as u32,
            _ => 1,
        }
    }

    /// THE ELEMENTS of a content, per kind -- what `ItemContent::read` / `get_content` yield, in order:
    ///   Any(v): every value of v;  JSON(v): every string of v, as a text value;  Binary(b): ONE buffer value;  Doc(_, d): ONE
    ///   sub-document;  Type(t): ONE reference to the nested shared type;  Embed(a): ONE value;  String(s): one ONE-CHARACTER text
    ///   value per `char` (Unicode scalar value) of s;  Deleted(_) / Format(..): none.
    pub open spec fn elems_spec(&self) -> Seq<Out> {
        match self {
            ItemContent::Any(v) => v@.map_values(|a: Any| Out::Any(a)),
            ItemContent::JSON(v) => v@.map_values(|s: String| Out::Any(Any::String(Ghost(s.chars@)))),
            ItemContent::Binary(b) => seq![Out::Any(Any::Buffer(Ghost(b@)))],
            ItemContent::Doc(_, d) => seq![Out::YDoc(*d)],
            ItemContent::Type(t) => seq![Out::YRef(*t)],
            ItemContent::Embed(a) => seq![Out::Any(*a)],
            ItemContent::String(s) => s.chars().map_values(|c: char| Out::Any(Any::String(Ghost(seq![c])))),
            ItemContent::Deleted(_) => Seq::empty(),
            ItemContent::Format(_, _) => Seq::empty(),
        }
    }

    /*@extract yrs/src/block.rs | impl ItemContent | fn len | label=content_len
    @ret r
    @sig
        ensures r == self.len_spec(kind),
    @*/

    /// `ItemContent::read(offset, buf)`: "reads a contents of current ItemContent into a given `buf`, starting from provided
    /// `offset`; returns a number of elements read this way".  STAND-IN body, except for the arms `Any` and `JSON`, which are the
    /// REAL ones (lifted below: `content_read_any`, `content_read_json`).  Real, other arms: Binary / Doc / Type / Embed write their
    /// one element to buf[0] WHATEVER the offset is and return 1; String: `chars().skip(offset).take(buf.len())`, one
    /// one-character text value per char; Deleted / Format: 0.
    pub fn read(&self, offset: usize, buf: &mut [Out]) -> (n: usize)
        ensures
            read_post(self.elems_spec(), offset as int, old(buf)@, final(buf)@, n as int),
    {
        if buf.len() == 0 {
            0
        } else {
            match self {
                ItemContent::Any(values) => content_read_any(values, offset, buf),
                ItemContent::String(v) => {
                    let mut i = offset;
                    let mut j = 0;
                    while i < v.content.chars.len() && j < buf.len()
                        invariant
                            self.elems_spec().len() == v.content.chars@.len(),
                            forall|k: int| 0 <= k < v.content.chars@.len() ==> self.elems_spec()[k] == Out::Any(Any::String(Ghost(seq![#[trigger] v.content.chars@[k]]))),
                            read_inv(self.elems_spec(), offset as int, old(buf)@, buf@, i as int, j as int),
                        decreases buf@.len() - j,
                    {
                        let c = v.content.chars[i];
                        buf[j] = Out::Any(Any::from_char(c));
                        i += 1;
                        j += 1;
                    }
                    j
                },
                ItemContent::JSON(elements) => content_read_json(elements, offset, buf),
                ItemContent::Binary(v) => {
                    buf[0] = Out::Any(Any::Buffer(Ghost(v@)));
                    1
                },
                ItemContent::Doc(_, doc) => {
                    buf[0] = Out::YDoc(*doc);
                    1
                },
                ItemContent::Type(c) => {
                    buf[0] = Out::YRef(*c);
                    1
                },
                ItemContent::Embed(v) => {
                    buf[0] = Out::Any(*v);
                    1
                },
                ItemContent::Deleted(_) => 0,
                ItemContent::Format(_, _) => 0,
            }
        }
    }
}

impl ItemContent {
    /*@extract yrs/src/block.rs | impl ItemContent | fn get_content | label=content_get_content
    @ret r
    @sig
        ensures
            // all elements of the content -- if they are as many as its UTF-16 length says (A-LEN); the first `len` of them if
            // there are more; NOTHING if there are fewer
            r@ =~= (if self.elems_spec().len() >= self.len_spec(OffsetKind::Utf16) { self.elems_spec().take(self.len_spec(OffsetKind::Utf16) as int) } else { Seq::empty() }),
            self.elems_spec().len() == self.len_spec(OffsetKind::Utf16) ==> r@ =~= self.elems_spec(),
    @*/
}

/// number of elements `read` copies: as many as the content has from `offset` on and the buffer takes
pub open spec fn read_count(e: int, offset: int, l: int) -> int {
    if offset <= e { min(e - offset, l) } else { 0 }
}

/// CONTRACT of `ItemContent::read` (e = the elements of the content): for an offset INSIDE the content (or an empty buffer /
/// empty content) the elements e[offset ..] are copied to the front of the buffer as far as both reach, the rest of the buffer
/// is untouched, the count is returned
pub open spec fn read_post(e: Seq<Out>, offset: int, buf0: Seq<Out>, buf: Seq<Out>, n: int) -> bool {
    &&& buf.len() == buf0.len()
    &&& 0 <= n <= buf0.len()
    &&& forall|j: int| n <= j < buf0.len() ==> buf[j] == buf0[j]
    &&& (offset < e.len() || e.len() == 0 || buf0.len() == 0) ==> {
        &&& n == read_count(e.len() as int, offset, buf0.len() as int)
        &&& forall|j: int| 0 <= j < n ==> buf[j] == e[offset + j]
    }
}

/// the loops of `read` (arms Any, JSON and the stand-in String arm) after j elements
pub open spec fn read_inv(e: Seq<Out>, offset: int, buf0: Seq<Out>, buf: Seq<Out>, i: int, j: int) -> bool {
    &&& buf.len() == buf0.len()
    &&& i == offset + j
    &&& 0 <= j <= buf0.len()
    &&& offset <= e.len() ==> i <= e.len()
    &&& offset > e.len() ==> j == 0
    &&& forall|k: int| 0 <= k < j ==> buf[k] == e[offset + k]
    &&& forall|k: int| j <= k < buf0.len() ==> buf[k] == buf0[k]
}

// the REAL arms `ItemContent::Any(values) => {..}` and `ItemContent::JSON(elements) => {..}` of `ItemContent::read` (R18 arm regions)
/*@extract yrs/src/block.rs | impl ItemContent | region read | arm=ItemContent::Any(values) => | label=content_read_any
@header
    pub fn content_read_any(values: &Vec<Any>, offset: usize, buf: &mut [Out]) -> (n: usize)
@sig
    ensures
        read_post(values@.map_values(|a: Any| Out::Any(a)), offset as int, old(buf)@, final(buf)@, n as int),
@loop 1
    invariant
        read_inv(values@.map_values(|a: Any| Out::Any(a)), offset as int, old(buf)@, buf@, i as int, j as int),
    decreases buf@.len() - j,
@*/

/*@extract yrs/src/block.rs | impl ItemContent | region read | arm=ItemContent::JSON(elements) => | label=content_read_json
@header
    pub fn content_read_json(elements: &Vec<String>, offset: usize, buf: &mut [Out]) -> (n: usize)
@sig
    ensures
        read_post(elements@.map_values(|s: String| Out::Any(Any::String(Ghost(s.chars@)))), offset as int, old(buf)@, final(buf)@, n as int),
@loop 1
    invariant
        read_inv(elements@.map_values(|s: String| Out::Any(Any::String(Ghost(s.chars@)))), offset as int, old(buf)@, buf@, i as int, j as int),
    decreases buf@.len() - j,
@*/

/// sliced + lowered, see the table at the top
pub struct Item {
    pub len: u32,
    pub left: Option<&'static Item>,
    pub right: Option<&'static Item>,
    pub info: ItemFlags,
    pub content: ItemContent,
}

pub type ItemPtr = &'static Item;

/// sliced + lowered, see the table at the top
pub struct Branch {
    pub start: Option<ItemPtr>,
    pub block_len: u32,
    pub content_len: u32,
}

pub type BranchPtr = &'static Branch;

/// a VISIBLE item: not a tombstone and of a countable content kind (what indexes count)
pub open spec fn vis(p: &Item) -> bool {
    !p.info.deleted_spec() && p.info.countable_spec()
}

impl Item {
    /*@extract yrs/src/block.rs | impl Item | fn is_deleted | label=item_is_deleted
    @ret r
    @sig
        ensures r == self.info.deleted_spec(),
    @*/

    /*@extract yrs/src/block.rs | impl Item | fn is_countable | label=item_is_countable
    @ret r
    @sig
        ensures r == self.info.countable_spec(),
    @*/

    /*@extract yrs/src/block.rs | impl Item | fn len | label=item_len
    @ret r
    @sig
        ensures r == self.len,
    @*/

    /*@extract yrs/src/block.rs | impl Item | fn content_len | label=item_content_len
    @ret r
    @sig
        ensures r == self.content.len_spec(kind),
    @*/
}

// ---------------------------------------------------------------------------------------------
// specification, part 1: the chain and THE VIEW
// ---------------------------------------------------------------------------------------------
/// the items reachable through `.right`, nearest first (A5: the chain is finite -- an immutable value of this type IS one)
pub open spec fn chain(n: Option<ItemPtr>) -> Seq<ItemPtr>
    decreases n,
{
    match n {
        None => Seq::empty(),
        Some(p) => seq![p] + chain(p.right),
    }
}

/// the elements of an item
pub open spec fn elems(p: &Item) -> Seq<Out> {
    p.content.elems_spec()
}

/// the elements an item contributes to the sequence: all of them if it is visible, none otherwise
pub open spec fn velems(p: &Item) -> Seq<Out> {
    if vis(p) { elems(p) } else { Seq::empty() }
}

/// THE VIEW  V(c): the concatenation, over the items of the chain that are not deleted and countable, of their elements
pub open spec fn view(c: Seq<ItemPtr>) -> Seq<Out>
    decreases c.len(),
{
    if c.len() == 0 { Seq::empty() } else { velems(c[0]) + view(c.skip(1)) }
}

/// V of a branch
pub open spec fn bview(b: &Branch) -> Seq<Out> {
    view(chain(b.start))
}

/// ITEM WELL-FORMEDNESS (A-LEN): for a visible item, the block length `len`, the index length `content.len(kind)` and the
/// number of elements its content yields are the same number, and it is at least 1 (`Item::new` refuses empty content)
pub open spec fn item_ok(p: &Item, kind: OffsetKind) -> bool {
    vis(p) ==> p.len as int == elems(p).len() && p.content.len_spec(kind) as int == elems(p).len() && elems(p).len() >= 1
}

pub open spec fn items_ok(c: Seq<ItemPtr>, kind: OffsetKind) -> bool {
    forall|i: int| 0 <= i < c.len() ==> item_ok(#[trigger] c[i], kind)
}

/// shift a location by `k` items
pub open spec fn lift(k: int, w: Option<(int, int)>) -> Option<(int, int)> {
    match w {
        Some((j, r)) => Some((k + j, r)),
        None => None,
    }
}

/// WHERE V[i] LIVES: (index of the item in the chain, offset of the element in that item); None if there is no V[i]
pub open spec fn locate(c: Seq<ItemPtr>, i: int) -> Option<(int, int)>
    decreases c.len(),
{
    if c.len() == 0 {
        None
    } else if vis(c[0]) && i < elems(c[0]).len() {
        Some((0, i))
    } else {
        lift(1, locate(c.skip(1), i - velems(c[0]).len()))
    }
}

/// `locate`, one step (for functions that hide its definition)
pub proof fn lemma_locate_unfold(c: Seq<ItemPtr>, i: int)
    ensures
        locate(c, i) == (if c.len() == 0 {
            None
        } else if vis(c[0]) && i < elems(c[0]).len() {
            Some((0int, i))
        } else {
            lift(1, locate(c.skip(1), i - velems(c[0]).len()))
        }),
{
}

pub proof fn lemma_items_ok_skip(c: Seq<ItemPtr>, kind: OffsetKind, n: int)
    requires
        items_ok(c, kind),
        0 <= n <= c.len(),
    ensures
        items_ok(c.skip(n), kind),
{
    let t = c.skip(n);
    assert forall|i: int| 0 <= i < t.len() implies item_ok(#[trigger] t[i], kind) by {
        assert(t[i] == c[i + n]);
    }
}

/// `locate` characterized: for 0 <= i, None exactly when i >= |V|; otherwise a VISIBLE item k and an offset o inside it with
/// V[i] == elems(c[k])[o]
pub proof fn lemma_locate(c: Seq<ItemPtr>, i: int)
    requires
        0 <= i,
    ensures
        locate(c, i) is None <==> i >= view(c).len(),
        match locate(c, i) {
            Some((k, o)) => 0 <= k < c.len() && vis(c[k]) && 0 <= o < elems(c[k]).len() && view(c)[i] == elems(c[k])[o],
            None => true,
        },
    decreases c.len(),
{
    if c.len() > 0 {
        if vis(c[0]) && i < elems(c[0]).len() {
        } else {
            let t = c.skip(1);
            let m = i - velems(c[0]).len();
            lemma_locate(t, m);
            match locate(t, m) {
                Some((k, o)) => {
                    assert(t[k] == c[k + 1]);
                },
                None => {},
            }
        }
    }
}

/// `cur` is what is left of the chain `c0` (a suffix of it)
pub open spec fn walk_inv(c0: Seq<ItemPtr>, cur: Seq<ItemPtr>) -> bool {
    cur.len() <= c0.len() && cur =~= c0.skip(c0.len() - cur.len())
}

pub open spec fn lift1(k: int, w: Option<int>) -> Option<int> {
    match w {
        Some(j) => Some(k + j),
        None => None,
    }
}

/// index of the first item that is not a tombstone
pub open spec fn first_live(c: Seq<ItemPtr>) -> Option<int>
    decreases c.len(),
{
    if c.len() == 0 {
        None
    } else if !c[0].info.deleted_spec() {
        Some(0)
    } else {
        lift1(1, first_live(c.skip(1)))
    }
}

// ---------------------------------------------------------------------------------------------
// the real code, part 1: Branch (yrs/src/branch.rs)
// ---------------------------------------------------------------------------------------------
impl Branch {
    /*@extract yrs/src/branch.rs | impl Branch | fn len | label=branch_len
    @ret r
    @sig
        ensures r == self.block_len,
    @*/

    /*@extract yrs/src/branch.rs | impl Branch | fn content_len | label=branch_content_len
    @ret r
    @sig
        ensures r == self.content_len,
    @*/

    // (loop_isolation(false): the contract speaks about the INITIAL value of the `mut index` parameter, which no loop invariant
    // can name)
    #[verifier::loop_isolation(false)]
    #[verifier::allow_complex_invariants]
    /*@extract yrs/src/branch.rs | impl Branch | fn get_at | label=branch_get_at | rules=SUB(from=self.start.as_ref();;to=self.start) SUB(from=ptr.map(ItemPtr::deref);;to=ptr) SUB(from=item.right.as_ref();;to=item.right)
    @ret r
    @sig
        requires
            items_ok(chain(self.start), OffsetKind::Utf16),
        ensures
            // Some((content of the item holding V[index], offset of V[index] in it)) ...
            match locate(chain(self.start), index as int) {
                Some((k, o)) => r == Some((&chain(self.start)[k].content, o as usize)),
                None => r is None,
            },
            // ... iff index < |V|
            r is None <==> index >= bview(self).len(),
    @start
        hide(locate);
        let ghost c0 = chain(self.start);
        let ghost index0 = index;
        proof {
            lemma_locate(c0, index as int);
            assert(c0.skip(0) =~= c0);
            lemma_locate_unfold(chain(self.start), index as int);
        }
    @loop 1
        invariant
            c0 == chain(self.start),
            items_ok(c0, OffsetKind::Utf16),
            walk_inv(c0, chain(ptr)),
            locate(c0, index0 as int) == lift(c0.len() - chain(ptr).len(), locate(chain(ptr), index as int)),
            chain(ptr).len() == 0 ==> locate(chain(ptr), index as int) is None,
        ensures
            locate(c0, index0 as int) is None,
        decreases
            chain(ptr).len(),
    @loopstart 1
        proof {
            let k = c0.len() - chain(ptr).len();
            assert(chain(ptr) =~= seq![item] + chain(item.right));
            assert(chain(ptr)[0] == c0[k] && chain(ptr)[0] == item);
            assert(chain(ptr).skip(1) =~= chain(item.right));
            assert(c0.skip(k).skip(1) =~= c0.skip(k + 1));
            assert(item_ok(c0[k], OffsetKind::Utf16));
            lemma_locate_unfold(chain(ptr), index as int);
        }
    @loopend 1
        proof {
            lemma_locate_unfold(chain(ptr), index as int);
        }
    @*/

    /*@extract yrs/src/branch.rs | impl Branch | fn first | label=branch_first | rules=SUB(from=self.start.as_ref();;to=self.start) SUB(from=ptr.map(ItemPtr::deref);;to=ptr) SUB(from=item.right.as_ref();;to=item.right)
    @ret r
    @sig
        ensures
            // the first item of the chain that is not a tombstone (countable or not), None if there is none
            match first_live(chain(self.start)) {
                Some(k) => r == Some(chain(self.start)[k]),
                None => r is None,
            },
    @start
        let ghost c0 = chain(self.start);
        proof {
            assert(c0.skip(0) =~= c0);
        }
    @loop 1
        invariant
            c0 == chain(self.start),
            walk_inv(c0, chain(ptr)),
            first_live(c0) == lift1(c0.len() - chain(ptr).len(), first_live(chain(ptr))),
        ensures
            first_live(c0) is None,
        decreases
            chain(ptr).len(),
    @loopstart 1
        proof {
            let k = c0.len() - chain(ptr).len();
            assert(chain(ptr) =~= seq![item] + chain(item.right));
            assert(chain(ptr)[0] == c0[k]);
            assert(chain(ptr).skip(1) =~= chain(item.right));
            assert(c0.skip(k).skip(1) =~= c0.skip(k + 1));
        }
    @*/
}

// the body of the loop of `get_at` on its own (R18 statement region; `return Some(..)` is spelled `return (Some(..), index)`, falling
// through is `(None, index)`: SUB / tail, logged), so that an edit of the body fails a contract clause of real code
/*@extract yrs/src/branch.rs | impl Branch | region get_at | stmt=stmt:while #1 >> stmt:let len | stmtnth=1 | upto=stmt:while #1 >> stmt:if | tail=(None, index) | label=get_at_step | rules=SUB(from=return Some((&item.content, index as usize));;to=return (Some((&item.content, index as usize)), index))
@header
    pub fn get_at_step<'a>(item: &'a Item, mut index: u32) -> (r: (Option<(&'a ItemContent, usize)>, u32))
@sig
    ensures
        // a visible item that holds the index: found, at offset `index`
        vis(item) && index < item.len ==> r.0 == Some((&item.content, index as usize)),
        // a visible item in front of the index: its `len` units are consumed; an invisible item (tombstone / not countable): passed
        !(vis(item) && index < item.len) ==> r.0 is None && r.1 == index - (if vis(item) { item.len as int } else { 0 }),
@*/


// ---------------------------------------------------------------------------------------------
// specification, part 2: the cursor of a `BlockIter`
// ---------------------------------------------------------------------------------------------
pub struct Store {
    pub offset_kind: OffsetKind,
}

/// `ReadTxn` as far as the readers use it: `txn.store().offset_kind`, the unit in which the document counts text
pub trait ReadTxn: Sized {
    spec fn kind_spec(&self) -> OffsetKind;

    fn store(&self) -> (r: &Store)
        ensures
            r.offset_kind == self.kind_spec(),
    ;
}

/*@extract yrs/src/block_iter.rs | - | struct BlockIter | rules=SUB(from=branch: BranchPtr,;;to=pub branch: BranchPtr,) SUB(from=index: u32,;;to=pub index: u32,) SUB(from=rel: u32,;;to=pub rel: u32,) SUB(from=next_item: Option<ItemPtr>,;;to=pub next_item: Option<ItemPtr>,) SUB(from=reached_end: bool,;;to=pub reached_end: bool,) @*/

pub open spec fn min(a: int, b: int) -> int {
    if a <= b { a } else { b }
}

/// THE ELEMENTS AHEAD of the cursor (next_item, rel, reached_end): nothing once the end has been reached, otherwise the elements
/// of the chain that begins with `next_item`, without the first `rel` of them
pub open spec fn ahead_of(ni: Option<ItemPtr>, rel: int, re: bool) -> Seq<Out> {
    if re { Seq::empty() } else { view(chain(ni)).skip(rel) }
}

/// a cursor is in order: the items from it on are well-formed; a cursor without an item is at the end; `rel` is 0 or an offset
/// INSIDE the visible item the cursor stands on
pub open spec fn cursor_ok(ni: Option<ItemPtr>, rel: int, re: bool, kind: OffsetKind) -> bool {
    &&& items_ok(chain(ni), kind)
    &&& ni is None ==> re
    &&& re ==> rel == 0
    &&& !re ==> (rel == 0 || (vis(ni.unwrap()) && 0 < rel < elems(ni.unwrap()).len()))
}

impl BlockIter {
    pub open spec fn ahead(&self) -> Seq<Out> {
        ahead_of(self.next_item, self.rel as int, self.reached_end)
    }

    /// REPRESENTATION INVARIANT of a `BlockIter` over `self.branch` (established by `new`, kept by every reader):
    /// the cursor is in order, stands in the chain of the branch, `index` is a position 0 ..= |V| and the elements ahead of
    /// the cursor are exactly V[index ..]
    pub open spec fn wf(&self, kind: OffsetKind) -> bool {
        &&& self.cwf(kind)
        &&& self.index <= bview(self.branch).len()
        &&& bview(self.branch).skip(self.index as int) =~= self.ahead()
    }

    /// the CURSOR part of the invariant (all that `try_forward` needs; `slice` calls it while `index` is still ahead of the cursor)
    pub open spec fn cwf(&self, kind: OffsetKind) -> bool {
        &&& cursor_ok(self.next_item, self.rel as int, self.reached_end, kind)
        &&& walk_inv(chain(self.branch.start), chain(self.next_item))
        &&& self.rel <= self.index
    }

    /// THE ABSTRACTION FUNCTION  pos(cursor): the position in V the cursor (next_item, rel, reached_end) stands for -- the
    /// number of elements of V that are NOT ahead of it.  Under `wf` it is the field `index`.
    pub open spec fn pos(&self) -> int {
        bview(self.branch).len() - self.ahead().len()
    }
}

// ---- sequence facts, proved once in a small context (the big lemmas below CALL them instead of asserting them inline)
pub proof fn lemma_skip_skip<A>(s: Seq<A>, a: int, b: int)
    requires
        0 <= a,
        0 <= b,
        a + b <= s.len(),
    ensures
        s.skip(a).skip(b) == s.skip(a + b),
{
    assert(s.skip(a).skip(b) =~= s.skip(a + b));
}

pub proof fn lemma_add_skip<A>(x: Seq<A>, y: Seq<A>, k: int)
    requires
        0 <= k <= x.len(),
    ensures
        (x + y).skip(k) == x.skip(k) + y,
        (x + y).skip(x.len() as int) == y,
        (x + y).len() == x.len() + y.len(),
{
    assert((x + y).skip(k) =~= x.skip(k) + y);
    assert((x + y).skip(x.len() as int) =~= y);
}

pub proof fn lemma_skip_all<A>(s: Seq<A>)
    ensures
        s.skip(s.len() as int) == Seq::<A>::empty(),
        s.skip(0) == s,
{
    assert(s.skip(s.len() as int) =~= Seq::<A>::empty());
    assert(s.skip(0) =~= s);
}

/// the sequence part of `lemma_fwd_finish`: b0 = the elements from the beginning of the item under the cursor, a0 = those ahead of
/// the cursor (rel0 further), vv = V, p0 the position; after the walk `fin` is ahead
pub proof fn lemma_fwd_seq<A>(b0: Seq<A>, a0: Seq<A>, vv: Seq<A>, fin: Seq<A>, p0: int, rel0: int, n0: int, len: int)
    requires
        0 <= rel0 <= b0.len(),
        0 <= n0,
        a0 == b0.skip(rel0),
        fin == b0.skip(min(n0 + rel0, b0.len() as int)),
        len == n0 + rel0 - min(n0 + rel0, b0.len() as int),
    ensures
        ({
            let m = min(n0, a0.len() as int);
            &&& 0 <= m <= a0.len()
            &&& n0 - len == m
            &&& fin == a0.skip(m)
            &&& fin.len() == a0.len() - m
            &&& 0 <= p0 <= vv.len() && vv.skip(p0) == a0 ==> p0 + m <= vv.len() && vv.skip(p0 + m) == a0.skip(m) && p0 + m == min(p0 + n0, vv.len() as int)
        }),
{
    let mm = min(n0 + rel0, b0.len() as int);
    let m = min(n0, a0.len() as int);
    assert(a0.len() == b0.len() - rel0);
    assert(m == mm - rel0);
    lemma_skip_skip(b0, rel0, m);
    if 0 <= p0 <= vv.len() && vv.skip(p0) == a0 {
        assert(a0.len() == vv.len() - p0);
        lemma_skip_skip(vv, p0, m);
    }
}

/// V of the chain that begins with `p`: the elements `p` contributes, then the rest
pub proof fn lemma_view_step(p: ItemPtr)
    ensures
        chain(Some(p)) =~= seq![p] + chain(p.right),
        view(chain(Some(p))) =~= velems(p) + view(chain(p.right)),
        chain(Some(p)).len() == 1 + chain(p.right).len(),
        chain(Some(p))[0] == p,
{
    let c = chain(Some(p));
    assert(c =~= seq![p] + chain(p.right));
    assert(c.skip(1) =~= chain(p.right));
}

/// the suffix of a suffix
pub proof fn lemma_walk_step(c0: Seq<ItemPtr>, p: ItemPtr, kind: OffsetKind)
    requires
        walk_inv(c0, chain(Some(p))),
    ensures
        walk_inv(c0, chain(p.right)),
        items_ok(chain(Some(p)), kind) ==> items_ok(chain(p.right), kind) && item_ok(p, kind),
{
    lemma_view_step(p);
    let k = c0.len() - chain(Some(p)).len();
    assert(c0.skip(k).skip(1) =~= c0.skip(k + 1));
    assert(chain(Some(p)).skip(1) =~= chain(p.right));
    if items_ok(chain(Some(p)), kind) {
        lemma_items_ok_skip(chain(Some(p)), kind, 1);
        assert(item_ok(chain(Some(p))[0], kind));
    }
}

pub proof fn lemma_view_len(c: Seq<ItemPtr>)
    ensures
        view(c).len() >= 0,
    decreases c.len(),
{
}

/// pos(cursor) == index
pub proof fn lemma_pos(it: &BlockIter, kind: OffsetKind)
    requires
        it.wf(kind),
    ensures
        it.pos() == it.index,
        it.ahead().len() == bview(it.branch).len() - it.index,
{
}

// ---- one step of the walk of `try_forward`, as a relation on (item, len, rel, reached_end); B0 = V of the chain the walk began
// on, N = the number of elements to pass
/// at the loop head
pub open spec fn fwd_inv(b0: Seq<Out>, n: int, item: Option<ItemPtr>, len: int, rel: int, re: bool, kind: OffsetKind) -> bool {
    &&& rel == 0
    &&& 0 <= len <= n
    &&& item is Some
    &&& items_ok(chain(item), kind)
    &&& !re ==> n - len <= b0.len() && view(chain(item)) =~= b0.skip(n - len)
    &&& re ==> n - len == b0.len()
}

/// when the loop is left
pub open spec fn fwd_done(b0: Seq<Out>, n: int, item: Option<ItemPtr>, len: int, rel: int, re: bool, kind: OffsetKind) -> bool {
    &&& item is Some
    &&& cursor_ok(item, rel, re, kind)
    &&& len == n - min(n, b0.len() as int)
    &&& ahead_of(item, rel, re) =~= b0.skip(min(n, b0.len() as int))
    &&& rel <= n
    // the cursor is NORMALISED: it stands at the end or on a visible item (at an offset inside it)
    &&& !re ==> vis(item.unwrap()) && rel < elems(item.unwrap()).len()
}


// ---------------------------------------------------------------------------------------------
// specification, part 3: what every reader returns, as a function of the branch state (V and the two cached counters), and
// THE TYING THEOREM
// ---------------------------------------------------------------------------------------------
/// `Array::get(i)`, `BlockIter::read_value` at position i, `ArrayIter::next` at position i: V[i] -- if there is one and i lies
/// below the CACHED counter `content_len` (`try_forward` / `slice` refuse to go beyond it)
pub open spec fn get_spec(b: &Branch, i: int) -> Option<Out> {
    if 0 <= i < bview(b).len() && i < b.content_len { Some(bview(b)[i]) } else { None }
}

/// the elements of the JSON array `to_json` builds: the images of the first `block_len` elements of V
pub open spec fn to_json_spec(b: &Branch) -> Seq<Any> {
    bview(b).take(b.block_len as int).map_values(|o: Out| json_of(o))
}

/// THE ONE THING THE READERS CANNOT DECIDE (integration maintains it): the cached counters are the number of elements
pub open spec fn counters_ok(b: &Branch) -> bool {
    b.block_len == bview(b).len() && b.content_len == bview(b).len()
}

/// V split at item k
pub proof fn lemma_view_split(c: Seq<ItemPtr>, k: int)
    requires
        0 <= k <= c.len(),
    ensures
        view(c) =~= view(c.take(k)) + view(c.skip(k)),
    decreases k,
{
    if k == 0 {
        assert(c.take(0) =~= Seq::<ItemPtr>::empty());
        assert(c.skip(0) =~= c);
    } else {
        let t = c.skip(1);
        lemma_view_split(t, k - 1);
        assert(c.take(k).skip(1) =~= t.take(k - 1));
        assert(t.skip(k - 1) =~= c.skip(k));
        assert(c.take(k)[0] == c[0]);
    }
}

/// the element at offset o of the visible item k is V[(number of elements in front of item k) + o], and `locate` finds it there
pub proof fn lemma_locate_at(c: Seq<ItemPtr>, k: int, o: int)
    requires
        0 <= k < c.len(),
        vis(c[k]),
        0 <= o < elems(c[k]).len(),
    ensures
        locate(c, view(c.take(k)).len() + o) == Some((k, o)),
    decreases k,
{
    if k == 0 {
        assert(c.take(0) =~= Seq::<ItemPtr>::empty());
    } else {
        let t = c.skip(1);
        assert(c.take(k).skip(1) =~= t.take(k - 1));
        assert(c.take(k)[0] == c[0]);
        assert(t[k - 1] == c[k]);
        lemma_locate_at(t, k - 1, o);
        lemma_view_len(t.take(k - 1));
    }
}

/// INDEX -> ITEM POSITION (first mechanism of C03).  A well-formed `BlockIter` at a position `index` < |V| whose cursor is
/// NORMALISED (what `try_forward` leaves: at the end or on a visible item, `rel` inside it) stands ON the item and AT the offset
/// where `locate` -- i.e. `Branch::get_at(index)` -- finds V[index]: both walks map an index to the same (item, offset)
pub proof fn theorem_index_to_position(it: &BlockIter, kind: OffsetKind)
    requires
        it.wf(kind),
        it.index < bview(it.branch).len(),
        !it.reached_end ==> it.next_item is Some && vis(it.next_item.unwrap()) && it.rel < elems(it.next_item.unwrap()).len(),
    ensures
        !it.reached_end,
        ({
            let c0 = chain(it.branch.start);
            let k = c0.len() - chain(it.next_item).len();
            0 <= k < c0.len() && c0[k] == it.next_item.unwrap() && locate(c0, it.index as int) == Some((k, it.rel as int))
                && bview(it.branch)[it.index as int] == elems(it.next_item.unwrap())[it.rel as int]
        }),
{
    hide(locate);
    hide(view);
    let c0 = chain(it.branch.start);
    let p = it.next_item.unwrap();
    let k = c0.len() - chain(it.next_item).len();
    assert(bview(it.branch).skip(it.index as int).len() > 0);
    lemma_view_step(p);
    assert(c0.skip(k)[0] == c0[k]);
    lemma_view_split(c0, k);
    lemma_view_len(chain(p.right));
    lemma_view_len(c0.take(k));
    lemma_locate_at(c0, k, it.rel as int);
    lemma_locate(c0, it.index as int);
    let w = view(chain(it.next_item));
    assert(w =~= elems(p) + view(chain(p.right)));
    assert(bview(it.branch).skip(it.index as int)[0] == w.skip(it.rel as int)[0]);
}

/// LIFETIME READING of `ArrayIter` (contract of `next` with the cached counter right): `states[i]` is what is pending before the
/// i-th call, `outs[i]` what that call returns, and the call after the last of them returns None (nothing is pending)
pub open spec fn is_trace(states: Seq<Seq<Out>>, outs: Seq<Out>) -> bool {
    &&& states.len() == outs.len() + 1
    &&& forall|i: int| 0 <= i < outs.len() ==> #[trigger] trace_step(states, outs, i)
    &&& states.last().len() == 0
}

/// the i-th call of `next`: something is pending, its first element is handed out, the rest stays pending
pub open spec fn trace_step(states: Seq<Seq<Out>>, outs: Seq<Out>, i: int) -> bool {
    states[i].len() > 0 && outs[i] == states[i][0] && states[i + 1] == states[i].skip(1)
}

/// DRAIN LEMMA: iterating to the end yields exactly what was pending at the beginning, in order
pub proof fn lemma_drain(states: Seq<Seq<Out>>, outs: Seq<Out>)
    requires
        is_trace(states, outs),
    ensures
        outs =~= states[0],
    decreases outs.len(),
{
    if outs.len() > 0 {
        let st = states.skip(1);
        let ou = outs.skip(1);
        assert(trace_step(states, outs, 0));
        assert forall|i: int| 0 <= i < ou.len() implies #[trigger] trace_step(st, ou, i) by {
            assert(trace_step(states, outs, i + 1));
            assert(ou[i] == outs[i + 1]);
            assert(st[i] == states[i + 1]);
            assert(st[i + 1] == states[i + 2]);
        }
        assert(st.last() == states.last());
        lemma_drain(st, ou);
        assert(st[0] == states[1]);
        assert(outs =~= seq![outs[0]] + ou);
        assert(states[0] =~= seq![states[0][0]] + states[0].skip(1));
    }
}

/// THE TYING THEOREM.  For EVERY state of a branch whose items are well-formed (A-LEN), with c = the chain, V = view(c):
///   (1) `Branch::get_at(i)` finds an element exactly for 0 <= i < |V|, and it is V[i];
///   (2) `Array::get(i)` / `read_value` / `ArrayIter::next` at position i / `slice` never return anything but V[i] (the
///       element `get_at(i)` points to), and do return it for every i below the cached counter `content_len`;
///   (3) `to_json` lists the JSON images of a prefix of V.
/// and IF THE CACHED COUNTERS ARE RIGHT (`counters_ok`, the single precondition integration has to provide):
///   (4) get(i) == V[i] for i < len(), and get(i) is None EXACTLY when i >= len();
///   (5) an ArrayIter created by `iter()` and drained yields exactly V, in order: len() elements, the i-th being get(i);
///   (6) to_json is the array of the JSON images of exactly these elements: its size is len().
pub proof fn theorem_seq_read_paths_agree(b: &Branch, kind: OffsetKind, i: int, states: Seq<Seq<Out>>, outs: Seq<Out>)
    requires
        items_ok(chain(b.start), kind),
        0 <= i,
        // a drained ArrayIter that started at position 0
        states[0] == bview(b),
        is_trace(states, outs),
    ensures
        // (1)
        locate(chain(b.start), i) is Some <==> i < bview(b).len(),
        match locate(chain(b.start), i) {
            Some((k, o)) => 0 <= k < chain(b.start).len() && vis(chain(b.start)[k]) && 0 <= o < elems(chain(b.start)[k]).len()
                && bview(b)[i] == elems(chain(b.start)[k])[o],
            None => true,
        },
        // (2)
        get_spec(b, i) is Some ==> get_spec(b, i) == Some(bview(b)[i]) && locate(chain(b.start), i) is Some,
        i < bview(b).len() && i < b.content_len ==> get_spec(b, i) == Some(bview(b)[i]),
        // (3)
        b.block_len <= bview(b).len() ==> to_json_spec(b).len() == b.block_len
            && forall|j: int| 0 <= j < b.block_len ==> #[trigger] to_json_spec(b)[j] == json_of(bview(b)[j]),
        // (4) - (6)
        counters_ok(b) ==> {
            &&& get_spec(b, i) == (if i < b.block_len { Some(bview(b)[i]) } else { None })
            &&& (get_spec(b, i) is None <==> i >= b.block_len)
            &&& (get_spec(b, i) is None <==> locate(chain(b.start), i) is None)
            &&& outs =~= bview(b)
            &&& outs.len() == b.block_len
            &&& (i < outs.len() ==> get_spec(b, i) == Some(outs[i]))
            &&& to_json_spec(b) =~= outs.map_values(|o: Out| json_of(o))
            &&& to_json_spec(b).len() == b.block_len
        },
{
    lemma_locate(chain(b.start), i);
    lemma_drain(states, outs);
    if counters_ok(b) {
        assert(bview(b).take(b.block_len as int) =~= bview(b));
    }
}

// ---------------------------------------------------------------------------------------------
// specification, part 4: item well-formedness DERIVED per content kind; text
// ---------------------------------------------------------------------------------------------
/// the countable content kinds (`ItemContent::is_countable`)
pub open spec fn countable_kind(c: &ItemContent) -> bool {
    !(c is Deleted) && !(c is Format)
}

/// what `Item::new` establishes: the block length is the UTF-16 length of the content, the countable flag is the content's,
/// the content is not empty
pub open spec fn item_new_ok(p: &Item) -> bool {
    &&& p.len == p.content.len_spec(OffsetKind::Utf16)
    &&& p.info.countable_spec() == countable_kind(&p.content)
    &&& p.len >= 1
}

/// A-LEN DERIVED for every content kind but String (the payload of an Any / JSON content fits the u32 length): `len`,
/// `content.len(kind)` and the number of elements `read` yields agree, in EVERY offset kind
pub proof fn lemma_item_ok_non_string(p: &Item, kind: OffsetKind)
    requires
        item_new_ok(p),
        !(p.content is String),
        p.content is Any ==> p.content->Any_0@.len() <= u32::MAX,
        p.content is JSON ==> p.content->JSON_0@.len() <= u32::MAX,
    ensures
        item_ok(p, kind),
{
}

/// ... and for String content exactly when the string has as many characters as index units: no astral character in a UTF-16
/// document, ASCII only in a Bytes document (OBSERVATION S1: otherwise `read` yields FEWER elements than `len` / `content_len`
/// count)
pub proof fn lemma_item_ok_string(p: &Item, kind: OffsetKind)
    requires
        item_new_ok(p),
        p.content is String,
        p.content->String_0.str_ok(),
        p.content->String_0.vx_utf16_len <= u32::MAX && p.content->String_0.vx_bytes_len <= u32::MAX,
    ensures
        item_ok(p, kind) <==> (vis(p) ==> p.content->String_0.chars().len() == utf16_len(p.content->String_0.chars())
            && p.content->String_0.chars().len() == text_len(p.content->String_0.chars(), kind)),
{
}

/// OBSERVATION S1 (see the header), the item: a visible String item holding ONE astral character has len == 2 but ONE element --
/// A-LEN fails for it (in a Bytes document already for any non-ASCII character)
pub proof fn observation_s1_string_item_breaks_a_len(p: &Item, c: char)
    requires
        item_new_ok(p),
        vis(p),
        p.content is String,
        p.content->String_0.str_ok(),
        p.content->String_0.chars() == seq![c],
        c as u32 >= 0x10000,
    ensures
        p.len == 2 && elems(p).len() == 1,
        !item_ok(p, OffsetKind::Utf16) && !item_ok(p, OffsetKind::Bytes),
{
    let s = seq![c];
    assert(s.skip(1) =~= Seq::<char>::empty());
    assert(utf16_len(s.skip(1)) == 0);
    assert(utf16_len(s) == c_utf16(s[0]) + utf16_len(s.skip(1)));
}

pub proof fn lemma_text_len_add(a: Seq<char>, b: Seq<char>, kind: OffsetKind)
    ensures
        text_len(a + b, kind) == text_len(a, kind) + text_len(b, kind),
    decreases a.len(),
{
    if a.len() == 0 {
        assert(a + b =~= b);
    } else {
        lemma_text_len_add(a.skip(1), b, kind);
        assert((a + b).skip(1) =~= a.skip(1) + b);
        assert((a + b)[0] == a[0]);
    }
}

/// the index units of an item: what integration adds to the cached counter `content_len` for it
pub open spec fn units(p: &Item, kind: OffsetKind) -> int {
    if vis(p) { p.content.len_spec(kind) as int } else { 0 }
}

/// the number of index units of a chain: what `content_len` -- `Text::len` -- caches
pub open spec fn units_of(c: Seq<ItemPtr>, kind: OffsetKind) -> int
    decreases c.len(),
{
    if c.len() == 0 { 0 } else { units(c[0], kind) + units_of(c.skip(1), kind) }
}

/// the index units of the visible items that are NOT strings (embeds, nested types: one each)
pub open spec fn other_units_of(c: Seq<ItemPtr>, kind: OffsetKind) -> int
    decreases c.len(),
{
    if c.len() == 0 { 0 } else { (if c[0].content is String { 0 } else { units(c[0], kind) }) + other_units_of(c.skip(1), kind) }
}

/// number of visible embeds / nested types / sub-documents / binaries
pub open spec fn embeds_of(c: Seq<ItemPtr>) -> int
    decreases c.len(),
{
    if c.len() == 0 { 0 } else { (if vis(c[0]) && !(c[0].content is String) { 1int } else { 0int }) + embeds_of(c.skip(1)) }
}

/// a text item: the flags are the content's, a string's cached lengths are those of its characters and fit u32
pub open spec fn text_item_ok(p: &Item) -> bool {
    &&& p.info.countable_spec() == countable_kind(&p.content)
    &&& p.content is String ==> p.content->String_0.str_ok() && p.content->String_0.vx_utf16_len <= u32::MAX && p.content->String_0.vx_bytes_len <= u32::MAX
    // a text holds strings, formats, embeds and nested types (and collected tombstones), no value vectors
    &&& !(p.content is Any) && !(p.content is JSON)
}

/// the one-character text value `read` yields for a character
pub open spec fn char_out(c: char) -> Out {
    Out::Any(Any::String(Ghost(seq![c])))
}

/// a PLAIN text (every visible item is a string): V has one element per CHARACTER of `get_string()`, in order.
/// OBSERVATION: |V| counts characters, `Text::len` counts UTF-16 units or bytes -- they differ as soon as the text holds an
/// astral (resp. non-ASCII) character; no reader of a text goes through `read` / `BlockIter`, so no two readers disagree.
pub proof fn lemma_plain_text_view(c: Seq<ItemPtr>)
    requires
        forall|i: int| 0 <= i < c.len() ==> text_item_ok(#[trigger] c[i]) && (c[i].content is String || !vis(c[i])),
    ensures
        view(c) =~= text_of(c).map_values(|ch: char| char_out(ch)),
    decreases c.len(),
{
    if c.len() > 0 {
        let t = c.skip(1);
        assert forall|i: int| 0 <= i < t.len() implies text_item_ok(#[trigger] t[i]) && (t[i].content is String || !vis(t[i])) by {
            assert(t[i] == c[i + 1]);
        }
        lemma_plain_text_view(t);
        assert(text_item_ok(c[0]));
        assert(velems(c[0]) =~= item_text(c[0]).map_values(|ch: char| char_out(ch)));
    }
}

/// TEXT: "a text's length equals the length of get_string in the configured unit plus one per embed" -- over the view, in BOTH
/// offset kinds: the number of index units of the chain (what `Text::len` returns if the cached counter `content_len` is right)
/// is the length of `get_string()` in the unit `kind` plus the number of visible non-string items
pub proof fn theorem_text_len(c: Seq<ItemPtr>, kind: OffsetKind)
    requires
        forall|i: int| 0 <= i < c.len() ==> text_item_ok(#[trigger] c[i]),
    ensures
        units_of(c, kind) == text_len(text_of(c), kind) + embeds_of(c),
        embeds_of(c) >= 0,
    decreases c.len(),
{
    if c.len() > 0 {
        let t = c.skip(1);
        assert forall|i: int| 0 <= i < t.len() implies text_item_ok(#[trigger] t[i]) by {
            assert(t[i] == c[i + 1]);
        }
        theorem_text_len(t, kind);
        lemma_text_len_add(item_text(c[0]), text_of(t), kind);
        assert(text_item_ok(c[0]));
        assert(text_len(Seq::<char>::empty(), kind) == 0);
    } else {
        assert(text_len(Seq::<char>::empty(), kind) == 0);
    }
}

/// one turn of the loop of `try_forward` on the item `i`, `len` elements still to pass
pub proof fn lemma_fwd_step(b0: Seq<Out>, n: int, c0: Seq<ItemPtr>, i: ItemPtr, len: int, kind: OffsetKind)
    requires
        fwd_inv(b0, n, Some(i), len, 0, false, kind),
        walk_inv(c0, chain(Some(i))),
        // the loop condition
        len > 0 || !vis(i),
    ensures
        item_ok(i, kind),
        walk_inv(c0, chain(i.right)),
        cursor_measure(i.right, false) == cursor_measure(Some(i), false) - 2,
        // the target lies inside this item: stop on it
        vis(i) && len > 0 && clen(i, kind) > len ==> fwd_done(b0, n, Some(i), 0, len, false, kind),
        // otherwise it is passed
        !(vis(i) && len > 0 && clen(i, kind) > len) ==> ({
            let u = if vis(i) && len > 0 { clen(i, kind) } else { 0 };
            &&& 0 <= u <= len
            &&& i.right is Some ==> fwd_inv(b0, n, i.right, len - u, 0, false, kind)
            &&& i.right is None ==> fwd_inv(b0, n, Some(i), len - u, 0, true, kind)
        }),
{
    lemma_view_step(i);
    lemma_walk_step(c0, i, kind);
    lemma_view_len(chain(i.right));
    let w = view(chain(Some(i)));
    let rest = view(chain(i.right));
    assert(w == velems(i) + rest);
    assert(w == b0.skip(n - len));
    if vis(i) && len > 0 && clen(i, kind) > len {
        lemma_skip_skip(b0, n - len, len);
    } else {
        let u = if vis(i) && len > 0 { clen(i, kind) } else { 0 };
        assert(u == velems(i).len());
        lemma_skip_skip(b0, n - len, u);
        lemma_add_skip(velems(i), rest, u);
        if i.right is None {
            assert(rest =~= Seq::<Out>::empty());
        }
    }
}

/// the loop of `try_forward` has been left (`fwd_done`): what that means for the `BlockIter` that started at `o`
pub proof fn lemma_fwd_finish(o: &BlockIter, n0: int, item: Option<ItemPtr>, len: int, rel: int, re: bool, kind: OffsetKind)
    requires
        o.cwf(kind),
        o.next_item is Some,
        0 <= n0,
        fwd_done(ahead_of(o.next_item, 0, o.reached_end), n0 + o.rel, item, len, rel, re, kind),
    ensures
        ({
            let a0 = o.ahead();
            let m = min(n0, a0.len() as int);
            &&& 0 <= m
            &&& 0 <= len
            &&& o.index + n0 - len == o.index + m
            &&& ahead_of(item, rel, re) =~= a0.skip(m)
            &&& rel <= o.index + m
            &&& rel <= n0 + o.rel
            &&& cursor_ok(item, rel, re, kind)
            &&& item is Some
            &&& !re ==> vis(item.unwrap()) && rel < elems(item.unwrap()).len()
            &&& n0 >= a0.len() ==> re
            &&& o.wf(kind) ==> o.index + m <= bview(o.branch).len() && bview(o.branch).skip(o.index + m) =~= a0.skip(m)
                && o.index + m == min(o.index + n0, bview(o.branch).len() as int)
        }),
{
    let b0 = ahead_of(o.next_item, 0, o.reached_end);
    let a0 = o.ahead();
    let rel0 = o.rel as int;
    let vv = bview(o.branch);
    let p0 = o.index as int;
    let fin = ahead_of(item, rel, re);
    lemma_view_len(chain(o.next_item));
    if !o.reached_end {
        lemma_view_step(o.next_item.unwrap());
        lemma_view_len(chain(o.next_item.unwrap().right));
        lemma_add_skip(elems(o.next_item.unwrap()), view(chain(o.next_item.unwrap().right)), 0);
        assert(b0 == view(chain(o.next_item)));
        assert(0 <= rel0 <= b0.len());
    } else {
        lemma_skip_all(b0);
    }
    assert(a0 == b0.skip(rel0));
    lemma_fwd_seq(b0, a0, vv, fin, p0, rel0, n0, len);
    if !re {
        lemma_view_step(item.unwrap());
        lemma_view_len(chain(item.unwrap().right));
        lemma_add_skip(elems(item.unwrap()), view(chain(item.unwrap().right)), rel);
        assert(fin.len() > 0);
    }
}

// ---------------------------------------------------------------------------------------------
// the real code, part 2: BlockIter (yrs/src/block_iter.rs)
// ---------------------------------------------------------------------------------------------
impl BlockIter {
    /*@extract yrs/src/block_iter.rs | impl BlockIter | fn new | label=block_iter_new
    @ret r
    @sig
        ensures
            r.branch == branch && r.index == 0 && r.rel == 0 && r.next_item == branch.start && r.reached_end == (branch.start is None),
            // position 0: everything is ahead
            r.ahead() == bview(branch),
            forall|kind: OffsetKind| items_ok(chain(branch.start), kind) ==> #[trigger] r.wf(kind),
    @start
        proof {
            assert(chain(branch.start).skip(0) =~= chain(branch.start));
            assert(bview(branch).skip(0) =~= bview(branch));
            if branch.start is None {
                assert(bview(branch) =~= Seq::<Out>::empty());
            }
        }
    @*/

    /*@extract yrs/src/block_iter.rs | impl BlockIter | fn rel | label=block_iter_rel
    @ret r
    @sig
        ensures r == self.rel,
    @*/

    /*@extract yrs/src/block_iter.rs | impl BlockIter | fn finished | label=block_iter_finished
    @ret r
    @sig
        ensures
            r == (self.reached_end || self.index == self.branch.content_len),
            // with the cached counter right: finished <==> the cursor stands at |V| (nothing is ahead)
            forall|kind: OffsetKind| #[trigger] self.wf(kind) && self.branch.content_len == bview(self.branch).len() ==> r == (self.pos() == bview(self.branch).len()),
    @*/

    /*@extract yrs/src/block_iter.rs | impl BlockIter | fn next_item | label=block_iter_next_item
    @ret r
    @sig
        ensures r == self.next_item,
    @*/

    /*@extract yrs/src/block_iter.rs | impl BlockIter | fn left | label=block_iter_left
    @ret r
    @sig
        ensures
            r == (if self.reached_end { self.next_item } else { match self.next_item { Some(item) => item.left, None => None } }),
    @*/

    /*@extract yrs/src/block_iter.rs | impl BlockIter | fn right | label=block_iter_right
    @ret r
    @sig
        ensures
            r == (if self.reached_end { None } else { self.next_item }),
    @*/

    /*@extract yrs/src/block_iter.rs | impl BlockIter | fn can_forward | label=block_iter_can_forward
    @ret r
    @sig
        ensures
            // not at the end, and: something is left to pass, or the cursor stands on an INVISIBLE item (tombstone / not countable)
            r == (!self.reached_end && (len > 0 || (ptr is Some && !vis(ptr.unwrap())))),
    @*/

    /*@extract yrs/src/block_iter.rs | impl BlockIter | fn try_forward | label=block_iter_try_forward
    @ret r
    @sig
        requires
            old(self).cwf(txn.kind_spec()),
            // DOMAIN RESTRICTION: `self.index + len` is an unchecked u32 addition
            old(self).index + len <= u32::MAX,
        ensures
            final(self).branch == old(self).branch,
            // WHEN it answers true: the degenerate call (nothing to pass on an empty list), or the target does not exceed the CACHED
            // counter `branch.content_len`
            r == ((len == 0 && old(self).next_item is None) || (old(self).index + len <= old(self).branch.content_len && old(self).next_item is Some)),
            !r ==> *final(self) == *old(self),
            // true: `len` elements are passed -- all that are left if there are fewer --, `index` moves with the cursor ...
            r ==> final(self).cwf(txn.kind_spec())
                && final(self).ahead() =~= old(self).ahead().skip(min(len as int, old(self).ahead().len() as int))
                && final(self).index == old(self).index + min(len as int, old(self).ahead().len() as int),
            // ... i.e. from position p the cursor stands at position min(p + len, |V|)
            r && old(self).wf(txn.kind_spec()) ==> final(self).wf(txn.kind_spec())
                && final(self).index == min(old(self).index + len, bview(old(self).branch).len() as int),
            // ... NORMALISED: at the end (`reached_end`) or ON the visible item that holds the next element, `rel` being the offset
            // of that element in it
            r && old(self).next_item is Some ==> final(self).next_item is Some && final(self).rel <= len + old(self).rel,
            r && old(self).next_item is Some && !final(self).reached_end ==> vis(final(self).next_item.unwrap())
                && final(self).rel < elems(final(self).next_item.unwrap()).len(),
            // forward to EXACTLY the end is allowed and sets `reached_end`
            r && old(self).next_item is Some && len >= old(self).ahead().len() ==> final(self).reached_end,
            // progress measure for the caller (`slice`)
            r ==> cursor_measure(final(self).next_item, final(self).reached_end) <= cursor_measure(old(self).next_item, old(self).reached_end),
            r && !old(self).reached_end && old(self).next_item is Some && !vis(old(self).next_item.unwrap())
                ==> cursor_measure(final(self).next_item, final(self).reached_end) < cursor_measure(old(self).next_item, old(self).reached_end),
    @start
        let ghost kind = txn.kind_spec();
        let ghost n0 = len as int;
        let ghost c0 = chain(self.branch.start);
        let ghost vv = bview(self.branch);
        let ghost ni0 = self.next_item;
        let ghost re0 = self.reached_end;
        let ghost rel0 = self.rel as int;
        let ghost p0 = self.index as int;
        let ghost a0 = self.ahead();
        let ghost b0 = ahead_of(self.next_item, 0, self.reached_end);
        let ghost m0 = cursor_measure(self.next_item, self.reached_end);
    @before 1 `stmt:while`
        let ghost nn = len as int;
        proof {
            assert(nn == n0 + rel0);
            assert(b0.skip(0) =~= b0);
        }
    @loop 1
        invariant_except_break
            fwd_inv(b0, nn, item, len as int, self.rel as int, self.reached_end, kind),
            cursor_measure(item, self.reached_end) < m0 || (item == ni0 && self.reached_end == re0),
        invariant
            self.branch == old(self).branch,
            self.index == p0 + n0,
            walk_inv(c0, chain(item)),
            cursor_measure(item, self.reached_end) <= m0,
            re0 ==> self.reached_end,
            encoding == kind,
            m0 == cursor_measure(ni0, re0),
            re0 || ni0 is Some,
        ensures
            fwd_done(b0, nn, item, len as int, self.rel as int, self.reached_end, kind),
            cursor_measure(item, self.reached_end) < m0 || re0 || vis(ni0.unwrap()),
        decreases
            cursor_measure(item, self.reached_end),
    @loopstart 1
        proof {
            lemma_fwd_step(b0, nn, c0, item.unwrap(), len as int, kind);
        }
    @afterloop 1
        proof {
            lemma_fwd_finish(old(self), n0, item, len as int, self.rel as int, self.reached_end, kind);
        }
    @*/
}

/// the loops of `slice`: a0 = the elements ahead of the cursor at the call, l = the buffer length; after `read` elements
pub open spec fn slice_inv(a0: Seq<Out>, l: int, buf0: Seq<Out>, buf: Seq<Out>, c0: Seq<ItemPtr>, ni: Option<ItemPtr>, rel: int, re: bool, len: int, read: int, kind: OffsetKind) -> bool {
    &&& cursor_ok(ni, rel, re, kind)
    &&& walk_inv(c0, chain(ni))
    &&& 0 <= read <= a0.len()
    &&& 0 <= len
    &&& read + len == l
    &&& buf.len() == l && buf0.len() == l
    &&& ahead_of(ni, rel, re) =~= a0.skip(read)
    &&& forall|j: int| 0 <= j < read ==> buf[j] == a0[j]
    &&& forall|j: int| read <= j < l ==> buf[j] == buf0[j]
}

/// lexicographic order on (cursor measure, elements still wanted)
pub open spec fn lex_lt(m1: int, l1: int, m2: int, l2: int) -> bool {
    m1 < m2 || (m1 == m2 && l1 < l2)
}

/// one visible item read by `slice`: r elements from offset `rel` of `item` go to buf[read ..]
pub proof fn lemma_slice_read(a0: Seq<Out>, l: int, buf0: Seq<Out>, buf: Seq<Out>, buf2: Seq<Out>, c0: Seq<ItemPtr>, item: ItemPtr, rel: int, len: int, read: int, r: int, kind: OffsetKind)
    requires
        slice_inv(a0, l, buf0, buf, c0, Some(item), rel, false, len, read, kind),
        vis(item),
        len > 0,
        read_post(elems(item), rel, buf.subrange(read, l), buf2.subrange(read, l), r),
        buf2.len() == l,
        forall|j: int| 0 <= j < read ==> buf2[j] == buf[j],
    ensures
        item_ok(item, kind),
        0 <= rel < elems(item).len(),
        r == min(elems(item).len() - rel, len),
        r >= 1,
        // the whole rest of the item was read: go on with the next item ...
        rel + r == elems(item).len() && item.right is Some ==> slice_inv(a0, l, buf0, buf2, c0, item.right, 0, false, len - r, read + r, kind),
        // ... or, behind the last item, be at the end
        rel + r == elems(item).len() && item.right is None ==> slice_inv(a0, l, buf0, buf2, c0, Some(item), 0, true, len - r, read + r, kind),
        // ... or the buffer is full: stay inside the item
        rel + r != elems(item).len() ==> len - r == 0 && slice_inv(a0, l, buf0, buf2, c0, Some(item), rel + r, false, len - r, read + r, kind),
{
    lemma_view_step(item);
    lemma_walk_step(c0, item, kind);
    lemma_view_len(chain(item.right));
    let e = elems(item);
    let rest = view(chain(item.right));
    let w = view(chain(Some(item)));
    assert(w =~= e + rest);
    assert(w.skip(rel) =~= a0.skip(read));
    assert(buf.subrange(read, l).len() == len);
    assert forall|j: int| 0 <= j < read + r implies buf2[j] == a0[j] by {
        if j >= read {
            assert(buf2.subrange(read, l)[j - read] == e[rel + (j - read)]);
            assert(a0.skip(read)[j - read] == w.skip(rel)[j - read]);
        }
    }
    assert forall|j: int| read + r <= j < l implies buf2[j] == buf0[j] by {
        assert(buf2.subrange(read, l)[j - read] == buf.subrange(read, l)[j - read]);
    }
    assert(a0.skip(read).len() == w.len() - rel);
    if rel + r == e.len() {
        assert(w.skip(rel).skip(r) =~= rest);
        assert(a0.skip(read).skip(r) =~= a0.skip(read + r));
        assert(rest.skip(0) =~= rest);
        if item.right is None {
            assert(rest =~= Seq::<Out>::empty());
        }
    } else {
        assert(w.skip(rel).skip(r) =~= w.skip(rel + r));
        assert(a0.skip(read).skip(r) =~= a0.skip(read + r));
    }
}

/// what a `read` into the subslice buf[read ..] means for the whole buffer (an implication, so that a call that does not
/// satisfy the hypothesis learns nothing from it)
pub proof fn lemma_read_into_tail(e: Seq<Out>, rel: int, buf0: Seq<Out>, buf1: Seq<Out>, read: int, n: int)
    requires
        0 <= read <= buf0.len(),
        buf1.len() == buf0.len(),
    ensures
        0 <= rel < e.len()
            && read_post(e, rel, buf0.subrange(read, buf0.len() as int), buf1.subrange(read, buf0.len() as int), n)
            && buf1.subrange(0, read) =~= buf0.subrange(0, read)
        ==> {
            &&& n == min(e.len() - rel, buf0.len() - read)
            &&& forall|j: int| read <= j < read + n ==> #[trigger] buf1[j] == e[rel + j - read]
            &&& forall|j: int| 0 <= j < buf0.len() && !(read <= j < read + n) ==> #[trigger] buf1[j] == buf0[j]
        },
{
    let l = buf0.len() as int;
    if 0 <= rel < e.len() && read_post(e, rel, buf0.subrange(read, l), buf1.subrange(read, l), n) && buf1.subrange(0, read) =~= buf0.subrange(0, read) {
        assert(buf0.subrange(read, l).len() == l - read);
        assert forall|j: int| read <= j < read + n implies #[trigger] buf1[j] == e[rel + j - read] by {
            assert(buf1.subrange(read, l)[j - read] == e[rel + (j - read)]);
        }
        assert forall|j: int| 0 <= j < l && !(read <= j < read + n) implies #[trigger] buf1[j] == buf0[j] by {
            if j < read {
                assert(buf1.subrange(0, read)[j] == buf0.subrange(0, read)[j]);
            } else {
                assert(buf1.subrange(read, l)[j - read] == buf0.subrange(read, l)[j - read]);
            }
        }
    }
}

/// an item `slice` / `try_forward` pass without reading: nothing of it is in V
pub proof fn lemma_slice_pass(a0: Seq<Out>, l: int, buf0: Seq<Out>, buf: Seq<Out>, c0: Seq<ItemPtr>, item: ItemPtr, rel: int, len: int, read: int, kind: OffsetKind)
    requires
        slice_inv(a0, l, buf0, buf, c0, Some(item), rel, false, len, read, kind),
        !vis(item),
    ensures
        rel == 0,
        item.right is Some ==> slice_inv(a0, l, buf0, buf, c0, item.right, 0, false, len, read, kind),
        item.right is None ==> slice_inv(a0, l, buf0, buf, c0, Some(item), 0, true, len, read, kind),
{
    lemma_view_step(item);
    lemma_walk_step(c0, item, kind);
    let rest = view(chain(item.right));
    assert(view(chain(Some(item))) =~= rest);
    assert(rest.skip(0) =~= rest);
    assert(view(chain(Some(item))).skip(0) =~= view(chain(Some(item))));
    if item.right is None {
        assert(rest =~= Seq::<Out>::empty());
    }
}

impl BlockIter {
    /*@extract yrs/src/block_iter.rs | impl BlockIter | fn forward | label=block_iter_forward
    @sig
        requires
            old(self).cwf(txn.kind_spec()),
            old(self).index + len <= u32::MAX,
            // `panic!("Length exceeded")` otherwise: the target must not exceed the CACHED counter
            (len == 0 && old(self).next_item is None) || (old(self).index + len <= old(self).branch.content_len && old(self).next_item is Some),
        ensures
            final(self).branch == old(self).branch,
            final(self).cwf(txn.kind_spec()),
            final(self).ahead() =~= old(self).ahead().skip(min(len as int, old(self).ahead().len() as int)),
            final(self).index == old(self).index + min(len as int, old(self).ahead().len() as int),
            old(self).wf(txn.kind_spec()) ==> final(self).wf(txn.kind_spec()),
    @*/

    /*@extract yrs/src/block_iter.rs | impl BlockIter | fn slice | label=block_iter_slice
    @ret r
    @sig
        requires
            old(self).wf(txn.kind_spec()),
            // DOMAIN RESTRICTIONS: `buf.len() as u32` is a truncating cast, `self.index + len` an unchecked u32 addition
            old(buf)@.len() <= u32::MAX,
            old(self).index + old(buf)@.len() <= u32::MAX,
        ensures
            final(self).branch == old(self).branch,
            final(buf)@.len() == old(buf)@.len(),
            // a buffer that reaches beyond the CACHED counter `branch.content_len` is refused as a whole: nothing is read,
            // nothing changes
            old(self).index + old(buf)@.len() > old(self).branch.content_len ==> r == 0 && *final(self) == *old(self) && final(buf)@ == old(buf)@,
            // otherwise, from position p: buf[0 .. r) == V[p .. p + r),  r == min(buf.len(), |V| - p),  the rest of the buffer is
            // untouched, the cursor stands at p + r
            old(self).index + old(buf)@.len() <= old(self).branch.content_len ==> {
                &&& r == min(old(buf)@.len() as int, bview(old(self).branch).len() - old(self).index)
                &&& forall|j: int| 0 <= j < r ==> final(buf)@[j] == bview(old(self).branch)[old(self).index + j]
                &&& forall|j: int| r <= j < old(buf)@.len() ==> final(buf)@[j] == old(buf)@[j]
                &&& final(self).wf(txn.kind_spec())
                &&& final(self).index == old(self).index + r
            },
    @start
        let ghost kind = txn.kind_spec();
        let ghost c0 = chain(self.branch.start);
        let ghost vv = bview(self.branch);
        let ghost p0 = self.index as int;
        let ghost a0 = self.ahead();
        let ghost buf0 = buf@;
        let ghost l = buf@.len() as int;
    @loop 1
        invariant
            self.branch == old(self).branch,
            self.index == p0 + l,
            p0 + l <= self.branch.content_len,
            encoding == kind,
            kind == txn.kind_spec(),
            slice_inv(a0, l, buf0, buf@, c0, next_item, self.rel as int, self.reached_end, len as int, read as int, kind),
            self.rel <= p0 + read,
            c0 == chain(self.branch.start),
            l <= u32::MAX && p0 + l <= u32::MAX,
        ensures
            len == 0 || self.reached_end,
        decreases
            cursor_measure(next_item, self.reached_end), len,
    @loopstart 1
        let ghost vx_m = cursor_measure(next_item, self.reached_end);
        let ghost vx_len = len;
        let ghost vx_ni = next_item;
        let ghost vx_re = self.reached_end;
    @loop 2
        invariant
            self.branch == old(self).branch,
            self.index == p0 + l,
            p0 + l <= self.branch.content_len,
            encoding == kind,
            kind == txn.kind_spec(),
            slice_inv(a0, l, buf0, buf@, c0, next_item, self.rel as int, self.reached_end, len as int, read as int, kind),
            self.rel <= p0 + read,
            c0 == chain(self.branch.start),
            l <= u32::MAX && p0 + l <= u32::MAX,
            !vx_re,
            vx_m == cursor_measure(vx_ni, vx_re),
            lex_lt(cursor_measure(next_item, self.reached_end), len as int, vx_m, vx_len as int) || (next_item == vx_ni && self.reached_end == vx_re && len == vx_len),
        ensures
            self.reached_end || len == 0 || (next_item is Some && !next_item.unwrap().info.countable_spec()),
        decreases
            cursor_measure(next_item, self.reached_end), len,
    @loopstart 2
        let ghost vx_buf = buf@;
        let ghost vx_rel = self.rel as int;
        let ghost vx_l2 = len as int;
        let ghost vx_r2 = read as int;
        proof {
            lemma_view_step(item);
            if !self.reached_end && !vis(item) {
                lemma_slice_pass(a0, l, buf0, buf@, c0, item, self.rel as int, len as int, read as int, kind);
            }
        }
    @after 1 `stmt:let r`
        proof {
            assert(buf@.subrange(0, vx_r2) =~= vx_buf.subrange(0, vx_r2));
            assert forall|j: int| 0 <= j < vx_r2 implies buf@[j] == vx_buf[j] by {
                assert(buf@.subrange(0, vx_r2)[j] == vx_buf.subrange(0, vx_r2)[j]);
            }
            lemma_slice_read(a0, l, buf0, vx_buf, buf@, c0, item, vx_rel, vx_l2, vx_r2, r as int, kind);
        }
    @afterloop 1
        proof {
            lemma_view_len(chain(next_item));
            assert(vv.skip(p0).skip(read as int) =~= vv.skip(p0 + read));
            assert forall|j: int| 0 <= j < read implies buf@[j] == vv[p0 + j] by {
                assert(a0[j] == vv.skip(p0)[j]);
            }
        }
    @*/

    /*@extract yrs/src/block_iter.rs | impl BlockIter | fn read_value | label=block_iter_read_value | rules=SUB(from=std::mem::replace;;to=vx_replace)
    @ret r
    @sig
        requires
            old(self).wf(txn.kind_spec()),
            // DOMAIN RESTRICTION (`self.index + len` in `slice`)
            old(self).index < u32::MAX,
        ensures
            final(self).branch == old(self).branch,
            // V[p], and the cursor advances by one -- if there is a V[p] and p lies below the CACHED counter `branch.content_len`;
            // None at the end (and at the cached counter), the position stays
            r == get_spec(old(self).branch, old(self).index as int),
            final(self).wf(txn.kind_spec()),
            final(self).index == old(self).index + (if r is Some { 1int } else { 0int }),
            old(self).index >= old(self).branch.content_len ==> *final(self) == *old(self),
    @*/
}

// ---------------------------------------------------------------------------------------------
// the real code, part 3: arrays (yrs/src/types/array.rs)
// ---------------------------------------------------------------------------------------------
/// `std::borrow::Borrow<T>` as far as `ArrayIter` uses it
pub trait Borrow<T> {
    spec fn borrow_spec(&self) -> &T;

    fn borrow(&self) -> (r: &T)
        ensures
            r == self.borrow_spec(),
    ;
}

impl<T> Borrow<T> for T {
    open spec fn borrow_spec(&self) -> &T {
        self
    }

    fn borrow(&self) -> (r: &T) {
        self
    }
}

impl<'a, T> Borrow<T> for &'a T {
    open spec fn borrow_spec(&self) -> &T {
        *self
    }

    fn borrow(&self) -> (r: &T) {
        *self
    }
}

/*@extract yrs/src/types/array.rs | - | struct ArrayRef | rules=SUB(from=ArrayRef(BranchPtr);;to=ArrayRef(pub BranchPtr)) @*/

/*@extract yrs/src/types/array.rs | - | struct ArrayIter | rules=SUB(from=inner: BlockIter,;;to=pub inner: BlockIter,) SUB(from=txn: B,;;to=pub txn: B,) SUB(from=_marker: PhantomData<T>,;;to=pub _marker: PhantomData<T>,) @*/

impl<B: Borrow<T>, T: ReadTxn> ArrayIter<B, T> {
    /// the unit in which the document of the iterator's transaction counts text
    pub open spec fn kind(&self) -> OffsetKind {
        self.txn.borrow_spec().kind_spec()
    }

    pub open spec fn wf(&self) -> bool {
        self.inner.wf(self.kind())
    }

    /// the elements the iterator has not handed out yet
    pub open spec fn pending(&self) -> Seq<Out> {
        self.inner.ahead()
    }

    // real: `impl<B, T> Iterator for ArrayIter<B, T>` (emitted as an inherent method: a trait-method impl cannot carry `requires`)
    /*@extract yrs/src/types/array.rs | impl<B, T> Iterator for ArrayIter<B, T> where B: Borrow<T>, T: ReadTxn, | fn next | label=array_iter_next | rules=SUB(from=Option<Self::Item>;;to=Option<Out>) SUB(from=std::mem::replace;;to=vx_replace)
    @ret r
    @sig
        requires
            old(self).wf(),
            // DOMAIN RESTRICTION (`self.index + len` in `slice`)
            old(self).inner.index < u32::MAX,
        ensures
            final(self).wf(),
            final(self).inner.branch == old(self).inner.branch,
            final(self).kind() == old(self).kind(),
            // hands out V[p] and steps behind it -- while p lies below |V| and below the CACHED counter `branch.content_len`
            r == get_spec(old(self).inner.branch, old(self).inner.index as int),
            r is Some ==> final(self).inner.index == old(self).inner.index + 1 && final(self).pending() =~= old(self).pending().skip(1) && r == Some(old(self).pending()[0]),
            r is None ==> final(self).inner.index == old(self).inner.index && final(self).pending() =~= old(self).pending(),
            // with the cached counter right: None exactly when nothing is pending
            old(self).inner.branch.content_len == bview(old(self).inner.branch).len() ==> (r is None <==> old(self).pending().len() == 0),
    @start
        proof {
            lemma_pos(&self.inner, self.kind());
            if self.inner.index < bview(self.inner.branch).len() {
                assert(bview(self.inner.branch).skip(self.inner.index as int).skip(1) =~= bview(self.inner.branch).skip(self.inner.index + 1));
            }
        }
    @*/
}

impl<T: Borrow<T> + ReadTxn> ArrayIter<T, T> {
    /*@extract yrs/src/types/array.rs | impl<T> ArrayIter<T, T> where T: Borrow<T> + ReadTxn, | fn from | label=array_iter_from
    @ret r
    @sig
        ensures
            r.inner.branch == array.0 && r.inner.index == 0 && r.txn == txn,
            r.pending() == bview(array.0),
            items_ok(chain(array.0.start), r.kind()) ==> r.wf(),
    @*/
}

impl<'a, T: Borrow<T> + ReadTxn> ArrayIter<&'a T, T> {
    /*@extract yrs/src/types/array.rs | impl<'a, T> ArrayIter<&'a T, T> where T: Borrow<T> + ReadTxn, | fn from_ref | label=array_iter_from_ref | rules=SUB(from=array: &Branch;;to=array: BranchPtr) SUB(from=BranchPtr::from(array);;to=array)
    @ret r
    @sig
        ensures
            r.inner.branch == array && r.inner.index == 0 && r.txn == txn,
            r.pending() == bview(array),
            items_ok(chain(array.start), txn.kind_spec()) ==> r.wf(),
    @*/
}

impl ArrayRef {
    /*@extract yrs/src/types/array.rs | impl AsRef<Branch> for ArrayRef | fn as_ref | label=array_as_ref | rules=SUB(from=self.0.deref();;to=self.0) SUB(from=-> &Branch;;to=-> BranchPtr)
    @ret r
    @sig
        ensures r == self.0,
    @*/

    // the default methods of `trait Array` (implementor: ArrayRef), emitted as inherent methods
    /*@extract yrs/src/types/array.rs | trait Array: AsRef<Branch> + Sized | fn len | label=array_len
    @ret r
    @sig
        ensures
            // the CACHED counter `block_len`
            r == self.0.block_len,
    @*/

    /*@extract yrs/src/types/array.rs | trait Array: AsRef<Branch> + Sized | fn get | label=array_get | rules=SUB(from=BranchPtr::from(self.as_ref());;to=self.as_ref())
    @ret r
    @sig
        requires
            items_ok(chain(self.0.start), txn.kind_spec()),
            // DOMAIN RESTRICTION (`self.index + len` in `slice`)
            index < u32::MAX,
        ensures
            // V[index] -- if there is one and index lies below the CACHED counter `content_len`
            r == get_spec(self.0, index as int),
            // with the cached counter right: None exactly when index is out of range
            self.0.content_len == bview(self.0).len() ==> (r is None <==> index >= bview(self.0).len()),
    @*/

    /*@extract yrs/src/types/array.rs | trait Array: AsRef<Branch> + Sized | fn iter | label=array_iter
    @ret r
    @sig
        ensures
            r.inner.branch == self.0 && r.inner.index == 0,
            r.pending() == bview(self.0),
            items_ok(chain(self.0.start), txn.kind_spec()) ==> r.wf(),
    @*/

    // real: `impl ToJson for ArrayRef`
    /*@extract yrs/src/types/array.rs | impl ToJson for ArrayRef | fn to_json | label=array_to_json | rules=SUB(from=buf.into_iter();;to=vx_into_iter(buf))
    @ret r
    @sig
        requires
            items_ok(chain(self.0.start), txn.kind_spec()),
            // THE PRECONDITION (what integration has to maintain; the weakest one under which the `panic!("Defect: Array::to_json
            // didn't read all elements")` is unreachable): the cached counter `block_len` does not exceed |V| nor the other cached
            // counter `content_len` (the buffer of `block_len` elements is refused as a whole by `slice` otherwise)
            self.0.block_len == 0 || (self.0.block_len <= bview(self.0).len() && self.0.block_len <= self.0.content_len),
        ensures
            // the JSON array of the first `block_len` elements of V ...
            r == Any::Array(Ghost(to_json_spec(self.0))),
            // ... i.e. of V, if the cached counter is right
            self.0.block_len == bview(self.0).len() ==> r == Any::Array(Ghost(bview(self.0).map_values(|o: Out| json_of(o)))),
    @closure 1 `|v: Out| -> (vx_j: Any)`
        ensures vx_j == json_of(v),
    @after 1 `stmt:let res`
        proof {
            assert(res@ =~= to_json_spec(self.0));
            if self.0.block_len == bview(self.0).len() {
                assert(bview(self.0).take(self.0.block_len as int) =~= bview(self.0));
            }
        }
    @*/
}

// ---------------------------------------------------------------------------------------------
// the real code, part 4: text (yrs/src/types/text.rs)
// ---------------------------------------------------------------------------------------------
/*@extract yrs/src/types/text.rs | - | struct TextRef | rules=SUB(from=TextRef(BranchPtr);;to=TextRef(pub BranchPtr)) @*/

/// the characters an item contributes to `get_string`: those of its String content unless it is a tombstone
pub open spec fn item_text(p: &Item) -> Seq<char> {
    match p.content {
        ItemContent::String(s) => if !p.info.deleted_spec() { s.chars() } else { Seq::empty() },
        _ => Seq::empty(),
    }
}

/// what `get_string` returns: the String contents of the items that are not tombstones, in order
pub open spec fn text_of(c: Seq<ItemPtr>) -> Seq<char>
    decreases c.len(),
{
    if c.len() == 0 { Seq::empty() } else { item_text(c[0]) + text_of(c.skip(1)) }
}

impl TextRef {
    /*@extract yrs/src/types/text.rs | impl AsRef<Branch> for TextRef | fn as_ref | label=text_as_ref | rules=SUB(from=self.0.deref();;to=self.0) SUB(from=-> &Branch;;to=-> BranchPtr)
    @ret r
    @sig
        ensures r == self.0,
    @*/

    /*@extract yrs/src/types/text.rs | trait Text: AsRef<Branch> + Sized | fn len | label=text_len
    @ret r
    @sig
        ensures
            // the CACHED counter `content_len`
            r == self.0.content_len,
    @*/

    // real: `impl GetString for TextRef`
    /*@extract yrs/src/types/text.rs | impl GetString for TextRef | fn get_string | label=text_get_string
    @ret r
    @sig
        ensures
            // the String contents of the items that are not tombstones, in list order (whether countable or not; embeds, formats
            // and nested types contribute nothing)
            r.chars@ == text_of(chain(self.0.start)),
    @start
        let ghost c0 = chain(self.0.start);
    @loop 1
        invariant
            c0 == chain(self.0.start),
            text_of(c0) =~= s.chars@ + text_of(chain(start)),
        ensures
            text_of(c0) =~= s.chars@,
        decreases
            chain(start).len(),
    @loopstart 1
        proof {
            lemma_view_step(item);
            assert(chain(start).skip(1) =~= chain(item.right));
        }
    @*/
}

/// termination measure of a cursor: twice the number of items from it on, plus one while the end has not been reached
pub open spec fn cursor_measure(ni: Option<ItemPtr>, re: bool) -> int {
    2 * chain(ni).len() + (if re { 0int } else { 1int })
}


// ---------------------------------------------------------------------------------------------
// the real code, part 5: the loop bodies once more, each lifted on its own (R18 statement regions; `self.` is spelled `it.`, the
// ways out of the body -- `break`, `continue`, `return false`, falling through -- are spelled as a result code: SUB / tail, logged),
// so that an edit of a loop body fails a contract clause of real code and not only the loop invariant spliced into the whole
// function.  STEP level.
// ---------------------------------------------------------------------------------------------
/// the index units `try_forward` sees in an item
pub open spec fn clen(p: &Item, kind: OffsetKind) -> int {
    p.content.len_spec(kind) as int
}

// body of the loop of `try_forward`.  Result: (item, len, how the body was left: 0 = fell through, 1 = `break`, 2 = `return false`)
/*@extract yrs/src/block_iter.rs | impl BlockIter | region try_forward | stmt=stmt:while #1 >> stmt:if | stmtnth=1 | upto=stmt:while #1 >> stmt:match | tail=(item, len, 0u8) | label=try_forward_step | rules=SUB(from=self.;;to=it.) SUB(from=break;;to=return (item, len, 1u8)) SUB(from=return false;;to=return (item, len, 2u8))
@header
    pub fn try_forward_step(it: &mut BlockIter, mut item: Option<ItemPtr>, mut len: u32, encoding: OffsetKind) -> (r: (Option<ItemPtr>, u32, u8))
@sig
    requires
        // the loop condition `can_forward(item, len)`, on an existing item
        item is Some,
        !old(it).reached_end && (len > 0 || !vis(item.unwrap())),
    ensures
        final(it).branch == old(it).branch && final(it).index == old(it).index && final(it).next_item == old(it).next_item,
        // the target lies INSIDE this visible item: stop ON it, `rel` = what was left to pass
        vis(item.unwrap()) && len > 0 && clen(item.unwrap(), encoding) > len
            ==> r == (item, 0u32, 1u8) && final(it).rel == len && !final(it).reached_end,
        // otherwise the item is passed -- a visible one takes its index units off `len`, an invisible one (tombstone / not
        // countable) nothing -- and the walk goes on with the right neighbour, or has reached the end behind the last item
        !(vis(item.unwrap()) && len > 0 && clen(item.unwrap(), encoding) > len) ==> {
            &&& r.2 == 0
            &&& r.1 == len - (if vis(item.unwrap()) && len > 0 { clen(item.unwrap(), encoding) } else { 0 })
            &&& final(it).rel == old(it).rel
            &&& item.unwrap().right is Some ==> r.0 == item.unwrap().right && !final(it).reached_end
            &&& item.unwrap().right is None ==> r.0 == item && final(it).reached_end
        },
@*/

// the statements of `try_forward` between the two guards and the loop (`let mut item = ..; self.index += len; if self.rel != 0 {..}`).
// Result: (item, len) as the loop sees them
/*@extract yrs/src/block_iter.rs | impl BlockIter | region try_forward | stmt=stmt:let item | stmtnth=1 | upto=stmt:if ^ self.rel | tail=(item, len) | label=try_forward_enter | rules=SUB(from=self.;;to=it.)
@header
    pub fn try_forward_enter(it: &mut BlockIter, mut len: u32) -> (r: (Option<ItemPtr>, u32))
@sig
    requires
        old(it).index + len <= u32::MAX,
        old(it).rel <= old(it).index,
    ensures
        final(it).branch == old(it).branch && final(it).next_item == old(it).next_item && final(it).reached_end == old(it).reached_end,
        // the walk starts on the item under the cursor, at ITS beginning: the offset `rel` inside it is added to what has to be passed
        r.0 == old(it).next_item && r.1 == len + old(it).rel && final(it).rel == 0,
        // `index` is moved to the target at once (the loop gives back what it could not pass)
        final(it).index == old(it).index + len,
@*/

// the statements of `slice` in front of its loops.  Result: None = the buffer is refused (`return 0`), Some((len, next_item, read))
/*@extract yrs/src/block_iter.rs | impl BlockIter | region slice | stmt=stmt:let len | stmtnth=1 | upto=stmt:let read | tail=Some((len, next_item, read)) | label=slice_enter | rules=SUB(from=self.;;to=it.) SUB(from=return 0;;to=return None)
@header
    pub fn slice_enter<T: ReadTxn>(it: &mut BlockIter, txn: &T, buf: &mut [Out]) -> (r: Option<(u32, Option<ItemPtr>, u32)>)
@sig
    requires
        old(buf)@.len() <= u32::MAX,
        old(it).index + old(buf)@.len() <= u32::MAX,
    ensures
        final(buf)@ == old(buf)@,
        // a buffer that reaches beyond the cached counter is refused as a whole
        old(it).index + old(buf)@.len() > old(it).branch.content_len ==> r is None && *final(it) == *old(it),
        // otherwise: as many elements as the buffer holds are wanted, none is read yet, the walk starts at the cursor, and `index`
        // is moved by the whole buffer length at once
        old(it).index + old(buf)@.len() <= old(it).branch.content_len ==> r == Some((old(buf)@.len() as u32, old(it).next_item, 0u32))
            && final(it).index == old(it).index + old(buf)@.len()
            && final(it).branch == old(it).branch && final(it).next_item == old(it).next_item && final(it).rel == old(it).rel && final(it).reached_end == old(it).reached_end,
@*/

// the statement of `slice` behind its inner loop: when the inner loop stopped on an item that is not countable, the cursor is
// handed to `try_forward(txn, 0)`, which passes the invisible items.  Result: (next_item, Some(read) = the early `return read`)
/*@extract yrs/src/block_iter.rs | impl BlockIter | region slice | stmt=stmt:if ^ len > 0 | stmtnth=2 | tail=(next_item, None) | label=slice_refill | rules=SUB(from=self.;;to=it.) SUB(from=return read;;to=return (next_item, Some(read)))
@header
    pub fn slice_refill<T: ReadTxn>(it: &mut BlockIter, txn: &T, mut next_item: Option<ItemPtr>, read: u32, len: u32) -> (r: (Option<ItemPtr>, Option<u32>))
@sig
    requires
        // the cursor (next_item, rel, reached_end) is in order, `index` is ahead of it but not beyond the cached counter
        cursor_ok(next_item, old(it).rel as int, old(it).reached_end, txn.kind_spec()),
        walk_inv(chain(old(it).branch.start), chain(next_item)),
        old(it).rel <= old(it).index <= old(it).branch.content_len,
    ensures
        final(it).branch == old(it).branch && final(it).index == old(it).index,
        // the early `return read` is never taken
        r.1 is None,
        // at the end, or nothing more is wanted: nothing happens
        !(!old(it).reached_end && len > 0) ==> r.0 == next_item && final(it).rel == old(it).rel && final(it).reached_end == old(it).reached_end,
        // otherwise the cursor is NORMALISED: the same elements are ahead, and it stands at the end or on a visible item
        !old(it).reached_end && len > 0 ==> {
            &&& ahead_of(r.0, final(it).rel as int, final(it).reached_end) =~= ahead_of(next_item, old(it).rel as int, old(it).reached_end)
            &&& cursor_ok(r.0, final(it).rel as int, final(it).reached_end, txn.kind_spec())
            &&& walk_inv(chain(old(it).branch.start), chain(r.0))
            &&& final(it).rel <= old(it).rel
            &&& final(it).reached_end || (r.0 is Some && vis(r.0.unwrap()))
        },
@*/

// body of the inner loop of `slice`.  Result: (next_item, read, len, how the body was left: 0 = fell through, 1 = `continue`, 2 = `break`)
/*@extract yrs/src/block_iter.rs | impl BlockIter | region slice | stmt=stmt:while #2 >> stmt:if | stmtnth=1 | tail=(next_item, read, len, 0u8) | label=slice_step | rules=SUB(from=self.;;to=it.) SUB(from=continue;;to=return (next_item, read, len, 1u8)) SUB(from=break;;to=return (next_item, read, len, 2u8))
@header
    pub fn slice_step(it: &mut BlockIter, item: ItemPtr, mut next_item: Option<ItemPtr>, buf: &mut [Out], mut read: u32, mut len: u32, encoding: OffsetKind) -> (r: (Option<ItemPtr>, u32, u32, u8))
@sig
    requires
        next_item == Some(item),
        item_ok(item, encoding),
        read + len == old(buf)@.len() <= u32::MAX,
        // the cursor is in order: `rel` is 0 or an offset inside the visible item
        old(it).rel == 0 || (vis(item) && old(it).rel < elems(item).len()),
    ensures
        final(it).branch == old(it).branch && final(it).index == old(it).index && final(it).next_item == old(it).next_item,
        final(buf)@.len() == old(buf)@.len(),
        // not countable, or at the end, or the buffer is full: leave the loop, nothing changes
        !(item.info.countable_spec() && !old(it).reached_end && len > 0)
            ==> r == (next_item, read, len, 2u8) && *final(it) == *old(it) && final(buf)@ == old(buf)@,
        // a countable TOMBSTONE: nothing is read, go on with the right neighbour (or be at the end)
        item.info.countable_spec() && !old(it).reached_end && len > 0 && item.info.deleted_spec() ==> {
            &&& final(buf)@ == old(buf)@ && r.1 == read && r.2 == len && r.3 == 0 && final(it).rel == old(it).rel
            &&& item.right is Some ==> r.0 == item.right && !final(it).reached_end
            &&& item.right is None ==> r.0 == next_item && final(it).reached_end
        },
        // a VISIBLE item: its elements from offset `rel` on go to buf[read ..], as many as it has and the buffer still takes
        vis(item) && !old(it).reached_end && len > 0 ==> {
            let n = min(elems(item).len() - old(it).rel, len as int);
            &&& r.1 == read + n && r.2 == len - n
            &&& forall|j: int| read <= j < read + n ==> #[trigger] final(buf)@[j] == elems(item)[old(it).rel + j - read]
            &&& forall|j: int| 0 <= j < old(buf)@.len() && !(read <= j < read + n) ==> #[trigger] final(buf)@[j] == old(buf)@[j]
            // the whole rest of the item was read: offset 0 of the right neighbour (or the end) ...
            &&& old(it).rel + n == elems(item).len() ==> r.3 == 0 && final(it).rel == 0
                && (item.right is Some ==> r.0 == item.right && !final(it).reached_end)
                && (item.right is None ==> r.0 == next_item && final(it).reached_end)
            // ... or the buffer is full: stay inside the item, n elements further
            &&& old(it).rel + n != elems(item).len() ==> r.3 == 1 && final(it).rel == old(it).rel + n && r.0 == next_item && !final(it).reached_end
        },
@start
    let ghost vx_buf = buf@;
@after 1 `stmt:let r`
    proof {
        lemma_read_into_tail(elems(item), it.rel as int, vx_buf, buf@, read as int, r as int);
    }
@*/

// body of the loop of `get_string`
/*@extract yrs/src/types/text.rs | impl GetString for TextRef | region get_string | stmt=stmt:while #1 >> stmt:if | stmtnth=1 | label=get_string_step
@header
    pub fn get_string_step(item: &Item, s: &mut String)
@sig
    ensures
        // the characters of a String content that is not a tombstone are appended; nothing else is
        final(s).chars@ == old(s).chars@ + item_text(item),
@*/

} // verus!
fn main() {}
