// Reproducer for unit `seqread` (sequence half of C17): OBSERVATION S1 + a spot check of the agreement the unit proves.
// Build: throw-away cargo project with `yrs = { path = "/repo/yrs" }`; `CARGO_NET_OFFLINE=true cargo run --offline`.
use std::sync::mpsc;
use std::time::Duration;
use yrs::types::ToJson;
use yrs::updates::decoder::Decode;
use yrs::{Any, Array, Doc, GetString, OffsetKind, Options, Text, Transact, Update};

/// runs `f` on its own thread; a call that does not return within 3 s is reported (the thread is left spinning)
fn with_timeout<F: FnOnce() -> String + Send + 'static>(what: &str, f: F) {
    let (tx, rx) = mpsc::channel();
    std::thread::spawn(move || {
        let r = f();
        let _ = tx.send(r);
    });
    match rx.recv_timeout(Duration::from_secs(3)) {
        Ok(r) => println!("  {what}: {r}"),
        Err(_) => println!("  {what}: NO ANSWER AFTER 3 s (the call does not return)"),
    }
}

fn array_doc(kind: OffsetKind, upd: &[u8]) -> (Doc, yrs::ArrayRef) {
    let mut o = Options::default();
    o.offset_kind = kind;
    let doc = Doc::with_options(o);
    let arr = doc.get_or_insert_array("a");
    doc.transact_mut()
        .apply_update(Update::decode_v1(upd).unwrap())
        .unwrap();
    (doc, arr)
}

fn probe(title: &str, kind: OffsetKind, upd: Vec<u8>) {
    println!("{title}");
    for what in ["len", "get(0)", "get(1)", "iter", "to_json"] {
        let upd = upd.clone();
        with_timeout(what, move || {
            let (doc, arr) = array_doc(kind, &upd);
            let txn = doc.transact();
            match what {
                "len" => format!("{}", arr.len(&txn)),
                "get(0)" => format!("{:?}", arr.get(&txn, 0)),
                "get(1)" => format!("{:?}", arr.get(&txn, 1)),
                "iter" => format!("{:?}", arr.iter(&txn).collect::<Vec<_>>()),
                _ => format!("{:?}", arr.to_json(&txn)),
            }
        });
    }
}

fn main() {
    // ---- spot check of what the unit proves (tombstones, a nested type, several blocks; embed in a text)
    {
        let doc = Doc::new();
        let arr = doc.get_or_insert_array("a");
        let txt = doc.get_or_insert_text("t");
        let mut txn = doc.transact_mut();
        arr.insert_range(&mut txn, 0, [1, 2, 3, 4, 5]);
        arr.remove_range(&mut txn, 1, 2); // [1, (2), (3), 4, 5]
        arr.insert(&mut txn, 1, "x"); // a second block between the tombstones
        arr.push_back(&mut txn, yrs::MapPrelim::from([("k", 1)]));
        let n = arr.len(&txn);
        let it: Vec<_> = arr.iter(&txn).map(|v| v.to_json(&txn)).collect();
        let by_get: Vec<_> = (0..n).map(|i| arr.get(&txn, i).unwrap().to_json(&txn)).collect();
        let json = arr.to_json(&txn);
        println!("AGREEMENT spot check: len {n}, iter {} elements, to_json {json:?}", it.len());
        assert_eq!(it.len() as u32, n);
        assert_eq!(it, by_get);
        assert_eq!(json, Any::from(it));
        assert!(arr.get(&txn, n).is_none());
        txt.insert(&mut txn, 0, "h\u{e9}llo \u{1F600}");
        txt.insert_embed(&mut txn, 3, Any::from(true)); // behind "h\u{e9}" (3 bytes)
        txt.remove_range(&mut txn, 0, 1);
        let s = txt.get_string(&txn);
        println!(
            "  text: len {} == utf8 bytes of get_string {} + 1 embed (default OffsetKind::Bytes)",
            txt.len(&txn),
            s.len()
        );
        assert_eq!(txt.len(&txn) as usize, s.len() + 1);
    }

    // ---- OBSERVATION S1: String content inside an ARRAY (only a hand-crafted update creates it: the Array API stores text as
    // Any::String values).  v1 update: 1 client, 1 block, client 1, clock 0, info = 4 (String content, no origins), parent = root
    // type "a", content string, empty delete set.
    probe(
        "S1a: array <- String content \"ab\" (UTF-16 document): one element per char == per unit, the readers agree",
        OffsetKind::Utf16,
        vec![1, 1, 1, 0, 4, 1, 1, b'a', 2, b'a', b'b', 0],
    );
    probe(
        "S1b: array <- String content U+1F600 (UTF-16 document): len counts 2 units, `read` yields 1 element",
        OffsetKind::Utf16,
        vec![1, 1, 1, 0, 4, 1, 1, b'a', 4, 0xF0, 0x9F, 0x98, 0x80, 0],
    );
    probe(
        "S1c: array <- String content U+00E9 (Bytes document): content_len counts 2 bytes, `read` yields 1 element",
        OffsetKind::Bytes,
        vec![1, 1, 1, 0, 4, 1, 1, b'a', 2, 0xC3, 0xA9, 0],
    );
    std::process::exit(0);
}
