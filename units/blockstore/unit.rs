// unit `blockstore` -- the READ side and the APPEND side of the block store.
//   yrs/src/block_store.rs   ClientBlockList, BlockStore
//   yrs/src/store.rs         Store::write_blocks_from, Store::write_blocks_to
//   yrs/src/block.rs         Block::{clock_start, next_clock, clock_range, len, id, range, is_skip, as_slice}, BlockRef,
//                            TransactionMut::{integrate_skip, integrate_gc} (two call sites of push)
//   yrs/src/slice.rs         BlockSlice::{trim_start, trim_end, clock_end, encode}, ItemSlice::{new, from, len, trim_start, trim_end, clock_end}
//
// ABSTRACTION  a client's list is the sequence of its blocks (`self.inner@ : Seq<Block>`), a block is read through
//   `start()`, `blen()`, `next() = start + blen`, `skip()`, `spec_client()`; the store is `clients@ : Map<ClientID,
//   ClientBlockList>` plus `skips@ : Map<ClientID, Seq<Ent<()>>>` (the IdSet view of unit ids_lift, points = `has_pt`).
//   `carried(s, k)` = clock k lies in a non-Skip block (the id is INTEGRATED), `skip_covers(s, k)` = it lies in a Skip block.
//
// REPRESENTATION INVARIANT (ghost)
//   list_wf(s)     the list is NOT EMPTY, every block has len >= 1 and start + len <= u32::MAX, and blocks are CONTIGUOUS:
//                  s[i+1].start == s[i].next.  The first block NEED NOT start at 0 as far as the code is concerned (push's
//                  Vacant arm takes any block; write_blocks_from's "make sure the first id exists" caters for it), so
//                  list_wf does not say so; every list built by the crate does start at 0 (local clocks start at 0,
//                  `Update::integrate` fills holes with Skip blocks from `local_clock`), and the meaning lemmas that need
//                  it (`lemma_missing_meaning`) take it as a hypothesis.
//   lists_wf(m)    every stored list is list_wf and holds blocks of its own client.
//   skips_wf(m,sk) `skips` is a well-formed IdSet (ids_lift: canonical ranges, no empty entry) whose points are EXACTLY the
//                  clocks of the Skip blocks.            BlockStore::wf() = lists_wf && skips_wf.
//
// FUNCTIONS UNDER CONTRACT (whole real bodies unless marked)
//   ClientBlockList::find_index   TOTAL (after the repair ee1ac52).  requires: the list is EMPTY or list_wf -- nothing about the
//                                 clock.  ensures, for EVERY clock: Some(i) iff first.start <= clock < last.next (`in_list`;
//                                 false for the empty list), and then i < len && list[i].start <= clock < list[i].next; no
//                                 out-of-bounds index, no overflow / underflow / division by zero, termination.  (Without
//                                 list_wf a non-empty list can make `Block::clock_range` itself overflow: `clock + len - 1`.)
//     (`right as u32` may truncate for lists longer than u32::MAX; harmless: the probe only gets smaller.  `(left+right)/2`
//      needs len <= usize::MAX/2: trusted allocation bound, as in unit ids.)
//   lifted steps (R18 regions of the same text, contracts of their own): `find_index_first_probe` (the interpolation, reached
//     with clock <= end != 0: result <= right), `find_index_step` (the loop body: ends the search with the containing block,
//     or with None for a clock below the first block, or narrows [left,right] strictly without dropping a block that
//     contains the clock).
//   ClientBlockList::{last, get, len, clock, get_block, insert, push}   exact w.r.t. the sequence; clock == last.next (0 if empty)
//   BlockStore::is_empty          r == (no client)
//   BlockStore::get_client        Some(list) iff the client is known
//   BlockStore::get_clock         == list_clock of the client's list (0 if unknown)
//   BlockStore::contains          r <==> id.clock < get_clock(id.client)
//   BlockStore::is_missing        r <==> id.clock >= get_clock(id.client) || skips has the id.   `lemma_missing_meaning`: for
//                                 a list that starts at 0: NOT missing <==> the id is integrated (carried).
//   BlockStore::get_block         for EVERY id: Some(block) iff the id lies in the client's list, and then the block contains it.
//   BlockStore::get_state_vector  dom == clients; per client `first_gap` = the start of the first Skip block, else the clock
//                                 after the last block.  `lemma_first_gap_meaning`: every clock of the list below it is
//                                 integrated, the gap itself is not.  Lifted step `state_vector_skip_entry`.
//   BlockStore::push              requires lists_wf, `skips_pre` (skips == Skip clocks, plus the range of `block` if it is a
//                                 Skip: integrate_skip inserts the range first), block.ok() (len >= 1, no overflow) and
//                                 `push_pos`: the block continues its list (or starts it), or -- non-Skip only -- its range
//                                 lies inside ONE Skip block.  ensures wf(); only that client's list changes, to
//                                 `push_list`: appended, or the Skip block split into (optional left Skip, block, optional
//                                 right Skip); `skips` loses exactly the range of a non-Skip block (`spec_push_skips`).
//                                 `lemma_push_meaning`: the block's clocks become integrated (or Skip clocks), every other
//                                 clock keeps its status.  Lifted arm `push_into_skip` ("this replaces an integrated skip").
//   TransactionMut::integrate_skip   (call site) establishes `skips_pre`, keeps wf, appends the Skip block.
//   TransactionMut::integrate_gc     (call site) keeps wf; requires the trimmed range not empty (justified below, was F-BS2).
//   BlockStore::known_state       wf result; has (c, k) <==> ss lists c && c known && 0 <= k < get_clock(c) && !skips has (c, k);
//                                 for lists that start at 0 these are exactly the integrated ids (`lemma_missing_meaning`).
//                                 Lifted steps `known_state_client`, `known_state_remove_skip`.
//   BlockStore::get_state         == first_gap of the client's list (0 for an unknown client): the client's get_state_vector entry.
//   Store::write_blocks_between   (local_sv, sv): the old body of write_blocks_from with the local side as a PARAMETER.  requires
//                                 lists_wf, items_ok and `local_ok`: local_sv lists only clients the store knows, with clocks <=
//                                 the end of the client's list (so the first written clock lies in the list and find_index
//                                 hits).  There is a listing d with `diff_listing(d, local_sv, sv)` -- exactly the pairs of
//                                 diff_state_vectors(local_sv, sv), highest client first -- and the appended tokens are `emit_all`:
//                                 Var(#d), then per (c, k) in d:  Var(#blocks - start) Client(c) Var(clock)
//                                 block_tokens(first, clock - first.start) block_tokens(b, 0)..  with clock = max(k, list[0].start)
//                                 and start = the index of the block that contains clock.  Lifted step
//                                 `write_blocks_from_section`.
//   Store::write_blocks_from      requires lists_wf, items_ok (NOT skips_wf any more).  The same stream over
//                                 `diff_listing(d, store_ends(store), sv)`: the local side is the END of every client's list.
//                                 `lemma_section_exact`: a section carries EVERY clock of the list from max(k, first.start) to
//                                 its end -- also blocks behind a gap, the gap itself as a (trimmed) Skip block, which may be
//                                 the first written block -- hence exactly the integrated clocks >= k, nothing below; the
//                                 reader's running clock re-derives every block's start.  `lemma_listed_iff`: a client is
//                                 written iff the END of its list lies above the remote clock (or the remote does not list it).
//   Store::write_blocks_to        (the snapshot encoder of C13.)  requires wf, items_ok, `lists_from_zero` (every list starts at
//                                 clock 0: the function writes Var(0) as first clock and looks up `clock - 1`) and, DOMAIN
//                                 RESTRICTION, clock(c) < u32::MAX (`blocks.clock() + 1` is unchecked).  There is a listing d
//                                 with `snap_listing(d, clients, sv)`: exactly the pairs (c, k) with c listed by the snapshot
//                                 AND known to the store, k = min(snapshot clock, first_gap(c)) > 0, highest client first; the
//                                 appended tokens are `emit_all_to`: Var(#d), then per (c, k): Var(last + 1) Client(c) Var(0)
//                                 block_tokens(b, 0) for b in blocks[0 .. last], block_tokens_to(blocks[last], last.next - k),
//                                 last = the index of the block that contains k - 1.  `lemma_section_to_exact`: the section
//                                 writes EXACTLY the clocks 0 .. k-1 (every id below the clamped snapshot clock, nothing at or
//                                 above), all of them integrated -- no Skip block is written.  Lifted steps
//                                 `write_blocks_to_entry` (clamping, the `clock > 0` guard), `write_blocks_to_section`.
//   Block / BlockRange / Item / ID / BlockRef / BlockSlice / ItemSlice / StateVector accessors used by the above.
//
// PRECONDITIONS DERIVED FROM CALL SITES
//   find_index: none any more (total).  Callers that `unwrap()` the result are in range: push (block_store.rs: the block lies
//     inside a Skip block, see push_pos -- PROVED here), write_blocks_from / write_blocks_to (PROVED here), materialize.
//   push: block.ok(): Items have len >= 1 (Item::new), integrate_skip gets a non-empty hole, and `Update::decode_block` returns
//     Ok(None) for a GC / Skip block with `len == 0` (repair 86c3405), so integrate_gc gets a non-empty range (was F-BS2).
//     push_pos: `apply_update` first excludes `known_state` from the update (transaction.rs:826: what stays lies at/above
//     the store clock or inside one skips range, split at the range borders), `Update::integrate` pushes a Skip for
//     [local_clock, id.clock) before a block that lies beyond the clock (update.rs:351) and then the block itself; a remaining
//     block inside a skips range lies inside ONE Skip block because two Skip blocks are never adjacent (a pushed Skip is
//     followed at once by a non-Skip block; a split leaves (Skip, block, Skip)) -- an argument about the callers, NOT proved here.
//     Local blocks (`create_item`) start at get_local_state(): appended.
//
// FINDINGS: none open.  History (reproducer of the PRE-REPAIR behaviour: units/blockstore/repro/main.rs -- a throw-away cargo
//   project with `yrs = { path = "/repo/yrs", features = ["weak"] }`, `[workspace]`, offline: copy /verif/witness/Cargo.lock):
//  F-BS1  (REPAIRED, ee1ac52) find_index panicked for clocks OUTSIDE the list -- [(0, len 1)] and clock != 0: division by zero;
//         >= 2 blocks and clock >= 2 * end: first probe out of bounds -- reachable through `Nested::get` / `BranchID::get_branch`,
//         `diff_range` with the document's own snapshot, `txn.gc(Some(&ds))`, weak links (also from an honest remote update).
//         The obligation `BlockStore.get_block::pre [fi_safe]` of the earlier version of this unit is gone: find_index is total.
//  F-BS2  (REPAIRED, 86c3405) a GC block of length 0 from the wire was pushed into the store (update v1 bytes [1,1,7,0,0,0,0],
//         then `encode_diff_v1`: subtract overflow in `Block::clock_range` in builds with overflow checks).
//         Also repaired (c250b7b): `write_blocks_to` computed `clock - 1` for a snapshot clock 0.
//  (REPAIRED, b95dc76 / 57501d8) the earlier observation "blocks integrated BEYOND a Skip are not offered to a remote whose
//         clock is at or above the first gap": write_blocks_from now offers up to the list ends (`lemma_listed_iff`).
//  OBSERVATION  `write_blocks_to`: `blocks.clock() + 1` overflows (builds with overflow checks) for a client whose clock is exactly
//         u32::MAX (a block that ends at the last clock); stated as a domain restriction.
//
// STAND-IN TYPES (everything else is extracted verbatim from /repo)
//   ClientID        opaque ordered value with structural equality (real: `ClientID(NonZeroU64)`, derived Eq/Hash/Ord).
//   Item            sliced to `id`, `len`; DROPPED: left, right, origin, right_origin, content, parent, redone, parent_sub,
//                   info -- kept as ONE opaque field `vx_rest` (as in unit upd).
//   ClientBlockList `inner: Vec<Block>` (real: Vec<UnsafeCell<Block>>); `unsafe { &*X.get() }` -> `&X`, `UnsafeCell::new(x)` -> `x`.
//   BlockRef        the real struct with `cell: &'a Block`; `new` / `as_ref` are the real bodies under that lowering.
//   BlockStore      the real struct, hasher parameter dropped.  `&blocks[i]` (impl Index) inlined to `&blocks.inner[i]`
//                   (accessor body checked).
//   IdSet / IdMapInner / IdRanges   the real structs (BTreeMap; SmallVec -> Vec, R1) over the shared vocabulary of
//                   units/ids_common (included); lift / has_pt / wf_map / same_except / in_block copied from unit ids_lift.
//   ItemSlice<'a>   `ptr: &'a Item` instead of `ptr: ItemPtr` (as in units header / upd); BlockSlice<'a> accordingly.
//   Store           reduced to `blocks`; TransactionMut reduced to `store` (real: RwLockWriteGuard<Store>, DerefMut lowered),
//                   `delete_set`, `insert_set`.  BlockSet: VecDeque -> Vec, hasher dropped (only `clients.iter()` is used).
//   Encoder         trait with a ghost token log (as in units header / upd); `Kernels::encode_item_slice` stands for
//                   `ItemSlice::encode` (proved in unit header; abstract tokens `item_slice_toks`, abstract `item_rest_ok`).
//   hash_map Entry  slot-lens stand-in as in unit ids_lift (`get_mut` / `insert` verified against it).
//
// TRUSTED (listed by the trust scanner)
//   axiom_client_id_key_model / axiom_client_id_ord_model   A4: derived Hash/Eq resp. Ord of ClientID are lawful (HashMap / BTreeMap specs)
//   axiom_block_vec_len_bound     A2: a Vec<Block> has at most usize::MAX / 2 elements (allocation limit)
//   VxEntryApi::vx_entry          A2: std HashMap::entry
//   VxClocksApi::vx_collect_clocks  A2: std `m.iter().map(|(client_id, list)| (*client_id, list.clock())).collect()`
//   vx_sort_by_client_desc        A2: std `diff.sort_by(|a, b| b.0.cmp(&a.0))` (permutation, descending client ids)
//   stubs (external_body, contract text cross-checked against the proving unit): IdSet::{insert, remove_range} (ids_lift),
//     IdRanges::{is_empty, contains_clock, remove, clock_start} (ids), IdRanges::insert_with / IdRanges<()>::insert (ids_insert),
//     Store::diff_state_vectors (sv).  IdSet::{contains, get}, IdMapInner::{contains, get, clients, default} are re-verified here.
//   the trusted items of units/ids_common/base.rs + vx/prelude.rs (included for the IdRanges vocabulary)
//   uninterp: item_slice_toks, item_rest_ok (abstract values, no axioms about them)
//
// REWRITES (all logged in the evidence): R1-R6 (for the included ids_common text and the stub bodies), R9, R10, the SUB
//   rules below (type spellings, UnsafeCell lowering, the std stand-ins), and per extract: `(start, end) = block.clock_range()`
//   -> `let vx_cr = ..; start = vx_cr.0; end = vx_cr.1` (Verus has no destructuring assignment), struct fields made `pub`,
//   the or-pattern of BlockSlice::trim_start split in two arms (as in unit header), `s.encode(encoder)` ->
//   `E::encode_item_slice(s, encoder)`, `self.skips.iter()` -> the BTreeMap iterator it wraps and `Ranges::clock_start` ->
//   `IdRanges::clock_start` (accessor bodies checked), `impl From<ItemPtr> for ItemSlice` emitted as an inherent fn,
//   `for (&client_id, &clock) in sv.iter()` with the two bindings copied out (no reference patterns), in the lifted
//   `find_index_step`: `return Some(mid)` -> `return (Some(Some(mid)), left, right, mid)` and `mid.checked_sub(1)?` -> the match it
//   abbreviates.
//
// NOT INGESTED: squash_left / squash_left_range_compaction (ItemPtr surgery through raw pointers), split_block / get_item /
//   get_item_clean_* (ItemPtr), iter / iter_mut (std iterator newtypes), Display/Debug impls.
//
// Function bodies are pulled from /repo on every run by vx/extract.py; this file holds stand-in types, the specification,
// the contracts and the proof hints only.
#![allow(unused_imports, unused_variables, unused_mut, dead_code, unused_parens, unused_braces, unused_assignments)]
use vstd::prelude::*;
use std::collections::HashMap;
use std::collections::BTreeMap;
use core::ops::Range;
use vstd::std_specs::iter::IteratorSpec;
use vstd::std_specs::cmp::PartialEqSpec;
use vstd::std_specs::btree::*;

verus! {

/*@rules R1 R2(elem=(Range<u32>, T)) R3 R4 R5 R6 R9 R10
   SUB(from=Vec<UnsafeCell<Block>>;;to=Vec<Block>)
   SUB(from=&'a UnsafeCell<Block>;;to=&'a Block)
   SUB(from=unsafe { &*self.cell.get() };;to=self.cell)
   SUB(from=unsafe { &*self.inner[right].get() };;to=&self.inner[right])
   SUB(from=unsafe { &*self.inner[mid].get() };;to=&self.inner[mid])
   SUB(from=HashMap<ClientID, ClientBlockList, BuildHasherDefault<ClientHasher>>;;to=HashMap<ClientID, ClientBlockList>)
   SUB(from=HashMap<ClientID, u32, BuildHasherDefault<ClientHasher>>;;to=HashMap<ClientID, u32>)
   SUB(from=HashMap<ClientID, VecDeque<Block>, BuildHasherDefault<ClientHasher>>;;to=HashMap<ClientID, Vec<Block>>)
   SUB(from=unsafe { &*list.inner[index].get() };;to=&list.inner[index])
   SUB(from=UnsafeCell::new(cell);;to=cell)
   SUB(from=UnsafeCell::new(block);;to=block)
   SUB(from=UnsafeCell::new(skip);;to=skip)
   SUB(from=self.clients.entry(id.client);;to=self.clients.vx_entry(id.client))
   SUB(from=diff.sort_by(|a, b| b.0.cmp(&a.0));;to=vx_sort_by_client_desc(&mut diff))
   SUB(from=ItemPtr::from(item.as_ref());;to=vx_item_ptr(item))
   SUB(from=ptr: ItemPtr;;to=ptr: &'a Item)
   SUB(from=BlockSlice::GC(s) | BlockSlice::Skip(s) => s.trim_start(count),;;to=BlockSlice::GC(s) => s.trim_start(count), BlockSlice::Skip(s) => s.trim_start(count),)
   SUB(from=BlockSlice::GC(s) | BlockSlice::Skip(s) => s.trim_end(count),;;to=BlockSlice::GC(s) => s.trim_end(count), BlockSlice::Skip(s) => s.trim_end(count),)
   SUB(from=for (&client_id, &clock) in sv.iter() {;;to=for (vx_c, vx_k) in sv.iter() { let client_id: ClientID = *vx_c; let clock: u32 = *vx_k;)
   SUB(from=.map(|(client_id, list)| (*client_id, list.clock()));;to=)
@*/

#[derive(PartialEq, Eq, PartialOrd, Ord, Structural, Clone, Copy, Hash)]
pub struct ClientID(pub u64);

pub mod vx_trusted {
    use vstd::prelude::*;
    use vstd::std_specs::hash::*;
    use std::collections::HashMap;
    use super::ClientID;
    use super::Block;

    /// A4: the derived `Hash` and `Eq` of ClientID agree, i.e. ClientID is a lawful std::collections::HashMap key
    #[verifier::external_body] pub broadcast proof fn axiom_client_id_key_model()
        ensures
            #[trigger] obeys_key_model::<ClientID>(),
    {
    }

    /// A4 (as in unit ids_lift): the derived `Ord` of ClientID is a total order consistent with `==` (what vstd's BTreeMap
    /// specifications are conditioned on)
    #[verifier::external_body] pub proof fn axiom_client_id_ord_model()
        ensures
            vstd::std_specs::btree::key_obeys_cmp_spec::<ClientID>(),
    {
    }

    /// A2: std `m.iter().map(|(client_id, list)| (*client_id, list.clock())).collect::<HashMap<_, _, _>>()` on
    /// `m: &HashMap<ClientID, ClientBlockList>` (the body is that expression; Verus rejects closure parameter patterns and has
    /// no specification of Iterator::map / collect).  HashMap::iter: "An iterator visiting all key-value pairs in arbitrary
    /// order" (every pair once); Iterator::map: "calls that closure on each element"; collect into a HashMap: every yielded
    /// (key, value) pair is inserted.  The closure calls the real `ClientBlockList::clock` (under contract in this unit); its
    /// precondition is required for every stored list and its postcondition `r == list_clock(list)` gives the value.
    pub trait VxClocksApi {
        spec fn vx_view(&self) -> Map<ClientID, super::ClientBlockList>;

        fn vx_collect_clocks(&self) -> (r: HashMap<ClientID, u32>)
            requires
                forall|c: ClientID| #[trigger] self.vx_view().contains_key(c) ==> (self.vx_view()[c].inner@.len() > 0 ==> self.vx_view()[c].inner@.last().next() <= u32::MAX),
            ensures
                r@.dom() == self.vx_view().dom(),
                forall|c: ClientID| #[trigger] r@.contains_key(c) ==> r@[c] == super::list_clock(self.vx_view()[c].inner@),
        ;
    }

    impl VxClocksApi for HashMap<ClientID, super::ClientBlockList> {
        open spec fn vx_view(&self) -> Map<ClientID, super::ClientBlockList> { self@ }

        #[verifier::external_body]
        fn vx_collect_clocks(&self) -> (r: HashMap<ClientID, u32>)
        {
            self.iter().map(|(client_id, list)| (*client_id, list.clock())).collect()
        }
    }

    // ---- std::collections::hash_map::{Entry, OccupiedEntry, VacantEntry} (A2, stand-in as in unit ids_lift) -----------
    // Model: the entry for key `k` is a mutable optional SLOT of the map.  The only trusted function is `vx_entry`
    // (std: "Gets the given key's corresponding entry in the map for in-place manipulation"); `get_mut` / `insert` below are
    // VERIFIED against the slot model and mirror std's documentation:
    //   OccupiedEntry::get_mut   "Gets a mutable reference to the value in the entry."
    //   VacantEntry::insert      "Sets the value of the entry with the VacantEntry's key, and returns a mutable reference to it."
    pub struct OccupiedEntry<'a, V> { pub slot: &'a mut Option<V> }

    pub struct VacantEntry<'a, V> { pub slot: &'a mut Option<V> }

    pub enum Entry<'a, V> {
        Occupied(OccupiedEntry<'a, V>),
        Vacant(VacantEntry<'a, V>),
    }

    /// the map after the borrow of key `k`'s slot ends with content `s`
    pub open spec fn slot_map<V>(m: Map<ClientID, V>, k: ClientID, s: Option<V>) -> Map<ClientID, V> {
        match s {
            Some(v) => m.insert(k, v),
            None => if m.contains_key(k) { m.remove(k) } else { m },
        }
    }

    pub open spec fn entry_of<V>(e: Entry<'_, V>, m: Map<ClientID, V>, k: ClientID) -> bool {
        if m.contains_key(k) {
            e is Occupied && *e->Occupied_0.slot == Some(m[k])
        } else {
            e is Vacant && *e->Vacant_0.slot == None::<V>
        }
    }

    #[verifier::prophetic]
    pub open spec fn entry_final<V>(e: Entry<'_, V>) -> Option<V> {
        match e {
            Entry::Occupied(o) => *final(o.slot),
            Entry::Vacant(v) => *final(v.slot),
        }
    }

    pub trait VxEntryApi<V> {
        spec fn vx_map(&self) -> Map<ClientID, V>;

        /// A2 (trusted): std `HashMap::entry`
        fn vx_entry<'a>(&'a mut self, k: ClientID) -> (r: Entry<'a, V>)
            ensures
                entry_of(r, old(self).vx_map(), k),
                final(self).vx_map() == slot_map(old(self).vx_map(), k, entry_final(r));
    }

    impl<V> VxEntryApi<V> for HashMap<ClientID, V> {
        open spec fn vx_map(&self) -> Map<ClientID, V> { self@ }

        #[verifier::external_body]
        fn vx_entry<'a>(&'a mut self, k: ClientID) -> (r: Entry<'a, V>)
        {
            unimplemented!()
        }
    }

    impl<'a, V> OccupiedEntry<'a, V> {
        pub fn get_mut(&mut self) -> (r: &mut V)
            requires old(self).slot.is_some(),
            ensures
                *r == old(self).slot.unwrap(),
                *final(self).slot == Some(*final(r)),
                *final(final(self).slot) == *final(old(self).slot),
        {
            self.slot.as_mut().unwrap()
        }
    }

    impl<'a, V> VacantEntry<'a, V> {
        pub fn insert(self, v: V) -> (r: &'a mut V)
            ensures
                *r == v,
                *final(self.slot) == Some(*final(r)),
        {
            *self.slot = Some(v);
            self.slot.as_mut().unwrap()
        }
    }

    /// `p` is a permutation of 0..n (injective and onto; both stated so that neither direction needs a pigeonhole proof)
    pub open spec fn is_permutation(p: Seq<int>, n: int) -> bool {
        &&& p.len() == n
        &&& forall|i: int| 0 <= i < n ==> 0 <= #[trigger] p[i] < n
        &&& forall|i: int, j: int| 0 <= i < j < n ==> #[trigger] p[i] != #[trigger] p[j]
        &&& forall|k: int| 0 <= k < n ==> #[trigger] perm_hits(p, k)
    }

    pub open spec fn perm_hits(p: Seq<int>, k: int) -> bool {
        exists|i: int| 0 <= i < p.len() && #[trigger] p[i] == k
    }

    /// A2 (as in unit upd): std `v.sort_by(|a, b| b.0.cmp(&a.0))` (the body is that statement).  slice::sort_by: "Sorts the
    /// slice in ascending order with a comparison function": the result is a permutation of the input and every pair
    /// i < j satisfies compare(v[i], v[j]) != Greater; the comparator compares the SECOND argument's client id with the
    /// first's, i.e. descending client ids.  The order of ClientID is the derived `Ord` of its integer.
    #[verifier::external_body]
    pub fn vx_sort_by_client_desc<T>(v: &mut Vec<(ClientID, T)>)
        ensures
            final(v)@.len() == old(v)@.len(),
            exists|p: Seq<int>| is_permutation(p, old(v)@.len() as int) && forall|i: int| 0 <= i < p.len() ==> #[trigger] final(v)@[i] == old(v)@[p[i]],
            forall|i: int, j: int| 0 <= i < j < final(v)@.len() ==> (#[trigger] final(v)@[i]).0.0 >= (#[trigger] final(v)@[j]).0.0,
    {
        v.sort_by(|a, b| b.0.cmp(&a.0));
    }

    /// A2: an allocation is at most isize::MAX bytes and a `Block` takes at least 2 (it is 24: a tag and a
    /// `BlockRange { u64, u32, u32 }` or a Box), so a vector of blocks has at most usize::MAX / 2 elements on every target
    /// (used for `(left + right) / 2` of `find_index`).
    #[verifier::external_body] pub proof fn axiom_block_vec_len_bound(v: &Vec<Block>)
        ensures
            v@.len() <= usize::MAX / 2,
    {
    }
}
use vx_trusted::*;

// the interval layer (IdRanges<T>, Ent, covers, canon, ...): the SHARED vocabulary of the ids_* units
pub mod vx_base {
    use vstd::prelude::*;
    use core::ops::Range;
    use vstd::std_specs::cmp::PartialEqSpec;

/*@include units/ids_common/base.rs @*/
}
use vx_base::*;

broadcast use {axiom_client_id_key_model, vx_clone_axioms};

/*@include units/ids_common/spec.rs @*/

#[derive(Copy, Clone, PartialEq, Eq, Structural)]
/*@extract yrs/src/block.rs | - | struct ID @*/

#[derive(Copy, Clone, PartialEq, Eq, Structural)]
/*@extract yrs/src/block.rs | - | struct BlockRange @*/

/// opaque: everything of an Item except `id` and `len` (see the header comment)
pub struct ItemRest(pub u64);

/// sliced, see the header comment
pub struct Item {
    pub id: ID,
    pub len: u32,
    pub vx_rest: ItemRest,
}

/*@extract yrs/src/block.rs | - | enum Block @*/

/*@extract yrs/src/block.rs | - | struct BlockRef | rules=SUB(from=cell:;;to=pub cell:) @*/

/*@extract yrs/src/block_store.rs | - | struct ClientBlockList | rules=SUB(from=inner:;;to=pub inner:) @*/

// ---------------------------------------------------------------------------------------------
// views
// ---------------------------------------------------------------------------------------------
impl Block {
    /// first clock
    pub open spec fn start(&self) -> int {
        match self {
            Block::Item(x) => x.id.clock as int,
            Block::GC(r) => r.clock as int,
            Block::Skip(r) => r.clock as int,
        }
    }

    /// number of clocks
    pub open spec fn blen(&self) -> int {
        match self {
            Block::Item(x) => x.len as int,
            Block::GC(r) => r.len as int,
            Block::Skip(r) => r.len as int,
        }
    }

    /// first clock after the block
    pub open spec fn next(&self) -> int {
        self.start() + self.blen()
    }

    pub open spec fn spec_client(&self) -> ClientID {
        match self {
            Block::Item(x) => x.id.client,
            Block::GC(r) => r.client,
            Block::Skip(r) => r.client,
        }
    }

    pub open spec fn skip(&self) -> bool {
        self is Skip
    }

    /// at least one clock, and the clocks fit in u32
    pub open spec fn ok(&self) -> bool {
        self.blen() >= 1 && self.next() <= u32::MAX
    }
}

pub open spec fn list_ok(s: Seq<Block>) -> bool {
    forall|i: int| 0 <= i < s.len() ==> (#[trigger] s[i]).ok()
}

/// every block starts where its predecessor ends (two index variables: `s[i + 1]` under the trigger `s[i]` loops)
pub open spec fn list_contiguous(s: Seq<Block>) -> bool {
    forall|i: int, j: int| 0 <= i && j == i + 1 && j < s.len() ==> (#[trigger] s[i]).next() == (#[trigger] s[j]).start()
}

/// REPRESENTATION INVARIANT of a client's block list
pub open spec fn list_wf(s: Seq<Block>) -> bool {
    s.len() >= 1 && list_ok(s) && list_contiguous(s)
}

/// the clock after the last block (`ClientBlockList::clock`)
pub open spec fn list_clock(s: Seq<Block>) -> int {
    if s.len() == 0 { 0 } else { s.last().next() }
}

/// `clock` lies in one of the blocks
pub open spec fn in_list(s: Seq<Block>, clock: int) -> bool {
    s.len() > 0 && s[0].start() <= clock < s.last().next()
}

pub proof fn lemma_sorted(s: Seq<Block>, i: int, j: int)
    requires
        list_ok(s),
        list_contiguous(s),
        0 <= i <= j < s.len(),
    ensures
        s[i].start() + (j - i) <= s[j].start(),
        s[i].next() + (j - i) <= s[j].next(),
    decreases j - i,
{
    if i < j {
        lemma_sorted(s, i, j - 1);
        assert(s[j - 1].next() == s[j].start());
        assert(s[j - 1].ok() && s[j].ok());
    }
}

/// ordered by clock (a consequence of contiguity; blocks are not empty)
pub open spec fn list_sorted(s: Seq<Block>) -> bool {
    forall|i: int, j: int| 0 <= i <= j < s.len() ==> (#[trigger] s[i]).start() <= (#[trigger] s[j]).start() && s[i].next() <= s[j].next()
}

pub proof fn lemma_list_sorted(s: Seq<Block>)
    requires
        list_ok(s),
        list_contiguous(s),
    ensures
        list_sorted(s),
{
    assert forall|i: int, j: int| 0 <= i <= j < s.len() implies (#[trigger] s[i]).start() <= (#[trigger] s[j]).start() && s[i].next() <= s[j].next() by {
        lemma_sorted(s, i, j);
    }
}

/// the blocks are as many as clocks at most
pub proof fn lemma_len_bound(s: Seq<Block>)
    requires
        list_wf(s),
    ensures
        s.len() <= s.last().next() - s[0].start() <= u32::MAX,
{
    lemma_sorted(s, 0, s.len() - 1);
    assert(s[0].ok() && s.last().ok());
}

/// a clock lies in at most one block, and in exactly one if it is in the list
pub proof fn lemma_block_of(s: Seq<Block>, clock: int, i: int, j: int)
    requires
        list_ok(s),
        list_contiguous(s),
        0 <= i < s.len(),
        0 <= j < s.len(),
        s[i].start() <= clock < s[i].next(),
        s[j].start() <= clock < s[j].next(),
    ensures
        i == j,
{
    if i < j {
        lemma_sorted(s, i + 1, j);
        assert(s[i].next() == s[i + 1].start());
    } else if j < i {
        lemma_sorted(s, j + 1, i);
        assert(s[j].next() == s[j + 1].start());
    }
}

// ---------------------------------------------------------------------------------------------
// real code: ids and blocks
// ---------------------------------------------------------------------------------------------
impl ID {
    /*@extract yrs/src/block.rs | impl ID | fn new | label=ID.new
    @ret r
    @sig
        ensures r.client == client, r.clock == clock,
    @*/
}

impl BlockRange {
    /*@extract yrs/src/block.rs | impl BlockRange | fn new | label=BlockRange.new
    @ret r
    @sig
        ensures r.client == id.client, r.clock == id.clock, r.len == len,
    @*/

    /*@extract yrs/src/block.rs | impl BlockRange | fn id | label=BlockRange.id
    @ret r
    @sig
        ensures r.client == self.client, r.clock == self.clock,
    @*/
}

impl Item {
    /*@extract yrs/src/block.rs | impl Item | fn id | label=Item.id
    @ret r
    @sig
        ensures *r == self.id,
    @*/

    /*@extract yrs/src/block.rs | impl Item | fn len | label=Item.len
    @ret r
    @sig
        ensures r == self.len,
    @*/

    /*@extract yrs/src/block.rs | impl Item | fn clock_range | label=Item.clock_range
    @ret r
    @sig
        requires self.len >= 1, self.id.clock + self.len <= u32::MAX,
        ensures r.0 == self.id.clock, r.1 == self.id.clock + self.len - 1,
    @*/
}

impl Block {
    /*@extract yrs/src/block.rs | impl Block | fn clock_start | label=Block.clock_start
    @ret r
    @sig
        ensures r == self.start(),
    @*/

    /*@extract yrs/src/block.rs | impl Block | fn next_clock | label=Block.next_clock
    @ret r
    @sig
        requires self.next() <= u32::MAX,
        ensures r == self.next(),
    @*/

    /*@extract yrs/src/block.rs | impl Block | fn clock_range | label=Block.clock_range
    @ret r
    @sig
        requires self.ok(),
        ensures r.0 == self.start(), r.1 == self.next() - 1,
    @*/

    /*@extract yrs/src/block.rs | impl Block | fn id | label=Block.id
    @ret r
    @sig
        ensures r.clock == self.start(), r.client == self.spec_client(),
    @*/

    /*@extract yrs/src/block.rs | impl Block | fn len | label=Block.len
    @ret r
    @sig
        ensures r == self.blen(),
    @*/

    /*@extract yrs/src/block.rs | impl Block | fn range | label=Block.range
    @ret r
    @sig
        ensures r.client == self.spec_client(), r.clock == self.start(), r.len == self.blen(),
    @*/

    /*@extract yrs/src/block.rs | impl Block | fn is_skip | label=Block.is_skip
    @ret r
    @sig
        ensures r == self.skip(),
    @*/
}

impl<'a> BlockRef<'a> {
    /*@extract yrs/src/block.rs | impl<'a> BlockRef<'a> | fn new | label=BlockRef.new
    @ret r
    @sig
        ensures r.cell == cell,
    @*/

    /*@extract yrs/src/block.rs | impl<'a> BlockRef<'a> | fn as_ref | label=BlockRef.as_ref
    @ret r
    @sig
        ensures r == self.cell,
    @*/
}

// ---------------------------------------------------------------------------------------------
// real code: ClientBlockList, read side
// ---------------------------------------------------------------------------------------------
impl ClientBlockList {
    /*@extract yrs/src/block_store.rs | impl ClientBlockList | fn last | label=ClientBlockList.last
    @ret r
    @sig
        ensures
            r is Some <==> self.inner@.len() > 0,
            r is Some ==> *r.unwrap().cell == self.inner@.last(),
    @*/

    /*@extract yrs/src/block_store.rs | impl ClientBlockList | fn clock | label=ClientBlockList.clock
    @ret r
    @sig
        requires
            self.inner@.len() > 0 ==> self.inner@.last().next() <= u32::MAX,
        ensures
            r == list_clock(self.inner@),
    @*/

    /*@extract yrs/src/block_store.rs | impl ClientBlockList | fn get | label=ClientBlockList.get
    @ret r
    @sig
        ensures
            r is Some <==> index < self.inner@.len(),
            r is Some ==> *r.unwrap().cell == self.inner@[index as int],
    @*/

    /*@extract yrs/src/block_store.rs | impl ClientBlockList | fn len | label=ClientBlockList.len
    @ret r
    @sig
        ensures r == self.inner@.len(),
    @*/

    // TOTAL: for EVERY clock, and for the empty list as well (`checked_sub(1)?`).  The only thing asked of a non-empty list is
    // the representation invariant (without it `Block::clock_range` itself may overflow: `clock + len - 1`).
    /*@extract yrs/src/block_store.rs | impl ClientBlockList | fn find_index | label=ClientBlockList.find_index | rules=SUB(from=(start, end) = block.clock_range();;to=let vx_cr = block.clock_range(); start = vx_cr.0; end = vx_cr.1)
    @ret r
    @sig
        requires
            self.inner@.len() == 0 || list_wf(self.inner@),
        ensures
            r is Some <==> in_list(self.inner@, clock as int),
            r is Some ==> r.unwrap() < self.inner@.len()
                && self.inner@[r.unwrap() as int].start() <= clock < self.inner@[r.unwrap() as int].next(),
    @start
        let ghost s = self.inner@;
        proof {
            axiom_block_vec_len_bound(&self.inner);
            if s.len() > 0 { lemma_list_sorted(s); }
        }
    @before 1 `stmt:let mid`
        proof {
            // the interpolated first probe: clock / end is 0 below the last clock of the list and 1 at it (integer division)
            let e = s.last().next() - 1;
            if e > 0 {
                assert(clock < e ==> clock as int / e == 0) by (nonlinear_arith) requires e > 0, clock >= 0;
                assert(clock == e ==> clock as int / e == 1) by (nonlinear_arith) requires e > 0;
            }
            assert(forall|k: int| #[trigger] (0 * k) == 0) by (nonlinear_arith);
            assert(forall|k: int| #[trigger] (1 * k) == k) by (nonlinear_arith);
        }
    @loop 1
        invariant
            s == self.inner@,
            list_wf(s),
            list_sorted(s),
            s.len() <= usize::MAX / 2,
            0 <= left <= s.len(),
            right < s.len(),
            left <= right + 1,
            left <= right ==> left <= mid <= right,
            forall|i: int| 0 <= i < left ==> (#[trigger] s[i]).next() <= clock,
            forall|i: int| right < i < s.len() ==> clock < (#[trigger] s[i]).start(),
        decreases right + 1 - left,
    @afterloop 1
        proof {
            // no block contains the clock: the two halves meet, and contiguous blocks leave no room between them
            if 0 < left < s.len() {
                assert(s[left - 1].next() == s[left as int].start());
            }
        }
    @*/
}

impl ClientBlockList {
    /*@extract yrs/src/block_store.rs | impl ClientBlockList | fn get_block | label=ClientBlockList.get_block
    @ret r
    @sig
        requires
            self.inner@.len() == 0 || list_wf(self.inner@),
        ensures
            r is Some <==> in_list(self.inner@, clock as int),
            r is Some ==> r.unwrap().cell.start() <= clock < r.unwrap().cell.next()
                && exists|i: int| 0 <= i < self.inner@.len() && *r.unwrap().cell == #[trigger] self.inner@[i],
    @*/
}

// The FIRST PROBE of `find_index` once more, lifted on its own (R18 statement region; same source text): the interpolation
// `(clock / end) * right`.  It is reached with `clock <= end` (the branch `clock > end` returns None before it) and
// `clock != start <= end`, hence `end > 0` (the code's own comment); the result must be a valid index.
/*@extract yrs/src/block_store.rs | impl ClientBlockList | region find_index | stmt=stmt:let mid | tail=mid | label=find_index_first_probe
@header
    fn find_index_first_probe(clock: u32, end: u32, right: usize) -> (r: usize)
@sig
    requires
        clock <= end,
        end != 0,
    ensures
        r <= right,
@start
    proof {
        let e = end as int;
        assert(clock < e ==> clock as int / e == 0) by (nonlinear_arith) requires e > 0, clock >= 0;
        assert(clock == e ==> clock as int / e == 1) by (nonlinear_arith) requires e > 0;
        assert(forall|k: int| #[trigger] (0 * k) == 0) by (nonlinear_arith);
        assert(forall|k: int| #[trigger] (1 * k) == k) by (nonlinear_arith);
    }
@*/

// One STEP of `find_index` once more, lifted on its own (R18 statement region; same source text): the body of the search
// loop.  As a function of its own its effect is a CONTRACT clause: a probe either ends the search -- with the block that
// contains the clock, or with None because the clock lies below the first block -- or it narrows the search range
// [left, right] strictly (progress) without dropping a block that contains the clock.
// (The step returns (Some(answer of find_index) | None = go on, left, right, mid): `return Some(mid)` is spelled
// `return (Some(Some(mid)), left, right, mid)` and `mid.checked_sub(1)?` is spelled as the match it abbreviates.)
/*@extract yrs/src/block_store.rs | impl ClientBlockList | region find_index | stmt=stmt:assign block | upto=stmt:assign mid | tail=(None, left, right, mid) | label=find_index_step | rules=SUB(from=unsafe { &*self.inner[mid].get() };;to=&this.inner[mid]) SUB(from=(start, end) = block.clock_range();;to=let vx_cr = block.clock_range(); start = vx_cr.0; end = vx_cr.1) SUB(from=return Some(mid);;to=return (Some(Some(mid)), left, right, mid)) SUB(from=mid.checked_sub(1)?;;to=match mid.checked_sub(1) { Some(vx_m) => vx_m, None => return (Some(None), left, right, mid) })
@header
    fn find_index_step<'a>(this: &'a ClientBlockList, clock: u32, mut left: usize, mut right: usize, mut mid: usize, mut block: &'a Block, mut start: u32, mut end: u32) -> (r: (Option<Option<usize>>, usize, usize, usize))
@sig
    requires
        list_wf(this.inner@),
        this.inner@.len() <= usize::MAX / 2,
        left <= mid <= right < this.inner@.len(),
    ensures
        // an answer Some(i) is the block that contains the clock
        r.0 is Some && r.0.unwrap() is Some ==> r.0 == Some(Some(mid)) && this.inner@[mid as int].start() <= clock < this.inner@[mid as int].next(),
        // the answer None is given only for a clock below the first block
        r.0 is Some && r.0.unwrap() is None ==> clock < this.inner@[0].start(),
        // otherwise the range shrinks strictly, stays inside the old one, the next probe lies in it ...
        r.0 is None ==> left <= r.1 && r.2 <= right && r.1 <= r.2 + 1 && r.2 + 1 - r.1 < right + 1 - left && (r.1 <= r.2 ==> r.1 <= r.3 <= r.2),
        // ... and no block that contains the clock is dropped from it
        r.0 is None ==> forall|i: int| left <= i <= right && !(r.1 <= i <= r.2) ==> !((#[trigger] this.inner@[i]).start() <= clock < this.inner@[i].next()),
@start
    proof { lemma_list_sorted(this.inner@); }
@*/

// ---------------------------------------------------------------------------------------------
// IdSet (the `skips` of the block store): the real structs, the abstraction of unit ids_lift (copied: lift, has_pt,
// wf_map, same_except, in_block), and STUBS of the IdSet / IdRanges functions proved in units ids / ids_lift
// ---------------------------------------------------------------------------------------------
/*@extract yrs/src/ids.rs | - | struct IdMapInner @*/

/*@extract yrs/src/id_set.rs | - | type IdRange @*/

/*@extract yrs/src/id_set.rs | - | struct IdSet @*/

/// per-client entry sequences
pub open spec fn lift<T>(m: Map<ClientID, IdRanges<T>>) -> Map<ClientID, Seq<Ent<T>>> {
    m.map_values(|r: IdRanges<T>| r@)
}

/// the point (client, clock) is a member
pub open spec fn has_pt<T>(m: Map<ClientID, Seq<Ent<T>>>, client: ClientID, clock: int) -> bool {
    m.contains_key(client) && covers(m[client], clock)
}

/// every per-client entry is canonical
pub open spec fn canon_all<T: Merge>(m: Map<ClientID, Seq<Ent<T>>>) -> bool {
    forall|c: ClientID| #[trigger] m.contains_key(c) ==> canon(m[c])
}

/// "empty IdRanges entries are never stored in the map"
pub open spec fn no_empty_entry<T>(m: Map<ClientID, Seq<Ent<T>>>) -> bool {
    forall|c: ClientID| #[trigger] m.contains_key(c) ==> m[c].len() > 0
}

/// representation invariant of an IdSet / IdMapInner (unit ids_lift)
pub open spec fn wf_map<T: Merge>(m: Map<ClientID, Seq<Ent<T>>>) -> bool {
    canon_all(m) && no_empty_entry(m)
}

/// all clients except `k` are untouched
pub open spec fn same_except<T>(a: Map<ClientID, Seq<Ent<T>>>, b: Map<ClientID, Seq<Ent<T>>>, k: ClientID) -> bool {
    forall|c: ClientID| c != k ==> (#[trigger] a.contains_key(c) == b.contains_key(c)) && (a.contains_key(c) ==> a[c] == b[c])
}

/// the clock interval [clock, clock + len)
pub open spec fn in_block(clock: u32, len: u32, k: int) -> bool {
    clock <= k < clock + len
}

pub proof fn lemma_lift_basics<T>(m: Map<ClientID, IdRanges<T>>)
    ensures
        lift(m).dom() == m.dom(),
        forall|c: ClientID| #[trigger] m.contains_key(c) ==> lift(m)[c] == m[c]@,
{
}

impl<T: Merge> IdMapInner<T> {
    /// the stored map (client -> IdRanges)
    pub closed spec fn raw(&self) -> Map<ClientID, IdRanges<T>> {
        self.0@
    }

    pub closed spec fn view(&self) -> Map<ClientID, Seq<Ent<T>>> {
        lift(self.0@)
    }

    pub proof fn lemma_view(&self)
        ensures
            self@ == lift(self.raw()),
    {
    }

    /*@extract yrs/src/ids.rs | impl<T: Merge> IdMapInner<T> | fn clients | label=IdMapInner.clients
    @ret r
    @sig
        ensures r@ == self.raw(),
    @*/

    /*@extract yrs/src/ids.rs | impl<T: Merge> IdMapInner<T> | fn contains | label=IdMapInner.contains
    @ret r
    @sig
        requires wf_map(self@),
        ensures r == has_pt(self@, id.client, id.clock as int),
    @start
        proof { axiom_client_id_ord_model(); lemma_lift_basics(self.0@); }
    @*/
}

impl IdSet {
    pub open spec fn view(&self) -> Map<ClientID, Seq<Ent<()>>> {
        self.0@
    }

    /*@extract yrs/src/id_set.rs | impl IdSet | fn contains | label=IdSet.contains
    @ret r
    @sig
        requires wf_map(self@),
        ensures r == has_pt(self@, id.client, id.clock as int),
    @*/

    // proved in unit ids_lift
    #[verifier::external_body]
    /*@extract yrs/src/id_set.rs | impl IdSet | fn remove_range | label=IdSet.remove_range | rules=SUB(from=Entry::Occupied;;to=std::collections::btree_map::Entry::Occupied) SUB(from=self.0.entry;;to=self.0.0.entry)
    @sig
        requires
            wf_map(old(self)@),
            // domain restriction (BlockRange::clock_range)
            range.clock + range.len <= u32::MAX,
        ensures
            wf_map(final(self)@),
            same_except(final(self)@, old(self)@, range.client),
            forall|c: ClientID, k: int| #![trigger has_pt(final(self)@, c, k)] #![trigger has_pt(old(self)@, c, k)]
                has_pt(final(self)@, c, k) <==> has_pt(old(self)@, c, k) && !(c == range.client && in_block(range.clock, range.len, k)),
    @*/
}

impl BlockRange {
    /*@extract yrs/src/block.rs | impl BlockRange | fn clock_range | label=BlockRange.clock_range
    @ret r
    @sig
        requires self.clock + self.len <= u32::MAX,
        ensures r.start == self.clock, r.end == self.clock + self.len,
    @*/
}

impl<T: Merge> IdRanges<T> {
    // proved in unit ids
    #[verifier::external_body]
    /*@extract yrs/src/ids.rs | impl<T: Merge> IdRanges<T> | fn is_empty | label=IdRanges.is_empty
    @ret r
    @sig
        ensures r == (self@.len() == 0),
    @*/

    // proved in unit ids
    #[verifier::external_body]
    /*@extract yrs/src/ids.rs | impl<T: Merge> IdRanges<T> | fn contains_clock | label=IdRanges.contains_clock
    @ret r
    @sig
        requires canon(self@),
        ensures r == covers(self@, clock as int),
    @*/

    // proved in unit ids (callee of the stub IdSet::remove_range only)
    #[verifier::external_body]
    /*@extract yrs/src/ids.rs | impl<T: Merge> IdRanges<T> | fn remove | label=IdRanges.remove
    @sig
        requires canon(old(self)@),
        ensures
            canon(final(self)@),
            forall|c: int| covers(final(self)@, c) <==> covers(old(self)@, c) && !inr(range, c),
            forall|c: int| covers(final(self)@, c) ==> val_at(final(self)@, c) == val_at(old(self)@, c),
    @*/

    // proved in unit ids
    #[verifier::external_body]
    /*@extract yrs/src/ids.rs | impl<T: Merge> IdRanges<T> | fn clock_start | label=IdRanges.clock_start
    @ret r
    @sig
        requires canon(self@),
        ensures
            r.is_none() <==> self@.len() == 0,
            // the least covered clock
            r.is_some() ==> covers(self@, r.unwrap() as int) && forall|c: int| covers(self@, c) ==> r.unwrap() <= c,
    @*/
}

// ---------------------------------------------------------------------------------------------
// the block store
// ---------------------------------------------------------------------------------------------
/*@extract yrs/src/block_store.rs | - | struct BlockStore | rules=SUB(from=clients:;;to=pub clients:) @*/

/*@extract yrs/src/state_vector.rs | - | struct StateVector @*/

impl View for StateVector {
    type V = Map<ClientID, u32>;

    closed spec fn view(&self) -> Map<ClientID, u32> {
        self.0@
    }
}

pub open spec fn sv_get(m: Map<ClientID, u32>, c: ClientID) -> u32 {
    if m.contains_key(c) { m[c] } else { 0 }
}

/// the blocks of client `c` (empty if the client is unknown)
pub open spec fn blocks_of(m: Map<ClientID, ClientBlockList>, c: ClientID) -> Seq<Block> {
    if m.contains_key(c) { m[c].inner@ } else { Seq::empty() }
}

/// every block of the list belongs to client `c`
pub open spec fn list_client(s: Seq<Block>, c: ClientID) -> bool {
    forall|i: int| 0 <= i < s.len() ==> (#[trigger] s[i]).spec_client() == c
}

/// REPRESENTATION INVARIANT, lists: every stored list is list_wf and holds blocks of its own client
pub open spec fn lists_wf(m: Map<ClientID, ClientBlockList>) -> bool {
    forall|c: ClientID| #[trigger] m.contains_key(c) ==> list_wf(m[c].inner@) && list_client(m[c].inner@, c)
}

/// clock `k` lies in a Skip block of the list
pub open spec fn skip_covers(s: Seq<Block>, k: int) -> bool {
    exists|i: int| 0 <= i < s.len() && (#[trigger] s[i]).skip() && s[i].start() <= k < s[i].next()
}

/// clock `k` lies in a block of the list that is not a Skip (the id is INTEGRATED)
pub open spec fn carried(s: Seq<Block>, k: int) -> bool {
    exists|i: int| 0 <= i < s.len() && !(#[trigger] s[i]).skip() && s[i].start() <= k < s[i].next()
}

/// REPRESENTATION INVARIANT, skips: `skips` is a well-formed IdSet whose points are exactly the clocks of the Skip blocks
pub open spec fn skips_wf(m: Map<ClientID, ClientBlockList>, sk: Map<ClientID, Seq<Ent<()>>>) -> bool {
    &&& wf_map(sk)
    &&& forall|c: ClientID, k: int| #![trigger has_pt(sk, c, k)] has_pt(sk, c, k) <==> skip_covers(blocks_of(m, c), k)
}

impl BlockStore {
    pub open spec fn wf(&self) -> bool {
        lists_wf(self.clients@) && skips_wf(self.clients@, self.skips@)
    }

    /// `get_clock`
    pub open spec fn spec_clock(&self, c: ClientID) -> int {
        list_clock(blocks_of(self.clients@, c))
    }
}

impl StateVector {
    /*@extract yrs/src/state_vector.rs | impl StateVector | fn new | label=StateVector.new
    @ret r
    @sig
        ensures
            r@ == map@,
    @*/
}

impl BlockStore {
    /*@extract yrs/src/block_store.rs | impl BlockStore | fn is_empty | label=BlockStore.is_empty
    @ret r
    @sig
        ensures
            r == (self.clients@.len() == 0),
            r <==> forall|c: ClientID| !self.clients@.contains_key(c),
    @*/

    /*@extract yrs/src/block_store.rs | impl BlockStore | fn get_client | label=BlockStore.get_client
    @ret r
    @sig
        ensures
            r is Some <==> self.clients@.contains_key(*client_id),
            r is Some ==> *r.unwrap() == self.clients@[*client_id],
    @*/

    /*@extract yrs/src/block_store.rs | impl BlockStore | fn get_clock | label=BlockStore.get_clock
    @ret r
    @sig
        requires
            lists_wf(self.clients@),
        ensures
            r == self.spec_clock(*client),
    @*/

    /*@extract yrs/src/block_store.rs | impl BlockStore | fn contains | label=BlockStore.contains
    @ret r
    @sig
        requires
            lists_wf(self.clients@),
        ensures
            r <==> id.clock < self.spec_clock(id.client),
    @*/

    /*@extract yrs/src/block_store.rs | impl BlockStore | fn is_missing | label=BlockStore.is_missing
    @ret r
    @sig
        requires
            self.wf(),
        ensures
            r <==> id.clock >= self.spec_clock(id.client) || has_pt(self.skips@, id.client, id.clock as int),
    @*/
}

// ---------------------------------------------------------------------------------------------
// get_state_vector: the skip-aware state vector
// ---------------------------------------------------------------------------------------------
/// index of the first Skip at or after `i` (the length of the list if there is none)
pub open spec fn first_skip(s: Seq<Block>, i: int) -> int
    decreases s.len() - i,
{
    if i < 0 || i >= s.len() || s[i].skip() { i } else { first_skip(s, i + 1) }
}

/// the first clock NOT yet integrated: the start of the first Skip block, or the clock after the last block
pub open spec fn first_gap(s: Seq<Block>) -> int {
    let n = first_skip(s, 0);
    if n < s.len() { s[n].start() } else { list_clock(s) }
}

pub proof fn lemma_first_skip(s: Seq<Block>, i: int)
    requires
        0 <= i <= s.len(),
    ensures
        i <= first_skip(s, i) <= s.len(),
        first_skip(s, i) < s.len() ==> s[first_skip(s, i)].skip(),
        forall|j: int| i <= j < first_skip(s, i) ==> !(#[trigger] s[j]).skip(),
    decreases s.len() - i,
{
    if i < s.len() && !s[i].skip() {
        lemma_first_skip(s, i + 1);
    }
}

/// what `first_gap` means for a well-formed list: every clock of the list below it is integrated (lies in a non-skip
/// block), the gap itself is not, and nothing below the first block or from `list_clock` on is
pub proof fn lemma_first_gap_meaning(s: Seq<Block>)
    requires
        list_wf(s),
    ensures
        s[0].start() <= first_gap(s) <= list_clock(s) <= u32::MAX,
        forall|k: int| s[0].start() <= k < first_gap(s) ==> #[trigger] carried(s, k),
        !carried(s, first_gap(s)),
        first_gap(s) < list_clock(s) ==> skip_covers(s, first_gap(s)),
        (forall|i: int| 0 <= i < s.len() ==> !(#[trigger] s[i]).skip()) ==> first_gap(s) == list_clock(s),
{
    lemma_first_skip(s, 0);
    lemma_list_sorted(s);
    let n = first_skip(s, 0);
    assert(s[0].ok() && s.last().ok());
    if n < s.len() {
        assert(s[n].ok());
        assert(s[n].skip() && s[n].start() <= s[n].start() < s[n].next());
    }
    assert forall|k: int| s[0].start() <= k < first_gap(s) implies #[trigger] carried(s, k) by {
        lemma_covered(s, if n < s.len() { n } else { n - 1 }, k);
        let i = choose|i: int| 0 <= i < s.len() && (#[trigger] s[i]).start() <= k < s[i].next();
        if n < s.len() && i >= n {
            assert(s[n].start() <= s[i].start());
        }
        assert(!s[i].skip());
    }
    if carried(s, first_gap(s)) {
        let i = choose|i: int| 0 <= i < s.len() && !(#[trigger] s[i]).skip() && s[i].start() <= first_gap(s) < s[i].next();
        if n < s.len() {
            lemma_block_of(s, first_gap(s), i, n);
        } else {
            assert(s[i].next() <= s.last().next());
        }
    }
    if forall|i: int| 0 <= i < s.len() ==> !(#[trigger] s[i]).skip() {
        if n < s.len() {
            assert(!s[n].skip());
        }
    }
}

/// in a contiguous list every clock between the start of the first block and the end of block `n` lies in a block
pub proof fn lemma_covered(s: Seq<Block>, n: int, k: int)
    requires
        list_ok(s),
        list_contiguous(s),
        0 <= n < s.len(),
        s[0].start() <= k < s[n].next(),
    ensures
        exists|i: int| 0 <= i <= n && (#[trigger] s[i]).start() <= k < s[i].next(),
    decreases n,
{
    if k >= s[n].start() {
        assert(s[n].start() <= k < s[n].next());
    } else {
        assert(n > 0);
        assert(s[n - 1].next() == s[n].start());
        lemma_covered(s, n - 1, k);
        let i = choose|i: int| 0 <= i <= n - 1 && (#[trigger] s[i]).start() <= k < s[i].next();
        assert(0 <= i <= n && s[i].start() <= k < s[i].next());
    }
}

/// the least point of a client's skip ranges is the start of its first Skip block
pub proof fn lemma_skip_start(s: Seq<Block>, rg: Seq<Ent<()>>, m: int)
    requires
        list_wf(s),
        forall|k: int| #![trigger covers(rg, k)] covers(rg, k) <==> skip_covers(s, k),
        covers(rg, m),
        forall|k: int| covers(rg, k) ==> m <= k,
    ensures
        m == first_gap(s),
{
    lemma_first_skip(s, 0);
    lemma_list_sorted(s);
    let n = first_skip(s, 0);
    assert(skip_covers(s, m));
    let j = choose|j: int| 0 <= j < s.len() && (#[trigger] s[j]).skip() && s[j].start() <= m < s[j].next();
    if n >= s.len() {
        assert(!s[j].skip());
    }
    assert(j >= n) by {
        if j < n { assert(!s[j].skip()); }
    }
    assert(s[n].start() <= s[j].start());
    assert(s[n].ok());
    assert(s[n].skip() && s[n].start() <= s[n].start() < s[n].next());
    assert(skip_covers(s, s[n].start()));
    assert(covers(rg, s[n].start()));
}

/// a client without skip points has no Skip block
pub proof fn lemma_no_skip(s: Seq<Block>)
    requires
        list_wf(s),
        forall|k: int| !skip_covers(s, k),
    ensures
        first_gap(s) == list_clock(s),
{
    lemma_first_skip(s, 0);
    let n = first_skip(s, 0);
    if n < s.len() {
        assert(s[n].ok());
        assert(s[n].skip() && s[n].start() <= s[n].start() < s[n].next());
        assert(skip_covers(s, s[n].start()));
    }
}

/// the items a BTreeMap iterator yields: every stored pair exactly once (vstd's `iter()` contract, restated as in ids_lift)
pub open spec fn iter_of<V>(s: Seq<(&ClientID, &V)>, m: Map<ClientID, V>) -> bool {
    &&& s.no_duplicates()
    &&& forall|i: int| 0 <= i < s.len() ==> m.contains_key(*(#[trigger] s[i]).0) && m[*s[i].0] == *s[i].1
    &&& forall|k: ClientID| #[trigger] m.contains_key(k) ==> exists|i: int| 0 <= i < s.len() && *(#[trigger] s[i]).0 == k
}

/// keys among the first `n` items
pub open spec fn visited<V>(s: Seq<(&ClientID, &V)>, n: int, c: ClientID) -> bool {
    exists|i: int| 0 <= i < n && *(#[trigger] s[i]).0 == c
}

pub proof fn lemma_visited_step<V>(s: Seq<(&ClientID, &V)>, n: int, c: ClientID)
    requires 0 <= n < s.len(),
    ensures visited(s, n + 1, c) <==> visited(s, n, c) || *s[n].0 == c,
{
    if visited(s, n + 1, c) {
        let i = choose|i: int| 0 <= i < n + 1 && *(#[trigger] s[i]).0 == c;
        if i < n { assert(visited(s, n, c)); }
    }
    if visited(s, n, c) {
        let i = choose|i: int| 0 <= i < n && *(#[trigger] s[i]).0 == c;
        assert(0 <= i < n + 1 && *s[i].0 == c);
    }
    if *s[n].0 == c { assert(0 <= n < n + 1 && *s[n].0 == c); }
}

/// the state-vector entry of client `c` once its skip ranges have been looked at (`seen`) or not
pub open spec fn sv_entry(cl: Map<ClientID, ClientBlockList>, sk: Map<ClientID, Seq<Ent<()>>>, c: ClientID, seen: bool) -> int {
    if seen && sk.contains_key(c) { first_gap(cl[c].inner@) } else { list_clock(cl[c].inner@) }
}

// One STEP of `get_state_vector` once more, lifted on its own (R18 statement region; same source text): what is done for one
// client of `skips`: its entry is lowered to the least skip point.
/*@extract yrs/src/block_store.rs | impl BlockStore | region get_state_vector | stmt=stmt:if | label=state_vector_skip_entry | rules=INLINE(file=yrs/src/id_set.rs;;container=impl<'a> Ranges<'a>;;fn=clock_start;;body=self.0.clock_start();;call=ranges.clock_start();;to=ranges.clock_start())
@header
    fn state_vector_skip_entry(map: &mut HashMap<ClientID, u32>, client: &ClientID, ranges: &IdRanges<()>)
@sig
    requires
        canon(ranges@),
    ensures
        // a client with skip points gets the least of them; nothing else changes
        ranges@.len() > 0 ==> final(map)@.contains_key(*client) && final(map)@ == old(map)@.insert(*client, final(map)@[*client])
            && covers(ranges@, final(map)@[*client] as int) && forall|k: int| covers(ranges@, k) ==> final(map)@[*client] <= k,
        ranges@.len() == 0 ==> final(map)@ == old(map)@,
@*/

impl BlockStore {
    // `.iter().map(closure).collect()` is the trusted stand-in `vx_collect_clocks` (three SUB rules; the closure text is part
    // of a `from=`, so an edit of it makes the rule miss and the run UNDECIDED); `self.skips.iter()` is inlined to the
    // BTreeMap iterator it wraps (accessor body checked), `Ranges::clock_start` forwards to `IdRanges::clock_start` (checked).
    /*@extract yrs/src/block_store.rs | impl BlockStore | fn get_state_vector | label=BlockStore.get_state_vector | skip=R6 | rules=INLINE(file=yrs/src/id_set.rs;;container=impl IdSet;;fn=iter;;body=Iter(self.0.clients().iter());;call=self.skips.iter();;to=BTreeMap::iter(self.skips.0.clients())) INLINE(file=yrs/src/id_set.rs;;container=impl<'a> Ranges<'a>;;fn=clock_start;;body=self.0.clock_start();;call=ranges.clock_start();;to=ranges.clock_start()) SUB(from=.iter();;to=) SUB(from=.collect();;to=.vx_collect_clocks())
    @ret r
    @sig
        requires
            self.wf(),
        ensures
            // a client is listed iff the store knows it ...
            r@.dom() == self.clients@.dom(),
            // ... with the first clock that is not integrated yet
            forall|c: ClientID| #[trigger] r@.contains_key(c) ==> r@[c] == first_gap(self.clients@[c].inner@),
            forall|c: ClientID| sv_get(r@, c) == first_gap(blocks_of(self.clients@, c)),
    @after 1 `stmt:let map`
        let ghost cl = self.clients@;
        let ghost sk = self.skips@;
        let ghost raw = self.skips.0.raw();
        let ghost mut vx_seen = Set::<ClientID>::empty();
        proof {
            axiom_client_id_ord_model();
            self.skips.0.lemma_view();
            lemma_lift_basics(raw);
        }
    @loop 1 iter=it
        invariant
            cl == self.clients@,
            sk == self.skips@,
            raw == self.skips.0.raw(),
            sk == lift(raw),
            self.wf(),
            iter_of(it.seq(), raw),
            map@.dom() == cl.dom(),
            forall|c: ClientID| vx_seen.contains(c) <==> visited(it.seq(), it.index@ as int, c),
            forall|c: ClientID| #[trigger] map@.contains_key(c) ==> map@[c] == sv_entry(cl, sk, c, vx_seen.contains(c)),
    @loopstart 1
        let ghost n = it.index@ as int;
        let ghost map0 = map@;
        proof {
            lemma_lift_basics(raw);
            assert(it.seq()[n] == (client, ranges));
            assert(raw.contains_key(*client) && raw[*client] == *ranges);
            assert(sk.contains_key(*client) && sk[*client] == ranges@);
            assert(canon(ranges@) && ranges@.len() > 0);
        }
    @loopend 1
        proof {
            // the client has skip points, hence Skip blocks, hence a list; the least skip point is the first gap
            let m = map@[*client] as int;
            assert(has_pt(sk, *client, m));
            assert(skip_covers(blocks_of(cl, *client), m));
            assert(cl.contains_key(*client));
            let s = cl[*client].inner@;
            assert forall|k: int| #![trigger covers(ranges@, k)] covers(ranges@, k) <==> skip_covers(s, k) by {
                assert(has_pt(sk, *client, k) <==> skip_covers(blocks_of(cl, *client), k));
            }
            lemma_skip_start(s, ranges@, m);
            let seen2 = vx_seen.insert(*client);
            assert forall|c: ClientID| seen2.contains(c) <==> visited(it.seq(), n + 1, c) by {
                lemma_visited_step(it.seq(), n, c);
            }
            assert forall|c: ClientID| #[trigger] map@.contains_key(c) implies map@[c] == sv_entry(cl, sk, c, seen2.contains(c)) by {
                if c != *client {
                    assert(map0.contains_key(c) && map@[c] == map0[c]);
                }
            }
            assert(map@.dom() =~= cl.dom());
            vx_seen = seen2;
        }
    @afterloop 1
        proof {
            // every client that has skip ranges has been looked at
            assert(forall|c: ClientID| raw.contains_key(c) ==> vx_seen.contains(c));
            assert forall|c: ClientID| #[trigger] map@.contains_key(c) implies map@[c] == first_gap(cl[c].inner@) by {
                let s = cl[c].inner@;
                if sk.contains_key(c) {
                    assert(raw.contains_key(c));
                } else {
                    assert forall|k: int| !skip_covers(s, k) by {
                        assert(has_pt(sk, c, k) <==> skip_covers(blocks_of(cl, c), k));
                    }
                    lemma_no_skip(s);
                }
            }
            assert forall|c: ClientID| sv_get(map@, c) == first_gap(blocks_of(cl, c)) by {
                if !cl.contains_key(c) {
                    assert(first_skip(Seq::<Block>::empty(), 0) == 0);
                }
            }
        }
    @*/
}

impl BlockStore {
    // the single-client form of get_state_vector: exact, == first_gap (0 for an unknown client)
    /*@extract yrs/src/block_store.rs | impl BlockStore | fn get_state | label=BlockStore.get_state
    @ret r
    @sig
        requires
            self.wf(),
        ensures
            r == first_gap(blocks_of(self.clients@, *client)),
    @closure 1 `|ranges: &IdRanges<()>| -> (vx_r: Option<u32>)`
        requires canon(ranges@),
        ensures
            vx_r.is_none() <==> ranges@.len() == 0,
            vx_r.is_some() ==> covers(ranges@, vx_r.unwrap() as int) && forall|c: int| covers(ranges@, c) ==> vx_r.unwrap() <= c,
    @start
        let ghost cl = self.clients@;
        let ghost sk = self.skips@;
        let ghost s = blocks_of(cl, *client);
        proof {
            assert forall|k: int| #![trigger skip_covers(s, k)] has_pt(sk, *client, k) <==> skip_covers(s, k) by {}
            if sk.contains_key(*client) {
                // the client has skip points, hence Skip blocks, hence a list; the least skip point is the first gap
                let rg = sk[*client];
                assert(canon(rg) && rg.len() > 0);
                assert(inr(rg[0].0, rg[0].0.start as int));
                assert(has_pt(sk, *client, rg[0].0.start as int));
                assert(cl.contains_key(*client));
                assert forall|m: int| covers(rg, m) && (forall|k: int| covers(rg, k) ==> m <= k) implies m == first_gap(s) by {
                    assert forall|k: int| #![trigger covers(rg, k)] covers(rg, k) <==> skip_covers(s, k) by {
                        assert(has_pt(sk, *client, k) <==> skip_covers(s, k));
                    }
                    lemma_skip_start(s, rg, m);
                }
            } else {
                if cl.contains_key(*client) {
                    assert forall|k: int| !skip_covers(s, k) by {
                        assert(has_pt(sk, *client, k) <==> skip_covers(s, k));
                    }
                    lemma_no_skip(s);
                } else {
                    assert(first_skip(Seq::<Block>::empty(), 0) == 0);
                }
            }
        }
    @*/
}

// ---------------------------------------------------------------------------------------------
// push
// ---------------------------------------------------------------------------------------------
/// `#[derive(Default)]` of ClientBlockList, written out
impl Default for ClientBlockList {
    fn default() -> (r: Self)
        ensures r.inner@ == Seq::<Block>::empty(),
    {
        ClientBlockList { inner: Vec::new() }
    }
}

impl ClientBlockList {
    /*@extract yrs/src/block_store.rs | impl ClientBlockList | fn insert | label=ClientBlockList.insert
    @sig
        requires
            index <= old(self).inner@.len(),
        ensures
            final(self).inner@ == old(self).inner@.insert(index as int, cell),
    @*/

    /*@extract yrs/src/block_store.rs | impl ClientBlockList | fn push | label=ClientBlockList.push
    @sig
        ensures
            final(self).inner@ == old(self).inner@.push(cell),
    @*/
}

pub open spec fn mk_skip(c: ClientID, start: int, len: int) -> Block {
    Block::Skip(BlockRange { client: c, clock: start as u32, len: len as u32 })
}

/// the range of `b` lies inside block `i` of the list, which is a Skip
pub open spec fn fits_at(s: Seq<Block>, i: int, b: Block) -> bool {
    0 <= i < s.len() && s[i].skip() && s[i].start() <= b.start() && b.next() <= s[i].next()
}

pub open spec fn fits_in_skip(s: Seq<Block>, b: Block) -> bool {
    exists|i: int| #[trigger] fits_at(s, i, b)
}

/// `b` continues the list (or starts it)
pub open spec fn appends(s: Seq<Block>, b: Block) -> bool {
    s.len() == 0 || s.last().next() == b.start()
}

/// Skip block `i` is split into (optional left Skip, `b`, optional right Skip)
pub open spec fn split_skip(s: Seq<Block>, i: int, b: Block) -> Seq<Block> {
    let l = if b.start() > s[i].start() { seq![mk_skip(s[i].spec_client(), s[i].start(), b.start() - s[i].start())] } else { Seq::<Block>::empty() };
    let r = if s[i].next() > b.next() { seq![mk_skip(b.spec_client(), b.next(), s[i].next() - b.next())] } else { Seq::<Block>::empty() };
    s.subrange(0, i) + l + seq![b] + r + s.subrange(i + 1, s.len() as int)
}

/// index of the block that contains `clock`
pub open spec fn block_idx(s: Seq<Block>, clock: int) -> int {
    choose|i: int| 0 <= i < s.len() && (#[trigger] s[i]).start() <= clock < s[i].next()
}

/// what `BlockStore::push` does to the list of the block's client
pub open spec fn push_list(s: Seq<Block>, b: Block) -> Seq<Block> {
    if appends(s, b) { s.push(b) } else { split_skip(s, block_idx(s, b.start()), b) }
}

/// PRECONDITION of push, derived from the call sites (see the header comment): the block is not empty, and it either
/// continues its client's list, or -- a non-Skip block only -- its range lies inside ONE Skip block of the list
pub open spec fn push_pre(s: Seq<Block>, b: Block) -> bool {
    b.ok() && push_pos(s, b)
}

pub open spec fn push_pos(s: Seq<Block>, b: Block) -> bool {
    appends(s, b) || (!b.skip() && fits_in_skip(s, b))
}

/// the skip points before `push(b)`: those of the Skip blocks, plus -- `integrate_skip` inserts the range into `skips` BEFORE it
/// pushes the Skip block -- the range of `b` if `b` is a Skip
pub open spec fn skips_pre(m: Map<ClientID, ClientBlockList>, sk: Map<ClientID, Seq<Ent<()>>>, b: Block) -> bool {
    &&& wf_map(sk)
    &&& forall|c: ClientID, k: int| #![trigger has_pt(sk, c, k)]
            has_pt(sk, c, k) <==> skip_covers(blocks_of(m, c), k) || (b.skip() && c == b.spec_client() && b.start() <= k < b.next())
}

pub proof fn lemma_append(s: Seq<Block>, b: Block, c: ClientID)
    requires
        s.len() > 0 ==> list_wf(s),
        list_client(s, c),
        b.ok(),
        b.spec_client() == c,
        appends(s, b),
    ensures
        list_wf(s.push(b)),
        list_client(s.push(b), c),
        list_clock(s.push(b)) == b.next(),
        forall|k: int| #![trigger skip_covers(s.push(b), k)] skip_covers(s.push(b), k) <==> skip_covers(s, k) || (b.skip() && b.start() <= k < b.next()),
        forall|k: int| #![trigger carried(s.push(b), k)] carried(s.push(b), k) <==> carried(s, k) || (!b.skip() && b.start() <= k < b.next()),
{
    let t = s.push(b);
    let n = s.len() as int;
    assert(t[n] == b);
    assert forall|i: int| 0 <= i < t.len() implies (#[trigger] t[i]).ok() && t[i].spec_client() == c by {
        if i < n { assert(t[i] == s[i]); }
    }
    assert forall|i: int, j: int| 0 <= i && j == i + 1 && j < t.len() implies (#[trigger] t[i]).next() == (#[trigger] t[j]).start() by {
        assert(t[i] == s[i]);
        if j < n { assert(t[j] == s[j]); }
    }
    assert forall|k: int| #![trigger skip_covers(t, k)] skip_covers(t, k) <==> skip_covers(s, k) || (b.skip() && b.start() <= k < b.next()) by {
        if skip_covers(t, k) {
            let i = choose|i: int| 0 <= i < t.len() && (#[trigger] t[i]).skip() && t[i].start() <= k < t[i].next();
            if i < n { assert(t[i] == s[i]); assert(s[i].skip() && s[i].start() <= k < s[i].next()); }
        }
        if skip_covers(s, k) {
            let i = choose|i: int| 0 <= i < s.len() && (#[trigger] s[i]).skip() && s[i].start() <= k < s[i].next();
            assert(t[i] == s[i]);
            assert(t[i].skip() && t[i].start() <= k < t[i].next());
        }
        if b.skip() && b.start() <= k < b.next() {
            assert(t[n].skip() && t[n].start() <= k < t[n].next());
        }
    }
    assert forall|k: int| #![trigger carried(t, k)] carried(t, k) <==> carried(s, k) || (!b.skip() && b.start() <= k < b.next()) by {
        if carried(t, k) {
            let i = choose|i: int| 0 <= i < t.len() && !(#[trigger] t[i]).skip() && t[i].start() <= k < t[i].next();
            if i < n { assert(t[i] == s[i]); assert(!s[i].skip() && s[i].start() <= k < s[i].next()); }
        }
        if carried(s, k) {
            let i = choose|i: int| 0 <= i < s.len() && !(#[trigger] s[i]).skip() && s[i].start() <= k < s[i].next();
            assert(t[i] == s[i]);
            assert(!t[i].skip() && t[i].start() <= k < t[i].next());
        }
        if !b.skip() && b.start() <= k < b.next() {
            assert(!t[n].skip() && t[n].start() <= k < t[n].next());
        }
    }
}

/// the pieces of `split_skip`, by position: `i` blocks of the old list, the optional left Skip, `b`, the optional right
/// Skip, then the rest of the old list
pub open spec fn is_split(s: Seq<Block>, i: int, b: Block, t: Seq<Block>, dl: int, dr: int) -> bool {
    &&& dl == (if b.start() > s[i].start() { 1int } else { 0int })
    &&& dr == (if s[i].next() > b.next() { 1int } else { 0int })
    &&& t.len() == s.len() + dl + dr
    &&& forall|j: int| 0 <= j < i ==> #[trigger] t[j] == s[j]
    &&& dl == 1 ==> t[i] == mk_skip(s[i].spec_client(), s[i].start(), b.start() - s[i].start())
    &&& t[i + dl] == b
    &&& dr == 1 ==> t[i + dl + 1] == mk_skip(b.spec_client(), b.next(), s[i].next() - b.next())
    &&& forall|j: int| i + dl + dr < j < t.len() ==> #[trigger] t[j] == s[j - dl - dr]
}

pub proof fn lemma_split_shape(s: Seq<Block>, i: int, b: Block)
    requires
        0 <= i < s.len(),
    ensures
        is_split(s, i, b, split_skip(s, i, b), if b.start() > s[i].start() { 1int } else { 0int }, if s[i].next() > b.next() { 1int } else { 0int }),
{
}

pub proof fn lemma_split_wf(s: Seq<Block>, i: int, b: Block, c: ClientID, t: Seq<Block>, dl: int, dr: int)
    requires
        list_wf(s),
        list_client(s, c),
        fits_at(s, i, b),
        b.ok(),
        b.spec_client() == c,
        is_split(s, i, b, t, dl, dr),
    ensures
        list_wf(t),
        list_client(t, c),
        list_clock(t) == list_clock(s),
        t[0].start() == s[0].start(),
{
    let d = dl + dr;
    assert(s[i].ok());
    assert(s[i].spec_client() == c);
    assert forall|j: int| 0 <= j < t.len() implies (#[trigger] t[j]).ok() && t[j].spec_client() == c by {
        if j < i { assert(t[j] == s[j]); }
        else if j > i + d { assert(t[j] == s[j - d]); assert(s[j - d].ok()); }
    }
    assert forall|x: int, y: int| 0 <= x && y == x + 1 && y < t.len() implies (#[trigger] t[x]).next() == (#[trigger] t[y]).start() by {
        if y < i {
            assert(t[x] == s[x] && t[y] == s[y]);
        } else if y == i {
            assert(t[x] == s[x]);
            assert(s[x].next() == s[i].start());
        } else if x > i + d {
            assert(t[x] == s[x - d] && t[y] == s[y - d]);
            assert(s[x - d].next() == s[y - d].start());
        } else if x == i + d {
            assert(t[y] == s[y - d]);
            assert(s[i].next() == s[i + 1].start());
        }
    }
    if i + d < t.len() - 1 {
        assert(t[t.len() - 1] == s[t.len() - 1 - d]);
    }
    if i > 0 { assert(t[0] == s[0]); }
}

/// clock `k` lies in a block of kind `skip` (skip_covers / carried, as one predicate)
pub open spec fn kind_covers(s: Seq<Block>, skip: bool, k: int) -> bool {
    exists|i: int| 0 <= i < s.len() && (#[trigger] s[i]).skip() == skip && s[i].start() <= k < s[i].next()
}

pub proof fn lemma_kind_covers(s: Seq<Block>, k: int)
    ensures
        kind_covers(s, true, k) == skip_covers(s, k),
        kind_covers(s, false, k) == carried(s, k),
{
    if kind_covers(s, true, k) {
        let i = choose|i: int| 0 <= i < s.len() && (#[trigger] s[i]).skip() == true && s[i].start() <= k < s[i].next();
        assert(s[i].skip() && s[i].start() <= k < s[i].next());
    }
    if skip_covers(s, k) {
        let i = choose|i: int| 0 <= i < s.len() && (#[trigger] s[i]).skip() && s[i].start() <= k < s[i].next();
        assert(s[i].skip() == true && s[i].start() <= k < s[i].next());
    }
    if kind_covers(s, false, k) {
        let i = choose|i: int| 0 <= i < s.len() && (#[trigger] s[i]).skip() == false && s[i].start() <= k < s[i].next();
        assert(!s[i].skip() && s[i].start() <= k < s[i].next());
    }
    if carried(s, k) {
        let i = choose|i: int| 0 <= i < s.len() && !(#[trigger] s[i]).skip() && s[i].start() <= k < s[i].next();
        assert(s[i].skip() == false && s[i].start() <= k < s[i].next());
    }
}

/// outside the split Skip block nothing changes: a clock outside of old block `i` is covered by the same kind of block
pub proof fn lemma_split_outside(s: Seq<Block>, i: int, b: Block, t: Seq<Block>, dl: int, dr: int, skip: bool, k: int)
    requires
        list_wf(s),
        fits_at(s, i, b),
        b.ok(),
        is_split(s, i, b, t, dl, dr),
        !(s[i].start() <= k < s[i].next()),
    ensures
        kind_covers(t, skip, k) <==> kind_covers(s, skip, k),
{
    let d = dl + dr;
    assert(s[i].ok());
    if kind_covers(t, skip, k) {
        let j = choose|j: int| 0 <= j < t.len() && (#[trigger] t[j]).skip() == skip && t[j].start() <= k < t[j].next();
        if j < i {
            assert(t[j] == s[j]);
            assert(s[j].skip() == skip && s[j].start() <= k < s[j].next());
        } else if j > i + d {
            assert(t[j] == s[j - d]);
            assert(s[j - d].skip() == skip && s[j - d].start() <= k < s[j - d].next());
        }
    }
    if kind_covers(s, skip, k) {
        let j = choose|j: int| 0 <= j < s.len() && (#[trigger] s[j]).skip() == skip && s[j].start() <= k < s[j].next();
        if j < i {
            assert(t[j] == s[j]);
            assert(t[j].skip() == skip && t[j].start() <= k < t[j].next());
        } else if j > i {
            assert(t[j + d] == s[j]);
            assert(t[j + d].skip() == skip && t[j + d].start() <= k < t[j + d].next());
        }
    }
}

/// inside the split Skip block: the clocks of `b` are carried, the others stay Skip clocks
pub proof fn lemma_split_inside(s: Seq<Block>, i: int, b: Block, t: Seq<Block>, dl: int, dr: int, k: int)
    requires
        list_wf(s),
        fits_at(s, i, b),
        b.ok(),
        !b.skip(),
        is_split(s, i, b, t, dl, dr),
        list_wf(t),
        s[i].start() <= k < s[i].next(),
    ensures
        kind_covers(s, true, k),
        !kind_covers(s, false, k),
        kind_covers(t, true, k) <==> !(b.start() <= k < b.next()),
        kind_covers(t, false, k) <==> (b.start() <= k < b.next()),
{
    assert(s[i].ok());
    assert(s[i].skip() == true && s[i].start() <= k < s[i].next());
    if kind_covers(s, false, k) {
        let j = choose|j: int| 0 <= j < s.len() && (#[trigger] s[j]).skip() == false && s[j].start() <= k < s[j].next();
        lemma_block_of(s, k, i, j);
    }
    // the piece of the new list that contains k
    let p = if k < b.start() { i } else if k < b.next() { i + dl } else { i + dl + 1 };
    assert(t[p].start() <= k < t[p].next());
    assert(t[p].skip() == !(b.start() <= k < b.next()));
    if kind_covers(t, true, k) {
        let j = choose|j: int| 0 <= j < t.len() && (#[trigger] t[j]).skip() == true && t[j].start() <= k < t[j].next();
        lemma_block_of(t, k, p, j);
    }
    if kind_covers(t, false, k) {
        let j = choose|j: int| 0 <= j < t.len() && (#[trigger] t[j]).skip() == false && t[j].start() <= k < t[j].next();
        lemma_block_of(t, k, p, j);
    }
}

/// Skip block `i` is split around `b`: the list stays well-formed, the clocks of `b` become carried clocks, every other clock
/// keeps its status
pub proof fn lemma_split(s: Seq<Block>, i: int, b: Block, c: ClientID, t: Seq<Block>, dl: int, dr: int)
    requires
        list_wf(s),
        list_client(s, c),
        fits_at(s, i, b),
        b.ok(),
        !b.skip(),
        b.spec_client() == c,
        is_split(s, i, b, t, dl, dr),
    ensures
        list_wf(t),
        list_client(t, c),
        list_clock(t) == list_clock(s),
        t[0].start() == s[0].start(),
        forall|k: int| #![trigger skip_covers(t, k)] skip_covers(t, k) <==> skip_covers(s, k) && !(b.start() <= k < b.next()),
        forall|k: int| #![trigger carried(t, k)] carried(t, k) <==> carried(s, k) || (b.start() <= k < b.next()),
{
    lemma_split_wf(s, i, b, c, t, dl, dr);
    assert forall|k: int| #![trigger skip_covers(t, k)] skip_covers(t, k) <==> skip_covers(s, k) && !(b.start() <= k < b.next()) by {
        lemma_kind_covers(s, k);
        lemma_kind_covers(t, k);
        if s[i].start() <= k < s[i].next() {
            lemma_split_inside(s, i, b, t, dl, dr, k);
        } else {
            lemma_split_outside(s, i, b, t, dl, dr, true, k);
        }
    }
    assert forall|k: int| #![trigger carried(t, k)] carried(t, k) <==> carried(s, k) || (b.start() <= k < b.next()) by {
        lemma_kind_covers(s, k);
        lemma_kind_covers(t, k);
        if s[i].start() <= k < s[i].next() {
            lemma_split_inside(s, i, b, t, dl, dr, k);
        } else {
            lemma_split_outside(s, i, b, t, dl, dr, false, k);
        }
    }
}

/// the Skip block that `find_index(b.start)` finds is the one `b` fits in
pub proof fn lemma_fits_idx(s: Seq<Block>, b: Block, idx: int)
    requires
        list_wf(s),
        b.ok(),
        fits_in_skip(s, b),
        0 <= idx < s.len(),
        s[idx].start() <= b.start() < s[idx].next(),
    ensures
        fits_at(s, idx, b),
        idx == block_idx(s, b.start()),
{
    let i = choose|i: int| #[trigger] fits_at(s, i, b);
    lemma_block_of(s, b.start(), i, idx);
    let j = block_idx(s, b.start());
    lemma_block_of(s, b.start(), j, idx);
}

pub proof fn lemma_fits_in_list(s: Seq<Block>, b: Block)
    requires
        list_wf(s),
        b.ok(),
        fits_in_skip(s, b),
    ensures
        in_list(s, b.start()),
        !appends(s, b),
{
    let i = choose|i: int| #[trigger] fits_at(s, i, b);
    lemma_list_sorted(s);
    assert(s[0].start() <= s[i].start() && s[i].next() <= s.last().next());
}

/// store level, the block was appended to (or started) its client's list
pub proof fn lemma_push_store_append(cl0: Map<ClientID, ClientBlockList>, sk0: Map<ClientID, Seq<Ent<()>>>, cl1: Map<ClientID, ClientBlockList>, b: Block)
    requires
        lists_wf(cl0),
        skips_pre(cl0, sk0, b),
        b.ok(),
        appends(blocks_of(cl0, b.spec_client()), b),
        cl1.contains_key(b.spec_client()),
        cl1 == cl0.insert(b.spec_client(), cl1[b.spec_client()]),
        cl1[b.spec_client()].inner@ == blocks_of(cl0, b.spec_client()).push(b),
    ensures
        lists_wf(cl1),
        skips_wf(cl1, sk0),
        BlockStore::spec_push_skips(sk0, sk0, b),
{
    let c = b.spec_client();
    let s0 = blocks_of(cl0, c);
    let s1 = cl1[c].inner@;
    if cl0.contains_key(c) {
        assert(list_wf(s0) && list_client(s0, c));
    }
    lemma_append(s0, b, c);
    assert forall|x: ClientID| #[trigger] cl1.contains_key(x) implies list_wf(cl1[x].inner@) && list_client(cl1[x].inner@, x) by {
        if x != c { assert(cl0.contains_key(x) && cl1[x] == cl0[x]); }
    }
    assert forall|x: ClientID, k: int| #![trigger has_pt(sk0, x, k)] has_pt(sk0, x, k) <==> skip_covers(blocks_of(cl1, x), k) by {
        if x != c {
            assert(blocks_of(cl1, x) == blocks_of(cl0, x));
        } else {
            assert(blocks_of(cl1, x) == s1);
            assert(skip_covers(s1, k) <==> skip_covers(s0, k) || (b.skip() && b.start() <= k < b.next()));
        }
    }
    // a non-Skip block that continues the list lies beyond every skip point
    assert forall|x: ClientID, k: int| #![trigger has_pt(sk0, x, k)]
        has_pt(sk0, x, k) <==> has_pt(sk0, x, k) && (b.skip() || !(x == b.spec_client() && b.start() <= k < b.next())) by {
        if has_pt(sk0, x, k) && !b.skip() && x == c && b.start() <= k < b.next() {
            assert(skip_covers(s0, k));
            let i = choose|i: int| 0 <= i < s0.len() && (#[trigger] s0[i]).skip() && s0[i].start() <= k < s0[i].next();
            lemma_list_sorted(s0);
            assert(s0[i].next() <= s0.last().next());
        }
    }
}

/// store level, a Skip block of the client's list was split around the (non-Skip) block
pub proof fn lemma_push_store_split(cl0: Map<ClientID, ClientBlockList>, sk0: Map<ClientID, Seq<Ent<()>>>, cl1: Map<ClientID, ClientBlockList>, sk1: Map<ClientID, Seq<Ent<()>>>, b: Block, i: int, dl: int, dr: int)
    requires
        lists_wf(cl0),
        skips_pre(cl0, sk0, b),
        b.ok(),
        !b.skip(),
        cl0.contains_key(b.spec_client()),
        fits_at(cl0[b.spec_client()].inner@, i, b),
        cl1.contains_key(b.spec_client()),
        cl1 == cl0.insert(b.spec_client(), cl1[b.spec_client()]),
        is_split(cl0[b.spec_client()].inner@, i, b, cl1[b.spec_client()].inner@, dl, dr),
        // contract of IdSet::remove_range(&block.range())
        wf_map(sk1),
        same_except(sk1, sk0, b.spec_client()),
        forall|x: ClientID, k: int| #![trigger has_pt(sk1, x, k)] #![trigger has_pt(sk0, x, k)]
            has_pt(sk1, x, k) <==> has_pt(sk0, x, k) && !(x == b.spec_client() && in_block(b.start() as u32, b.blen() as u32, k)),
    ensures
        lists_wf(cl1),
        skips_wf(cl1, sk1),
        BlockStore::spec_push_skips(sk0, sk1, b),
{
    let c = b.spec_client();
    let s0 = cl0[c].inner@;
    let s1 = cl1[c].inner@;
    assert(list_wf(s0) && list_client(s0, c));
    lemma_split(s0, i, b, c, s1, dl, dr);
    assert forall|x: ClientID| #[trigger] cl1.contains_key(x) implies list_wf(cl1[x].inner@) && list_client(cl1[x].inner@, x) by {
        if x != c { assert(cl0.contains_key(x) && cl1[x] == cl0[x]); }
    }
    assert forall|x: ClientID, k: int| #![trigger has_pt(sk1, x, k)] has_pt(sk1, x, k) <==> skip_covers(blocks_of(cl1, x), k) by {
        assert(has_pt(sk0, x, k) <==> skip_covers(blocks_of(cl0, x), k));
        assert(in_block(b.start() as u32, b.blen() as u32, k) <==> b.start() <= k < b.next());
        if x != c {
            assert(blocks_of(cl1, x) == blocks_of(cl0, x));
        } else {
            assert(blocks_of(cl1, x) == s1 && blocks_of(cl0, x) == s0);
            assert(skip_covers(s1, k) <==> skip_covers(s0, k) && !(b.start() <= k < b.next()));
        }
    }
    assert forall|x: ClientID, k: int| #![trigger has_pt(sk1, x, k)] #![trigger has_pt(sk0, x, k)]
        has_pt(sk1, x, k) <==> has_pt(sk0, x, k) && (b.skip() || !(x == b.spec_client() && b.start() <= k < b.next())) by {
        assert(in_block(b.start() as u32, b.blen() as u32, k) <==> b.start() <= k < b.next());
    }
}

impl BlockStore {
    /// the skip points once `b` has been pushed
    pub open spec fn spec_push_skips(old_sk: Map<ClientID, Seq<Ent<()>>>, new_sk: Map<ClientID, Seq<Ent<()>>>, b: Block) -> bool {
        forall|c: ClientID, k: int| #![trigger has_pt(new_sk, c, k)] #![trigger has_pt(old_sk, c, k)]
            has_pt(new_sk, c, k) <==> has_pt(old_sk, c, k) && (b.skip() || !(c == b.spec_client() && b.start() <= k < b.next()))
    }

    /*@extract yrs/src/block_store.rs | impl BlockStore | fn push | label=BlockStore.push
    @sig
        requires
            lists_wf(old(self).clients@),
            skips_pre(old(self).clients@, old(self).skips@, block),
            // push_pre, as two clauses:
            block.ok(),
            push_pos(blocks_of(old(self).clients@, block.spec_client()), block),
        ensures
            // the representation invariant holds afterwards (for a pushed Skip block it is ESTABLISHED here, see skips_pre)
            final(self).wf(),
            // only the list of the block's client changes: the block is appended, or a Skip block is split around it
            final(self).clients@.dom() == old(self).clients@.dom().insert(block.spec_client()),
            forall|c: ClientID| c != block.spec_client() && old(self).clients@.contains_key(c) ==> #[trigger] final(self).clients@[c] == old(self).clients@[c],
            blocks_of(final(self).clients@, block.spec_client()) == push_list(blocks_of(old(self).clients@, block.spec_client()), block),
            // `skips` loses exactly the range of a non-Skip block
            Self::spec_push_skips(old(self).skips@, final(self).skips@, block),
    @start
        let ghost cl0 = self.clients@;
        let ghost sk0 = self.skips@;
        let ghost c = block.spec_client();
        let ghost s0 = blocks_of(cl0, c);
        let ghost mut vx_i: int = 0;
    @before 1 `stmt:let index`
        proof {
            // the block does not continue the list: by push_pre it lies inside one Skip block, so its first clock is in the list
            assert(list.inner@ == s0);
            axiom_block_vec_len_bound(&list.inner);
            lemma_fits_in_list(s0, block);
        }
    @after 1 `stmt:let index`
        proof {
            lemma_fits_idx(s0, block, index as int);
            vx_i = index as int;
        }
    @after 1 `stmt:assign list`
        proof {
            // the three in-place updates produce `split_skip`
            let dl: int = if block.start() > s0[vx_i].start() { 1 } else { 0 };
            let dr: int = if s0[vx_i].next() > block.next() { 1 } else { 0 };
            lemma_split_shape(s0, vx_i, block);
            assert(s0[vx_i].ok());
            assert(list.inner@ =~= split_skip(s0, vx_i, block));
            assert(is_split(s0, vx_i, block, list.inner@, dl, dr));
        }
    @after 1 `stmt:match`
        proof {
            let cl1 = self.clients@;
            let sk1 = self.skips@;
            assert(cl1.contains_key(c));
            assert(cl1 =~= cl0.insert(c, cl1[c]));
            if appends(s0, block) {
                assert(sk1 == sk0);
                lemma_push_store_append(cl0, sk0, cl1, block);
            } else {
                let dl: int = if block.start() > s0[vx_i].start() { 1 } else { 0 };
                let dr: int = if s0[vx_i].next() > block.next() { 1 } else { 0 };
                lemma_push_store_split(cl0, sk0, cl1, sk1, block, vx_i, dl, dr);
            }
            assert(cl1.dom() =~= cl0.dom().insert(c));
        }
    @*/
}

// ---------------------------------------------------------------------------------------------
// Store::write_blocks_from: the encoder (token log, as in units header / upd), slices, state-vector diff
// ---------------------------------------------------------------------------------------------
pub enum Tok {
    Info(u8),
    Len(u32),
    Var(int),
    Client(ClientID),
    /// a token of a kind this unit's code never writes itself: only inside the abstract `item_slice_toks`
    Other(int),
}

/// `lib0::VarInt`, reduced to "has an integer value" (the byte level is C09's)
pub trait VarInt: Sized + Copy {
    spec fn vx_val(&self) -> int;
}

impl VarInt for u32 {
    open spec fn vx_val(&self) -> int { *self as int }
}

impl VarInt for usize {
    open spec fn vx_val(&self) -> int { *self as int }
}

impl VarInt for i32 {
    open spec fn vx_val(&self) -> int { *self as int }
}

/// the tokens `ItemSlice::encode` appends for the sub-range [start ..= end] of `item` (unit header; abstract here, no axioms)
pub uninterp spec fn item_slice_toks(item: Item, start: u32, end: u32) -> Seq<Tok>;

/// the part of the precondition of unit header's `ItemSlice::encode` that speaks about dropped fields of Item (abstract)
pub uninterp spec fn item_rest_ok(item: Item) -> bool;

/*@extract yrs/src/slice.rs | - | struct ItemSlice | rules=SUB(from=struct ItemSlice;;to=struct ItemSlice<'a>) SUB(from=pub ptr: ItemPtr;;to=pub ptr: &'a Item) @*/

/*@extract yrs/src/slice.rs | - | enum BlockSlice | rules=SUB(from=enum BlockSlice;;to=enum BlockSlice<'a>) SUB(from=Item(ItemSlice);;to=Item(ItemSlice<'a>)) @*/

/// `ItemPtr::from(item.as_ref())` (`&Box<Item>` -> `&Item` -> `ItemPtr`): the pointer to the boxed item, as a borrow (verified)
pub fn vx_item_ptr<'a>(x: &'a Box<Item>) -> (r: &'a Item)
    ensures *r == **x,
{
    &**x
}

/// callee that is not part of this unit, as a bodiless method of a supertrait of the encoder
pub trait Kernels: Sized {
    /// the tokens written so far
    spec fn log(&self) -> Seq<Tok>;

    /// `ItemSlice::encode(&self, encoder)` (slice.rs; under contract in unit header)
    fn encode_item_slice(slice: &ItemSlice<'_>, encoder: &mut Self)
        requires
            slice.wf(),
            item_rest_ok(*slice.ptr),
        ensures
            final(encoder).log() == old(encoder).log() + item_slice_toks(*slice.ptr, slice.start, slice.end),
    ;
}

pub trait Encoder: Sized + Kernels {
    /*@extract yrs/src/updates/encoder.rs | trait Encoder: Write | fn write_client
    @sig
        ensures final(self).log() == old(self).log().push(Tok::Client(client)),
    @*/

    /*@extract yrs/src/updates/encoder.rs | trait Encoder: Write | fn write_info
    @sig
        ensures final(self).log() == old(self).log().push(Tok::Info(info)),
    @*/

    /*@extract yrs/src/updates/encoder.rs | trait Encoder: Write | fn write_len
    @sig
        ensures final(self).log() == old(self).log().push(Tok::Len(len)),
    @*/

    /// `lib0::Write::write_var::<T: VarInt>` (supertrait `Write`; default body `num.write(self)` dropped)
    fn write_var<T: VarInt>(&mut self, num: T)
        ensures final(self).log() == old(self).log().push(Tok::Var(num.vx_val())),
    ;
}

/*@extract yrs/src/block.rs | - | const BLOCK_GC_REF_NUMBER @*/
/*@extract yrs/src/block.rs | - | const BLOCK_SKIP_REF_NUMBER @*/

impl<'a> ItemSlice<'a> {
    /// as in unit header: a slice designates the non-empty range [start ..= end] inside its (non-empty) item
    pub open spec fn wf(&self) -> bool {
        &&& self.ptr.len >= 1
        &&& self.ptr.id.clock + self.ptr.len <= u32::MAX
        &&& self.start <= self.end
        &&& self.end < self.ptr.len
    }

    /*@extract yrs/src/slice.rs | impl ItemSlice | fn new | label=ItemSlice.new
    @ret r
    @sig
        requires start <= end,
        ensures r.ptr == ptr, r.start == start, r.end == end,
    @*/

    // real: `impl From<ItemPtr> for ItemSlice` (emitted as an inherent function: a trait-method impl cannot carry `requires`)
    /*@extract yrs/src/slice.rs | impl From<ItemPtr> for ItemSlice | fn from | label=ItemSlice.from | rules=SUB(from=ptr.len();;to=ptr.len)
    @ret r
    @sig
        requires ptr.len >= 1,
        ensures r.ptr == ptr, r.start == 0, r.end == ptr.len - 1,
    @*/

    pub open spec fn spec_len(&self) -> u32 {
        (self.end - self.start + 1) as u32
    }

    #[verifier::when_used_as_spec(spec_len)]
    /*@extract yrs/src/slice.rs | impl ItemSlice | fn len | label=ItemSlice.len
    @ret r
    @sig
        requires self.wf(),
        ensures r == self.spec_len(), r == self.end - self.start + 1,
    @*/

    /*@extract yrs/src/slice.rs | impl ItemSlice | fn trim_start | label=ItemSlice.trim_start
    @sig
        requires old(self).wf(), count <= old(self).spec_len(),
        ensures
            final(self).ptr == old(self).ptr,
            final(self).start == old(self).start + count,
            final(self).end == old(self).end,
    @*/
}

impl<'a> ItemSlice<'a> {
    /*@extract yrs/src/slice.rs | impl ItemSlice | fn clock_end | label=ItemSlice.clock_end
    @ret r
    @sig
        requires self.wf(),
        ensures r == self.ptr.id.clock + self.end,
    @*/

    // (as in unit header, H4: the function's own debug_assert admits count == len, for which `self.end -= count` underflows
    // when start == 0; the weakest precondition is count <= end)
    /*@extract yrs/src/slice.rs | impl ItemSlice | fn trim_end | label=ItemSlice.trim_end
    @sig
        requires old(self).wf(), count <= old(self).spec_len(), count <= old(self).end,
        ensures
            final(self).ptr == old(self).ptr,
            final(self).start == old(self).start,
            final(self).end == old(self).end - count,
    @*/
}

impl BlockRange {
    /*@extract yrs/src/block.rs | impl BlockRange | fn trim_end | label=BlockRange.trim_end
    @sig
        requires count <= old(self).len,
        ensures
            final(self).client == old(self).client,
            final(self).clock == old(self).clock,
            final(self).len == old(self).len - count,
    @*/

    /*@extract yrs/src/block.rs | impl BlockRange | fn trim_start | label=BlockRange.trim_start
    @sig
        requires old(self).clock + old(self).len <= u32::MAX, count <= old(self).len,
        ensures
            final(self).client == old(self).client,
            final(self).clock == old(self).clock + count,
            final(self).len == old(self).len - count,
    @*/
}

/// the slice of the whole block
pub open spec fn slice_of<'a>(b: &'a Block) -> BlockSlice<'a> {
    match b {
        Block::Item(x) => BlockSlice::Item(ItemSlice { ptr: &**x, start: 0, end: (x.len - 1) as u32 }),
        Block::GC(r) => BlockSlice::GC(*r),
        Block::Skip(r) => BlockSlice::Skip(*r),
    }
}

/// the slice of the block without its first `off` clocks
pub open spec fn slice_from<'a>(b: &'a Block, off: u32) -> BlockSlice<'a> {
    match b {
        Block::Item(x) => BlockSlice::Item(ItemSlice { ptr: &**x, start: off, end: (x.len - 1) as u32 }),
        Block::GC(r) => BlockSlice::GC(BlockRange { client: r.client, clock: (r.clock + off) as u32, len: (r.len - off) as u32 }),
        Block::Skip(r) => BlockSlice::Skip(BlockRange { client: r.client, clock: (r.clock + off) as u32, len: (r.len - off) as u32 }),
    }
}

/// the slice of the block without its last `cnt` clocks
pub open spec fn slice_to<'a>(b: &'a Block, cnt: u32) -> BlockSlice<'a> {
    match b {
        Block::Item(x) => BlockSlice::Item(ItemSlice { ptr: &**x, start: 0, end: (x.len - 1 - cnt) as u32 }),
        Block::GC(r) => BlockSlice::GC(BlockRange { client: r.client, clock: r.clock, len: (r.len - cnt) as u32 }),
        Block::Skip(r) => BlockSlice::Skip(BlockRange { client: r.client, clock: r.clock, len: (r.len - cnt) as u32 }),
    }
}

/// what is written for the block `b` without its last `cnt` clocks: Item -> the item slice [0 ..= len-1-cnt] (abstract),
/// GC -> Info(0) Len(len - cnt), Skip -> Info(10) Var(len - cnt)
pub open spec fn block_tokens_to(b: Block, cnt: u32) -> Seq<Tok> {
    match b {
        Block::Item(x) => item_slice_toks(*x, 0, (x.len - 1 - cnt) as u32),
        Block::Skip(r) => seq![Tok::Info(10), Tok::Var(r.len - cnt)],
        Block::GC(r) => seq![Tok::Info(0), Tok::Len((r.len - cnt) as u32)],
    }
}

/// what is written for the block `b` from its `off`-th clock on (same layout as unit upd's block_tokens: what
/// `Update::decode_block` reads): Item -> the item slice [off ..= len-1] (abstract), GC -> Info(0) Len(len - off),
/// Skip -> Info(10) Var(len - off)
pub open spec fn block_tokens(b: Block, off: u32) -> Seq<Tok> {
    match b {
        Block::Item(x) => item_slice_toks(*x, off, (x.len - 1) as u32),
        Block::Skip(r) => seq![Tok::Info(10), Tok::Var(r.len - off)],
        Block::GC(r) => seq![Tok::Info(0), Tok::Len((r.len - off) as u32)],
    }
}

/// a block that can be written from `off` on
pub open spec fn block_encodable(b: Block, off: u32) -> bool {
    &&& b.ok()
    &&& off < b.blen()
    &&& b is Item ==> item_rest_ok(*b->Item_0)
}

impl Block {
    /*@extract yrs/src/block.rs | impl Block | fn as_slice | label=Block.as_slice | rules=SUB(from=-> BlockSlice;;to=-> BlockSlice<'_>)
    @ret r
    @sig
        requires self.ok(),
        ensures r == slice_of(self),
    @*/
}

impl<'a> BlockSlice<'a> {
    /*@extract yrs/src/slice.rs | impl BlockSlice | fn trim_start | label=BlockSlice.trim_start
    @sig
        requires
            exists|b: &'a Block| #![trigger slice_of(b)] *old(self) == slice_of(b) && b.ok() && count < b.blen(),
        ensures
            forall|b: &'a Block| #![trigger slice_of(b)] *old(self) == slice_of(b) ==> *final(self) == slice_from(b, count),
    @*/

    /*@extract yrs/src/slice.rs | impl BlockSlice | fn clock_end | label=BlockSlice.clock_end
    @ret r
    @sig
        requires
            exists|b: &'a Block| #![trigger slice_of(b)] *self == slice_of(b) && b.ok(),
        ensures
            forall|b: &'a Block| #![trigger slice_of(b)] *self == slice_of(b) ==> r == b.next() - 1,
    @*/

    /*@extract yrs/src/slice.rs | impl BlockSlice | fn trim_end | label=BlockSlice.trim_end
    @sig
        requires
            exists|b: &'a Block| #![trigger slice_of(b)] *old(self) == slice_of(b) && b.ok() && count < b.blen(),
        ensures
            forall|b: &'a Block| #![trigger slice_of(b)] *old(self) == slice_of(b) ==> *final(self) == slice_to(b, count),
    @*/

    // the slice is a block cut at its start (`slice_from`) or cut at its end (`slice_to`)
    /*@extract yrs/src/slice.rs | impl BlockSlice | fn encode | label=BlockSlice.encode | rules=SUB(from=s.encode(encoder);;to=E::encode_item_slice(s, encoder))
    @sig
        requires
            (exists|b: &'a Block, off: u32| #![trigger slice_from(b, off)] *self == slice_from(b, off) && block_encodable(*b, off))
                || (exists|b: &'a Block, cnt: u32| #![trigger slice_to(b, cnt)] *self == slice_to(b, cnt) && block_encodable(*b, cnt)),
        ensures
            forall|b: &'a Block, off: u32| #![trigger slice_from(b, off)] *self == slice_from(b, off) && block_encodable(*b, off)
                ==> final(encoder).log() == old(encoder).log() + block_tokens(*b, off),
            forall|b: &'a Block, cnt: u32| #![trigger slice_to(b, cnt)] *self == slice_to(b, cnt) && block_encodable(*b, cnt)
                ==> final(encoder).log() == old(encoder).log() + block_tokens_to(*b, cnt),
    @*/
}

// ---- state vectors: the vocabulary of unit sv (the stub contract below must be textually that of unit sv)
pub open spec fn sv_le(a: Map<ClientID, u32>, b: Map<ClientID, u32>) -> bool {
    forall|c: ClientID| sv_get(a, c) <= sv_get(b, c)
}

/// `(c, k)` is in the diff of `local` against `remote`: the remote lists `c` but is behind (send from its clock on), or
/// the remote does not list `c` at all (send everything, from clock 0)
pub open spec fn diff_has(local: Map<ClientID, u32>, remote: Map<ClientID, u32>, c: ClientID, k: u32) -> bool {
    ||| remote.contains_key(c) && sv_get(local, c) > remote[c] && k == remote[c]
    ||| local.contains_key(c) && !remote.contains_key(c) && k == 0
}

pub open spec fn no_unmatched_zero(local: Map<ClientID, u32>, remote: Map<ClientID, u32>) -> bool {
    forall|c: ClientID| local.contains_key(c) && local[c] == 0 ==> remote.contains_key(c)
}

// ---- iteration over a HashMap (vstd's HashMap::iter: a duplicate-free sequence of exactly the map's (key, value) pairs);
// same predicates as in units sv / upd
pub open spec fn hiter_of<V>(s: Seq<(&ClientID, &V)>, m: Map<ClientID, V>) -> bool {
    &&& s.len() == m.len()
    &&& s.no_duplicates()
    &&& forall|i: int| 0 <= i < s.len() ==> m.contains_key(*(#[trigger] s[i]).0) && m[*s[i].0] == *s[i].1
    &&& forall|k: ClientID| m.contains_key(k) ==> exists|i: int| 0 <= i < s.len() && *(#[trigger] s[i]).0 == k
}

impl StateVector {
    /*@extract yrs/src/state_vector.rs | impl StateVector | fn get | label=StateVector.get
    @ret r
    @sig
        ensures
            r == sv_get(self@, *client_id),
    @*/

    /*@extract yrs/src/state_vector.rs | impl StateVector | fn contains_client | label=StateVector.contains_client
    @ret r
    @sig
        ensures
            r <==> self@.contains_key(*client_id),
    @*/

    // the iterator enumerates the map (as in unit sv)
    /*@extract yrs/src/state_vector.rs | impl StateVector | fn iter | label=StateVector.iter
    @ret r
    @sig
        ensures
            hiter_of(r.remaining(), self@),
            r.obeys_prophetic_iter_laws(),
            r.decrease() is Some,
    @*/

    /*@extract yrs/src/state_vector.rs | impl StateVector | fn len | label=StateVector.len
    @ret r
    @sig
        ensures
            r == self@.len(),
    @*/
}

/// stand-in: the one field `write_blocks_from` reads (DROPPED: client_id, offset_kind, skip_gc, cleanup_formatting, types,
/// pending, pending_ds, subdocs, events, parent, linked_by)
pub struct Store {
    pub blocks: BlockStore,
}

impl Store {
    // proved in unit sv
    #[verifier::external_body]
    /*@extract yrs/src/store.rs | impl Store | fn diff_state_vectors | skip=R6 | rules=SUB(from=for (client, &remote_clock) in remote_sv.iter() {;;to=for (client, vx_rc) in remote_sv.iter() { let remote_clock: u32 = *vx_rc;)
    @ret r
    @sig
        ensures
            // exactly the diff ...
            forall|c: ClientID, k: u32| #[trigger] r@.contains((c, k)) <==> diff_has(local_sv@, remote_sv@, c, k),
            // ... no client twice ...
            forall|i: int, j: int| 0 <= i < j < r@.len() ==> (#[trigger] r@[i]).0 != (#[trigger] r@[j]).0,
            // ... and nothing is sent iff the remote lists every client `local` lists, with a clock that is not behind
            // (in particular: an update encoded against the receiver's own state vector, `remote_sv@ == local_sv@`, is empty)
            r@.len() == 0 <==> (forall|c: ClientID| local_sv@.contains_key(c) ==> remote_sv@.contains_key(c) && local_sv@[c] <= remote_sv@[c]),
            remote_sv@ == local_sv@ ==> r@.len() == 0,
            // ... hence also whenever the remote dominates pointwise (modulo explicit zero entries, see no_unmatched_zero)
            sv_le(local_sv@, remote_sv@) && no_unmatched_zero(local_sv@, remote_sv@) ==> r@.len() == 0,
    @*/
}

/// the skip-aware state vector of the store (what `get_state_vector` returns)
pub open spec fn store_sv(cl: Map<ClientID, ClientBlockList>) -> Map<ClientID, u32> {
    Map::new(cl.dom(), |c: ClientID| first_gap(cl[c].inner@) as u32)
}

/// one client section of the written update: the client, the first written clock, the client's list and the index of
/// the first written block
pub struct Section {
    pub client: ClientID,
    pub clock: u32,
    pub blocks: Seq<Block>,
    pub start: int,
}

pub open spec fn max_u32(a: u32, b: u32) -> u32 {
    if a >= b { a } else { b }
}

/// the section of client `c` for a remote that has everything below clock `k`: written from max(k, first.start) on
pub open spec fn section_of(cl: Map<ClientID, ClientBlockList>, c: ClientID, k: u32) -> Section {
    let bs = cl[c].inner@;
    let clock = max_u32(k, bs[0].start() as u32);
    Section { client: c, clock, blocks: bs, start: block_idx(bs, clock as int) }
}

pub open spec fn sections(cl: Map<ClientID, ClientBlockList>, d: Seq<(ClientID, u32)>) -> Seq<Section> {
    Seq::new(d.len(), |i: int| section_of(cl, d[i].0, d[i].1))
}

/// number of blocks, client, first written clock (what `Update::decode` reads per client)
pub open spec fn emit_section_head(l: Seq<Tok>, e: Section) -> Seq<Tok> {
    l.push(Tok::Var(e.blocks.len() - e.start)).push(Tok::Client(e.client)).push(Tok::Var(e.clock as int))
}

/// ... the first block cut at the clock ...
pub open spec fn emit_section_first(l: Seq<Tok>, e: Section) -> Seq<Tok> {
    emit_section_head(l, e) + block_tokens(e.blocks[e.start], (e.clock - e.blocks[e.start].start()) as u32)
}

/// ... the blocks lo .. n-1 whole (lo = start + 1)
pub open spec fn emit_rest(l: Seq<Tok>, bs: Seq<Block>, lo: int, n: int) -> Seq<Tok>
    decreases n - lo,
{
    if n <= lo { l } else { emit_rest(l, bs, lo, n - 1) + block_tokens(bs[n - 1], 0) }
}

pub open spec fn emit_section(l: Seq<Tok>, e: Section) -> Seq<Tok> {
    emit_rest(emit_section_first(l, e), e.blocks, e.start + 1, e.blocks.len() as int)
}

pub open spec fn emit_sections(l: Seq<Tok>, es: Seq<Section>, n: int) -> Seq<Tok>
    decreases n,
{
    if n <= 0 { l } else { emit_section(emit_sections(l, es, n - 1), es[n - 1]) }
}

/// everything `write_blocks_from` appends
pub open spec fn emit_all(l: Seq<Tok>, es: Seq<Section>) -> Seq<Tok> {
    emit_sections(l.push(Tok::Var(es.len() as int)), es, es.len() as int)
}

/// `d` lists exactly the diff of the two state vectors, highest client id first (hence no client twice)
pub open spec fn diff_listing(d: Seq<(ClientID, u32)>, local: Map<ClientID, u32>, remote: Map<ClientID, u32>) -> bool {
    &&& forall|c: ClientID, k: u32| #[trigger] d.contains((c, k)) <==> diff_has(local, remote, c, k)
    &&& forall|i: int, j: int| 0 <= i < j < d.len() ==> (#[trigger] d[i]).0.0 > (#[trigger] d[j]).0.0
}

/// every stored Item satisfies the abstract precondition of `ItemSlice::encode` about dropped fields (see unit upd)
pub open spec fn items_ok(cl: Map<ClientID, ClientBlockList>) -> bool {
    forall|c: ClientID, i: int| #![trigger cl[c].inner@[i]] cl.contains_key(c) && 0 <= i < cl[c].inner@.len() && cl[c].inner@[i] is Item ==> item_rest_ok(*cl[c].inner@[i]->Item_0)
}

/// from the diff through `sort_by` to the listing that is written
pub proof fn lemma_sorted_diff(d0: Seq<(ClientID, u32)>, d: Seq<(ClientID, u32)>, local: Map<ClientID, u32>, remote: Map<ClientID, u32>)
    requires
        // contract of diff_state_vectors
        forall|c: ClientID, k: u32| #[trigger] d0.contains((c, k)) <==> diff_has(local, remote, c, k),
        forall|i: int, j: int| 0 <= i < j < d0.len() ==> (#[trigger] d0[i]).0 != (#[trigger] d0[j]).0,
        // contract of vx_sort_by_client_desc
        d.len() == d0.len(),
        exists|p: Seq<int>| is_permutation(p, d0.len() as int) && forall|i: int| 0 <= i < p.len() ==> #[trigger] d[i] == d0[p[i]],
        forall|i: int, j: int| 0 <= i < j < d.len() ==> (#[trigger] d[i]).0.0 >= (#[trigger] d[j]).0.0,
    ensures
        diff_listing(d, local, remote),
{
    let p = choose|p: Seq<int>| is_permutation(p, d0.len() as int) && forall|i: int| 0 <= i < p.len() ==> #[trigger] d[i] == d0[p[i]];
    assert forall|c: ClientID, k: u32| #[trigger] d.contains((c, k)) <==> diff_has(local, remote, c, k) by {
        if d.contains((c, k)) {
            let i = choose|i: int| 0 <= i < d.len() && d[i] == (c, k);
            assert(d[i] == d0[p[i]]);
            assert(d0.contains((c, k)));
        }
        if diff_has(local, remote, c, k) {
            assert(d0.contains((c, k)));
            let i0 = choose|i: int| 0 <= i < d0.len() && d0[i] == (c, k);
            assert(perm_hits(p, i0));
            let i = choose|i: int| 0 <= i < p.len() && #[trigger] p[i] == i0;
            assert(d[i] == d0[p[i]]);
        }
    }
    assert forall|i: int, j: int| 0 <= i < j < d.len() implies (#[trigger] d[i]).0.0 > (#[trigger] d[j]).0.0 by {
        assert(d[i] == d0[p[i]] && d[j] == d0[p[j]]);
        assert(p[i] != p[j]);
        if p[i] < p[j] {
            assert(d0[p[i]].0 != d0[p[j]].0);
        } else {
            assert(d0[p[j]].0 != d0[p[i]].0);
        }
        assert(d[i].0.0 >= d[j].0.0);
    }
}

/// the END of every client's block list (what `write_blocks_from` offers: also the blocks integrated behind a gap)
pub open spec fn store_ends(cl: Map<ClientID, ClientBlockList>) -> Map<ClientID, u32> {
    Map::new(cl.dom(), |c: ClientID| list_clock(cl[c].inner@) as u32)
}

/// PRECONDITION of `write_blocks_between` on its local side: it lists only clients the store knows, with clocks that do not
/// exceed the end of the client's list (so that the first written clock lies in the list and `find_index` hits)
pub open spec fn local_ok(cl: Map<ClientID, ClientBlockList>, local: Map<ClientID, u32>) -> bool {
    forall|c: ClientID| #[trigger] local.contains_key(c) ==> cl.contains_key(c) && local[c] <= list_clock(cl[c].inner@)
}

/// a listed client is known to the store and the clock written first lies in its list
pub proof fn lemma_section_in_list(cl: Map<ClientID, ClientBlockList>, local: Map<ClientID, u32>, remote: Map<ClientID, u32>, c: ClientID, k: u32)
    requires
        lists_wf(cl),
        local_ok(cl, local),
        diff_has(local, remote, c, k),
    ensures
        cl.contains_key(c),
        k < list_clock(cl[c].inner@),
        in_list(cl[c].inner@, max_u32(k, cl[c].inner@[0].start() as u32) as int),
{
    assert(local.contains_key(c)) by {
        if !local.contains_key(c) { assert(sv_get(local, c) == 0); }
    }
    let s = cl[c].inner@;
    lemma_list_sorted(s);
    assert(s[0].ok());
    assert(s[0].next() <= s.last().next());
}

pub proof fn lemma_store_ends_ok(cl: Map<ClientID, ClientBlockList>)
    requires
        lists_wf(cl),
    ensures
        local_ok(cl, store_ends(cl)),
        local_ok(cl, store_sv(cl)),
{
    assert forall|c: ClientID| #[trigger] cl.contains_key(c) implies 0 <= first_gap(cl[c].inner@) <= list_clock(cl[c].inner@) <= u32::MAX by {
        lemma_first_gap_meaning(cl[c].inner@);
    }
}

impl Store {
    // `self.blocks.iter().map(closure).collect()`: `BlockStore::iter` is `self.clients.iter()` (accessor body checked; the
    // `.iter()` goes into the stand-in) and the rest is the trusted stand-in `vx_collect_clocks`, as in get_state_vector.
    /*@extract yrs/src/store.rs | impl Store | fn write_blocks_from | label=Store.write_blocks_from | rules=INLINE(file=yrs/src/block_store.rs;;container=impl BlockStore;;fn=iter;;body=self.clients.iter();;call=.iter();;to=.clients) SUB(from=.collect();;to=.vx_collect_clocks())
    @sig
        requires
            lists_wf(self.blocks.clients@),
            items_ok(self.blocks.clients@),
        ensures
            // the local side is the END of every client's list
            exists|d: Seq<(ClientID, u32)>| diff_listing(d, store_ends(self.blocks.clients@), sv@)
                && final(encoder).log() == emit_all(old(encoder).log(), sections(self.blocks.clients@, d)),
    @after 1 `stmt:let local_sv`
        proof {
            assert(local_sv@ =~= store_ends(self.blocks.clients@));
            lemma_store_ends_ok(self.blocks.clients@);
        }
    @*/

    // The local side is a PARAMETER.  `local_ok` is what the two callers establish: write_blocks_from passes the list ends
    // (`lemma_store_ends_ok`); TransactionMut::encode_update passes after_state = get_state_vector() (first gaps <= list ends,
    // domain = the store's clients) raised by `set_max(client, clock_end)` over the transaction's insert set, whose ranges are
    // ids of blocks this transaction pushed into the store (<= the end of that client's list).
    /*@extract yrs/src/store.rs | impl Store | fn write_blocks_between | label=Store.write_blocks_between | skip=R6 | rules=INLINE(file=yrs/src/block_store.rs;;container=impl Index<usize> for ClientBlockList;;fn=index;;body=unsafe { &*self.inner[index].get() };;call=&blocks[i];;to=&blocks.inner[i])
    @sig
        requires
            lists_wf(self.blocks.clients@),
            items_ok(self.blocks.clients@),
            local_ok(self.blocks.clients@, local_sv@),
        ensures
            exists|d: Seq<(ClientID, u32)>| diff_listing(d, local_sv@, sv@)
                && final(encoder).log() == emit_all(old(encoder).log(), sections(self.blocks.clients@, d)),
    @start
        let ghost cl = self.blocks.clients@;
        let ghost local = local_sv@;
        let ghost remote = sv@;
        let ghost l0 = encoder.log();
    @after 1 `stmt:let diff`
        let ghost d0 = diff@;
    @after 1 `stmt:call vx_sort_by_client_desc`
        let ghost d = diff@;
        let ghost es = sections(cl, d);
        proof {
            lemma_sorted_diff(d0, d, local, remote);
        }
    @after 1 `stmt:call write_var`
        let ghost l1 = encoder.log();
    @loop 1 iter=it
        invariant
            it.seq() == d,
            es == sections(cl, d),
            cl == self.blocks.clients@,
            lists_wf(cl),
            items_ok(cl),
            local_ok(cl, local),
            diff_listing(d, local, remote),
            encoder.log() == emit_sections(l1, es, it.index@ as int),
    @closure 1 `|i: BlockRef<'_>| -> (vx_r: u32)`
        ensures vx_r == i.cell.start(),
    @loopstart 1
        let ghost n = it.index@ as int;
        let ghost e = es[n];
        let ghost lb = encoder.log();
        let ghost bs = cl[client].inner@;
        proof {
            assert(d[n] == (client, clock));
            assert(d.contains((client, clock)));
            lemma_section_in_list(cl, local, remote, client, clock);
            assert(list_wf(bs));
            assert(e == section_of(cl, client, clock));
        }
    @after 1 `stmt:let start`
        proof {
            axiom_block_vec_len_bound(&blocks.inner);
            lemma_block_of(bs, e.clock as int, start as int, block_idx(bs, e.clock as int));
            assert(e.start == start);
            assert(bs[start as int].ok());
        }
    @after 3 `stmt:call write_var`
        proof {
            assert(encoder.log() == emit_section_head(lb, e));
        }
    @before 1 `stmt:call encode`
        proof {
            assert(block_encodable(*first_block, offset));
        }
    @before 2 `stmt:for`
        proof {
            assert(encoder.log() == emit_section_first(lb, e));
        }
        let ghost l3 = encoder.log();
    @loop 2 iter=it2
        invariant
            i - it2.index@ + it2.seq().len() == bs.len(),
            bs == blocks.inner@,
            list_wf(bs),
            cl.contains_key(client) && bs == cl[client].inner@,
            items_ok(cl),
            // whatever the first index of the loop is: the blocks from there up to i have been written whole
            encoder.log() == emit_rest(l3, bs, i - it2.index@, i as int),
    @loopstart 2
        proof {
            assert(bs[i as int].ok());
            assert(slice_of(&blocks.inner[i as int]) == slice_from(&blocks.inner[i as int], 0));
            assert(block_encodable(bs[i as int], 0));
        }
    @loopend 1
        proof {
            assert(encoder.log() == emit_section(lb, e));
        }
    @*/
}

// The interesting ARM of `push` once more, lifted on its own (R18 arm region; same source text): "this replaces an integrated
// skip".  As a function of its own the list surgery is a CONTRACT clause.
/*@extract yrs/src/block_store.rs | impl BlockStore | region push | arm=Some(last) if last.as_ref().next_clock() != block.clock_start() => | label=push_into_skip | rules=SUB(from=self.skips;;to=skips)
@header
    fn push_into_skip(list: &mut ClientBlockList, skips: &mut IdSet, block: Block)
@sig
    requires
        list_wf(old(list).inner@),
        block.ok(),
        !block.skip(),
        fits_in_skip(old(list).inner@, block),
        wf_map(old(skips)@),
    ensures
        // the Skip block that contains the new block's range is split into (optional left Skip, block, optional right Skip)
        final(list).inner@ == split_skip(old(list).inner@, block_idx(old(list).inner@, block.start()), block),
        // `skips` loses exactly the block's range
        wf_map(final(skips)@),
        same_except(final(skips)@, old(skips)@, block.spec_client()),
        forall|c: ClientID, k: int| #![trigger has_pt(final(skips)@, c, k)] #![trigger has_pt(old(skips)@, c, k)]
            has_pt(final(skips)@, c, k) <==> has_pt(old(skips)@, c, k) && !(c == block.spec_client() && block.start() <= k < block.next()),
@start
    let ghost s0 = list.inner@;
    let ghost mut vx_i: int = 0;
    proof {
        axiom_block_vec_len_bound(&list.inner);
        lemma_fits_in_list(s0, block);
    }
@after 1 `stmt:let index`
    proof {
        lemma_fits_idx(s0, block, index as int);
        vx_i = index as int;
    }
@end
    proof {
        lemma_split_shape(s0, vx_i, block);
        assert(s0[vx_i].ok());
        assert forall|k: int| #[trigger] in_block(block.start() as u32, block.blen() as u32, k) <==> block.start() <= k < block.next() by {}
    }
@*/

// One STEP of `write_blocks_between` (the former body of write_blocks_from) once more, lifted on its own (R18 statement region; same source text): the body of the
// writing loop, i.e. one client section.
/*@extract yrs/src/store.rs | impl Store | region write_blocks_between | stmt=stmt:let blocks | upto=stmt:for | uptonth=2 | label=write_blocks_from_section | rules=SUB(from=self.blocks;;to=this.blocks) INLINE(file=yrs/src/block_store.rs;;container=impl Index<usize> for ClientBlockList;;fn=index;;body=unsafe { &*self.inner[index].get() };;call=&blocks[i];;to=&blocks.inner[i])
@header
    fn write_blocks_from_section<E: Encoder>(this: &Store, encoder: &mut E, client: ClientID, clock: u32)
@sig
    requires
        lists_wf(this.blocks.clients@),
        items_ok(this.blocks.clients@),
        this.blocks.clients@.contains_key(client),
        // (what the diff guarantees, `lemma_section_in_list`)
        in_list(this.blocks.clients@[client].inner@, max_u32(clock, this.blocks.clients@[client].inner@[0].start() as u32) as int),
    ensures
        final(encoder).log() == emit_section(old(encoder).log(), section_of(this.blocks.clients@, client, clock)),
@start
    let ghost cl = this.blocks.clients@;
    let ghost e = section_of(cl, client, clock);
    let ghost lb = encoder.log();
    let ghost bs = cl[client].inner@;
    proof {
        assert(list_wf(bs));
    }
@closure 1 `|i: BlockRef<'_>| -> (vx_r: u32)`
    ensures vx_r == i.cell.start(),
@after 1 `stmt:let start`
    proof {
        axiom_block_vec_len_bound(&blocks.inner);
        lemma_block_of(bs, e.clock as int, start as int, block_idx(bs, e.clock as int));
        assert(bs[start as int].ok());
    }
@before 1 `stmt:call encode`
    proof {
        assert(block_encodable(*first_block, offset));
    }
@before 1 `stmt:for`
    let ghost l3 = encoder.log();
@loop 1 iter=it2
    invariant
        i - it2.index@ + it2.seq().len() == bs.len(),
        bs == blocks.inner@,
        list_wf(bs),
        cl.contains_key(client) && bs == cl[client].inner@,
        items_ok(cl),
        // whatever the first index of the loop is: the blocks from there up to i have been written whole
        encoder.log() == emit_rest(l3, bs, i - it2.index@, i as int),
@loopstart 1
    proof {
        assert(bs[i as int].ok());
        assert(slice_of(&blocks.inner[i as int]) == slice_from(&blocks.inner[i as int], 0));
        assert(block_encodable(bs[i as int], 0));
    }
@*/

// ---------------------------------------------------------------------------------------------
// Store::write_blocks_to: the snapshot encoder (everything BELOW the snapshot's clocks)
// ---------------------------------------------------------------------------------------------
pub open spec fn min_u32(a: u32, b: u32) -> u32 {
    if a <= b { a } else { b }
}

/// every list starts at clock 0.  Not needed by any other function of the unit; `write_blocks_to` writes `Var(0)` as the first
/// clock of a section and looks up `clock - 1 >= 0`, so it relies on it.  Every list built by the crate satisfies it: local
/// clocks start at 0 and `Update::integrate` fills the hole below the first remote block with a Skip from `local_clock == 0`.
pub open spec fn lists_from_zero(cl: Map<ClientID, ClientBlockList>) -> bool {
    forall|c: ClientID| #[trigger] cl.contains_key(c) ==> cl[c].inner@[0].start() == 0
}

/// `(c, k)` is listed: the snapshot lists `c`, the store knows `c`, and k = min(snapshot clock, first gap) is not 0
pub open spec fn snap_has(cl: Map<ClientID, ClientBlockList>, snap: Map<ClientID, u32>, c: ClientID, k: u32) -> bool {
    snap.contains_key(c) && cl.contains_key(c) && k == min_u32(snap[c], first_gap(cl[c].inner@) as u32) && k > 0
}

pub open spec fn snap_inv(d: Seq<(ClientID, u32)>, cl: Map<ClientID, ClientBlockList>, snap: Map<ClientID, u32>, seen: Set<ClientID>) -> bool {
    &&& forall|c: ClientID, k: u32| #[trigger] d.contains((c, k)) <==> seen.contains(c) && snap_has(cl, snap, c, k)
    &&& forall|i: int, j: int| 0 <= i < j < d.len() ==> (#[trigger] d[i]).0 != (#[trigger] d[j]).0
}

/// `d` lists exactly the clamped snapshot clocks, highest client id first
pub open spec fn snap_listing(d: Seq<(ClientID, u32)>, cl: Map<ClientID, ClientBlockList>, snap: Map<ClientID, u32>) -> bool {
    &&& forall|c: ClientID, k: u32| #[trigger] d.contains((c, k)) <==> snap_has(cl, snap, c, k)
    &&& forall|i: int, j: int| 0 <= i < j < d.len() ==> (#[trigger] d[i]).0.0 > (#[trigger] d[j]).0.0
}

/// a client not looked at before is looked at and `(c, k)` is pushed
pub proof fn lemma_snap_push(d: Seq<(ClientID, u32)>, cl: Map<ClientID, ClientBlockList>, snap: Map<ClientID, u32>, seen: Set<ClientID>, c: ClientID, k: u32)
    requires
        snap_inv(d, cl, snap, seen),
        !seen.contains(c),
        snap_has(cl, snap, c, k),
    ensures
        snap_inv(d.push((c, k)), cl, snap, seen.insert(c)),
{
    let e = d.push((c, k));
    let seen2 = seen.insert(c);
    assert forall|i: int| 0 <= i < d.len() implies (#[trigger] d[i]).0 != c by {
        if d[i].0 == c { assert(d.contains((c, d[i].1))); }
    }
    assert forall|x: ClientID, y: u32| #[trigger] e.contains((x, y)) <==> seen2.contains(x) && snap_has(cl, snap, x, y) by {
        assert(d.contains((x, y)) <==> seen.contains(x) && snap_has(cl, snap, x, y));
        if e.contains((x, y)) {
            let i = choose|i: int| 0 <= i < e.len() && e[i] == (x, y);
            if i < d.len() { assert(d[i] == (x, y)); assert(d.contains((x, y))); }
        }
        if d.contains((x, y)) {
            let i = choose|i: int| 0 <= i < d.len() && d[i] == (x, y);
            assert(e[i] == (x, y));
        }
        if x == c && y == k { assert(e[d.len() as int] == (x, y)); }
    }
    assert forall|i: int, j: int| 0 <= i < j < e.len() implies (#[trigger] e[i]).0 != (#[trigger] e[j]).0 by {
        if j < d.len() { assert(d[i].0 != d[j].0); } else { assert(e[i] == d[i]); }
    }
}

/// a client not looked at before is looked at and nothing is pushed
pub proof fn lemma_snap_skip(d: Seq<(ClientID, u32)>, cl: Map<ClientID, ClientBlockList>, snap: Map<ClientID, u32>, seen: Set<ClientID>, c: ClientID)
    requires
        snap_inv(d, cl, snap, seen),
        forall|k: u32| !snap_has(cl, snap, c, k),
    ensures
        snap_inv(d, cl, snap, seen.insert(c)),
{
    let seen2 = seen.insert(c);
    assert forall|x: ClientID, y: u32| #[trigger] d.contains((x, y)) <==> seen2.contains(x) && snap_has(cl, snap, x, y) by {
        assert(d.contains((x, y)) <==> seen.contains(x) && snap_has(cl, snap, x, y));
    }
}

/// `sort_by` keeps the elements; without a client twice, `>=` is `>`
pub proof fn lemma_sorted_perm(d0: Seq<(ClientID, u32)>, d: Seq<(ClientID, u32)>)
    requires
        forall|i: int, j: int| 0 <= i < j < d0.len() ==> (#[trigger] d0[i]).0 != (#[trigger] d0[j]).0,
        d.len() == d0.len(),
        exists|p: Seq<int>| is_permutation(p, d0.len() as int) && forall|i: int| 0 <= i < p.len() ==> #[trigger] d[i] == d0[p[i]],
        forall|i: int, j: int| 0 <= i < j < d.len() ==> (#[trigger] d[i]).0.0 >= (#[trigger] d[j]).0.0,
    ensures
        forall|x: (ClientID, u32)| #[trigger] d.contains(x) <==> d0.contains(x),
        forall|i: int, j: int| 0 <= i < j < d.len() ==> (#[trigger] d[i]).0.0 > (#[trigger] d[j]).0.0,
{
    let p = choose|p: Seq<int>| is_permutation(p, d0.len() as int) && forall|i: int| 0 <= i < p.len() ==> #[trigger] d[i] == d0[p[i]];
    assert forall|x: (ClientID, u32)| #[trigger] d.contains(x) <==> d0.contains(x) by {
        if d.contains(x) {
            let i = choose|i: int| 0 <= i < d.len() && d[i] == x;
            assert(d[i] == d0[p[i]]);
        }
        if d0.contains(x) {
            let i0 = choose|i: int| 0 <= i < d0.len() && d0[i] == x;
            assert(perm_hits(p, i0));
            let i = choose|i: int| 0 <= i < p.len() && #[trigger] p[i] == i0;
            assert(d[i] == d0[p[i]]);
        }
    }
    assert forall|i: int, j: int| 0 <= i < j < d.len() implies (#[trigger] d[i]).0.0 > (#[trigger] d[j]).0.0 by {
        assert(d[i] == d0[p[i]] && d[j] == d0[p[j]]);
        assert(p[i] != p[j]);
        if p[i] < p[j] { assert(d0[p[i]].0 != d0[p[j]].0); } else { assert(d0[p[j]].0 != d0[p[i]].0); }
        assert(d[i].0.0 >= d[j].0.0);
    }
}

/// one client section of the snapshot encoding: the client, the (exclusive) end clock, the client's list and the index of the
/// last written block
pub struct SectionTo {
    pub client: ClientID,
    pub clock: u32,
    pub blocks: Seq<Block>,
    pub last: int,
}

pub open spec fn section_to_of(cl: Map<ClientID, ClientBlockList>, c: ClientID, k: u32) -> SectionTo {
    SectionTo { client: c, clock: k, blocks: cl[c].inner@, last: block_idx(cl[c].inner@, k - 1) }
}

pub open spec fn sections_to(cl: Map<ClientID, ClientBlockList>, d: Seq<(ClientID, u32)>) -> Seq<SectionTo> {
    Seq::new(d.len(), |i: int| section_to_of(cl, d[i].0, d[i].1))
}

/// number of blocks, client, first clock 0
pub open spec fn emit_to_head(l: Seq<Tok>, e: SectionTo) -> Seq<Tok> {
    l.push(Tok::Var(e.last + 1)).push(Tok::Client(e.client)).push(Tok::Var(0))
}

/// ... the blocks 0 .. last-1 whole, the last one without the clocks from `clock` on
pub open spec fn emit_section_to(l: Seq<Tok>, e: SectionTo) -> Seq<Tok> {
    emit_rest(emit_to_head(l, e), e.blocks, 0, e.last) + block_tokens_to(e.blocks[e.last], (e.blocks[e.last].next() - e.clock) as u32)
}

pub open spec fn emit_sections_to(l: Seq<Tok>, es: Seq<SectionTo>, n: int) -> Seq<Tok>
    decreases n,
{
    if n <= 0 { l } else { emit_section_to(emit_sections_to(l, es, n - 1), es[n - 1]) }
}

/// everything `write_blocks_to` appends
pub open spec fn emit_all_to(l: Seq<Tok>, es: Seq<SectionTo>) -> Seq<Tok> {
    emit_sections_to(l.push(Tok::Var(es.len() as int)), es, es.len() as int)
}

/// a listed client: its clamped clock lies in (0, first_gap], so `clock - 1` lies in the list, below the first gap
pub proof fn lemma_section_to_in_list(cl: Map<ClientID, ClientBlockList>, snap: Map<ClientID, u32>, c: ClientID, k: u32)
    requires
        lists_wf(cl),
        lists_from_zero(cl),
        snap_has(cl, snap, c, k),
    ensures
        cl.contains_key(c),
        0 < k <= first_gap(cl[c].inner@) <= list_clock(cl[c].inner@),
        in_list(cl[c].inner@, k - 1),
{
    lemma_first_gap_meaning(cl[c].inner@);
}

/// clock `k` is written by the section `e`
pub open spec fn section_to_sends(e: SectionTo, k: int) -> bool {
    exists|j: int| 0 <= j <= e.last && (#[trigger] e.blocks[j]).start() <= k < e.blocks[j].next() && k < e.clock
}

/// `write_blocks_to`, read over the clocks.  For a listed client with the clamped snapshot clock k: the section writes EXACTLY
/// the clocks 0 .. k-1 (every id below the clamped snapshot clock, nothing at or above), all of them integrated: no Skip block
/// is written (k <= first gap); the reader, which starts at clock 0 and adds the lengths, re-derives every block's start.
pub proof fn lemma_section_to_exact(cl: Map<ClientID, ClientBlockList>, snap: Map<ClientID, u32>, c: ClientID, k: u32)
    requires
        lists_wf(cl),
        lists_from_zero(cl),
        snap_has(cl, snap, c, k),
    ensures
        cl.contains_key(c),
        ({
            let e = section_to_of(cl, c, k);
            &&& 0 <= e.last < e.blocks.len()
            &&& e.blocks[e.last].start() <= k - 1 < e.blocks[e.last].next()
            &&& forall|kk: int| #![trigger section_to_sends(e, kk)] section_to_sends(e, kk) <==> 0 <= kk < k
            &&& forall|kk: int| 0 <= kk < k ==> #[trigger] carried(e.blocks, kk)
            &&& forall|j: int| 0 <= j <= e.last ==> !(#[trigger] e.blocks[j]).skip()
        }),
{
    lemma_section_to_in_list(cl, snap, c, k);
    let e = section_to_of(cl, c, k);
    let s = e.blocks;
    assert(list_wf(s));
    lemma_list_sorted(s);
    lemma_first_gap_meaning(s);
    lemma_covered(s, s.len() - 1, k - 1);
    let last = e.last;
    assert(0 <= last < s.len() && s[last].start() <= k - 1 < s[last].next());
    assert forall|kk: int| #![trigger section_to_sends(e, kk)] section_to_sends(e, kk) <==> 0 <= kk < k by {
        if section_to_sends(e, kk) {
            let j = choose|j: int| 0 <= j <= e.last && (#[trigger] e.blocks[j]).start() <= kk < e.blocks[j].next() && kk < e.clock;
            assert(s[0].start() <= s[j].start());
        }
        if 0 <= kk < k {
            lemma_covered(s, last, kk);
            let j = choose|j: int| 0 <= j <= last && (#[trigger] s[j]).start() <= kk < s[j].next();
            assert(0 <= j <= e.last && e.blocks[j].start() <= kk < e.blocks[j].next() && kk < e.clock);
        }
    }
    assert forall|j: int| 0 <= j <= e.last implies !(#[trigger] e.blocks[j]).skip() by {
        if s[j].skip() {
            assert(s[j].ok());
            assert(s[j].start() <= s[last].start());
            assert(carried(s, s[j].start()));
            let i = choose|i: int| 0 <= i < s.len() && !(#[trigger] s[i]).skip() && s[i].start() <= s[j].start() < s[i].next();
            lemma_block_of(s, s[j].start(), i, j);
        }
    }
}

impl Store {
    // `for (&client_id, &clock) in sv.iter()` is spelled with the two bindings copied out (Verus has no reference patterns);
    // `blocks[i]` / `&blocks[last_idx]` (impl Index) are inlined to `blocks.inner[..]` (accessor body checked).
    // DOMAIN RESTRICTION: `blocks.clock() + 1` is unchecked u32 addition: a client whose clock is u32::MAX overflows it.
    /*@extract yrs/src/store.rs | impl Store | fn write_blocks_to | label=Store.write_blocks_to | skip=R6 | rules=INLINE(file=yrs/src/block_store.rs;;container=impl Index<usize> for ClientBlockList;;fn=index;;body=unsafe { &*self.inner[index].get() };;call=blocks[i];;to=blocks.inner[i]) INLINE(file=yrs/src/block_store.rs;;container=impl Index<usize> for ClientBlockList;;fn=index;;body=unsafe { &*self.inner[index].get() };;call=&blocks[last_idx];;to=&blocks.inner[last_idx])
    @sig
        requires
            self.blocks.wf(),
            items_ok(self.blocks.clients@),
            lists_from_zero(self.blocks.clients@),
            forall|c: ClientID| #[trigger] self.blocks.clients@.contains_key(c) ==> list_clock(self.blocks.clients@[c].inner@) < u32::MAX,
        ensures
            exists|d: Seq<(ClientID, u32)>| snap_listing(d, self.blocks.clients@, sv@)
                && final(encoder).log() == emit_all_to(old(encoder).log(), sections_to(self.blocks.clients@, d)),
    @after 1 `stmt:let diff`
        let ghost cl = self.blocks.clients@;
        let ghost snap = sv@;
        let ghost mut vx_seen = Set::<ClientID>::empty();
        proof {
            assert(local_sv@ =~= store_sv(cl));
            assert(diff@ =~= Seq::<(ClientID, u32)>::empty());
        }
    @loop 1 iter=it
        invariant
            cl == self.blocks.clients@,
            snap == sv@,
            local_sv@ == store_sv(cl),
            lists_wf(cl),
            hiter_of(it.snapshot@.remaining(), snap),
            0 <= it.index@ <= it.snapshot@.remaining().len(),
            forall|c: ClientID| vx_seen.contains(c) <==> visited(it.snapshot@.remaining(), it.index@ as int, c),
            snap_inv(diff@, cl, snap, vx_seen),
    @loopstart 1
        let ghost n = it.index@ as int;
        let ghost d_before = diff@;
        let ghost rem = it.snapshot@.remaining();
        proof {
            assert(*rem[n].0 == *vx_c && *rem[n].1 == *vx_k);
            assert(snap.contains_key(*vx_c) && snap[*vx_c] == *vx_k);
            if vx_seen.contains(*vx_c) {
                let j = choose|j: int| 0 <= j < n && *(#[trigger] rem[j]).0 == *vx_c;
                assert(snap[*rem[j].0] == *rem[j].1 && snap[*rem[n].0] == *rem[n].1);
                assert(rem[j] == rem[n]);
            }
            assert(!vx_seen.contains(*vx_c));
        }
    @loopend 1
        proof {
            let c = *vx_c;
            if cl.contains_key(c) {
                lemma_first_gap_meaning(cl[c].inner@);
            }
            if diff@ == d_before {
                if forall|k: u32| !snap_has(cl, snap, c, k) {
                    lemma_snap_skip(d_before, cl, snap, vx_seen, c);
                }
            } else {
                let k = min_u32(snap[c], first_gap(cl[c].inner@) as u32);
                if diff@ == d_before.push((c, k)) && snap_has(cl, snap, c, k) {
                    lemma_snap_push(d_before, cl, snap, vx_seen, c, k);
                }
            }
            let seen2 = vx_seen.insert(c);
            assert forall|x: ClientID| seen2.contains(x) <==> visited(rem, n + 1, x) by {
                lemma_visited_step(rem, n, x);
            }
            vx_seen = seen2;
        }
    @before 1 `stmt:call vx_sort_by_client_desc`
        let ghost d0 = diff@;
        proof {
            assert(forall|c: ClientID| snap.contains_key(c) ==> vx_seen.contains(c));
        }
    @after 1 `stmt:call vx_sort_by_client_desc`
        let ghost d = diff@;
        let ghost es = sections_to(cl, d);
        proof {
            lemma_sorted_perm(d0, d);
            assert forall|c: ClientID, k: u32| #[trigger] d.contains((c, k)) <==> snap_has(cl, snap, c, k) by {
                assert(d.contains((c, k)) <==> d0.contains((c, k)));
            }
            assert(snap_listing(d, cl, snap));
        }
    @after 1 `stmt:call write_var`
        let ghost l1 = encoder.log();
    @loop 2 iter=it
        invariant
            it.seq() == d,
            es == sections_to(cl, d),
            cl == self.blocks.clients@,
            self.blocks.wf(),
            items_ok(cl),
            lists_from_zero(cl),
            forall|c: ClientID| #[trigger] cl.contains_key(c) ==> list_clock(cl[c].inner@) < u32::MAX,
            snap_listing(d, cl, snap),
            encoder.log() == emit_sections_to(l1, es, it.index@ as int),
    @loopstart 2
        let ghost n = it.index@ as int;
        let ghost e = es[n];
        let ghost lb = encoder.log();
        let ghost bs = cl[client].inner@;
        proof {
            assert(d[n] == (client, clock));
            assert(d.contains((client, clock)));
            lemma_section_to_in_list(cl, snap, client, clock);
            assert(list_wf(bs));
            assert(e == section_to_of(cl, client, clock));
        }
    @after 1 `stmt:let last_idx`
        proof {
            axiom_block_vec_len_bound(&blocks.inner);
            lemma_block_of(bs, e.clock - 1, last_idx as int, block_idx(bs, e.clock - 1));
            assert(bs[last_idx as int].ok());
        }
    @before 3 `stmt:for`
        let ghost l2 = encoder.log();
    @loop 3 iter=it2
        invariant
            i - it2.index@ + it2.seq().len() == last_idx,
            last_idx < bs.len(),
            bs == blocks.inner@,
            list_wf(bs),
            cl.contains_key(client) && bs == cl[client].inner@,
            items_ok(cl),
            // whatever the first index of the loop is: the blocks from there up to i have been written whole
            encoder.log() == emit_rest(l2, bs, i - it2.index@, i as int),
    @loopstart 3
        proof {
            assert(bs[i as int].ok());
            assert(slice_of(&blocks.inner[i as int]) == slice_from(&blocks.inner[i as int], 0));
            assert(block_encodable(bs[i as int], 0));
        }
    @before 1 `stmt:call encode ~ slice.encode`
        proof {
            assert(block_encodable(*last_block, (last_block.next() - e.clock) as u32));
        }
    @*/
}

// Two STEPS of `write_blocks_to` once more, each lifted on its own (R18 statement regions; same source text).
//   step 1: what is listed for one client of the snapshot: the clamped clock, unless it is 0 or the client is unknown
/*@extract yrs/src/store.rs | impl Store | region write_blocks_to | stmt=stmt:if | label=write_blocks_to_entry
@header
    fn write_blocks_to_entry(local_sv: &StateVector, diff: &mut Vec<(ClientID, u32)>, client_id: ClientID, clock: u32)
@sig
    ensures
        local_sv@.contains_key(client_id) && min_u32(clock, local_sv@[client_id]) > 0
            ==> final(diff)@ == old(diff)@.push((client_id, min_u32(clock, local_sv@[client_id]))),
        !(local_sv@.contains_key(client_id) && min_u32(clock, local_sv@[client_id]) > 0) ==> final(diff)@ == old(diff)@,
@*/

//   step 2: one client section (the body of the writing loop)
/*@extract yrs/src/store.rs | impl Store | region write_blocks_to | stmt=stmt:let blocks | upto=stmt:call encode | uptonth=2 | label=write_blocks_to_section | rules=SUB(from=self.blocks;;to=this.blocks) INLINE(file=yrs/src/block_store.rs;;container=impl Index<usize> for ClientBlockList;;fn=index;;body=unsafe { &*self.inner[index].get() };;call=blocks[i];;to=blocks.inner[i]) INLINE(file=yrs/src/block_store.rs;;container=impl Index<usize> for ClientBlockList;;fn=index;;body=unsafe { &*self.inner[index].get() };;call=&blocks[last_idx];;to=&blocks.inner[last_idx])
@header
    fn write_blocks_to_section<E: Encoder>(this: &Store, encoder: &mut E, client: ClientID, clock: u32)
@sig
    requires
        lists_wf(this.blocks.clients@),
        items_ok(this.blocks.clients@),
        this.blocks.clients@.contains_key(client),
        list_clock(this.blocks.clients@[client].inner@) < u32::MAX,
        // (what the listing guarantees, `lemma_section_to_in_list`)
        0 < clock <= list_clock(this.blocks.clients@[client].inner@),
        in_list(this.blocks.clients@[client].inner@, clock - 1),
    ensures
        final(encoder).log() == emit_section_to(old(encoder).log(), section_to_of(this.blocks.clients@, client, clock)),
@start
    let ghost cl = this.blocks.clients@;
    let ghost e = section_to_of(cl, client, clock);
    let ghost bs = cl[client].inner@;
    proof {
        assert(list_wf(bs));
    }
@after 1 `stmt:let last_idx`
    proof {
        axiom_block_vec_len_bound(&blocks.inner);
        lemma_block_of(bs, e.clock - 1, last_idx as int, block_idx(bs, e.clock - 1));
        assert(bs[last_idx as int].ok());
    }
@before 1 `stmt:for`
    let ghost l2 = encoder.log();
@loop 1 iter=it2
    invariant
        i - it2.index@ + it2.seq().len() == last_idx,
        last_idx < bs.len(),
        bs == blocks.inner@,
        list_wf(bs),
        cl.contains_key(client) && bs == cl[client].inner@,
        items_ok(cl),
        // whatever the first index of the loop is: the blocks from there up to i have been written whole
        encoder.log() == emit_rest(l2, bs, i - it2.index@, i as int),
@loopstart 1
    proof {
        assert(bs[i as int].ok());
        assert(slice_of(&blocks.inner[i as int]) == slice_from(&blocks.inner[i as int], 0));
        assert(block_encodable(bs[i as int], 0));
    }
@before 1 `stmt:call encode ~ slice.encode`
    proof {
        assert(block_encodable(*last_block, (last_block.next() - e.clock) as u32));
    }
@*/

// ---------------------------------------------------------------------------------------------
// known_state
// ---------------------------------------------------------------------------------------------
/*@extract yrs/src/update.rs | - | struct BlockSet @*/

impl<T> Default for IdRanges<T> {
    /*@extract yrs/src/ids.rs | impl<T> Default for IdRanges<T> | fn default | label=IdRanges.default
    @ret r
    @sig
        ensures r@ == Seq::<Ent<T>>::empty(),
    @*/
}

impl<T: Merge> IdRanges<T> {
    // proved in unit ids_insert (callee of the stub IdRanges<()>::insert only)
    #[verifier::external_body]
    /*@extract yrs/src/ids.rs | impl<T: Merge> IdRanges<T> | fn insert_with | label=IdRanges.insert_with
    @sig
        requires canon(old(self)@), value.wf(),
        ensures
            canon(final(self)@),
            forall|c: int| #![trigger covers(final(self)@, c)] #![trigger covers(old(self)@, c)] #![trigger inr(range, c)] covers(final(self)@, c) <==> covers(old(self)@, c) || inr(range, c),
            forall|c: int| covers(old(self)@, c) && !inr(range, c) ==> #[trigger] val_at(final(self)@, c).eq_spec(&val_at(old(self)@, c)),
            forall|c: int| !covers(old(self)@, c) && inr(range, c) ==> #[trigger] val_at(final(self)@, c).eq_spec(&value),
            forall|c: int| covers(old(self)@, c) && inr(range, c) ==> #[trigger] val_at(final(self)@, c).eq_spec(&val_at(old(self)@, c).merge_spec(&value)),
    @*/
}

impl IdRanges<()> {
    // proved in unit ids_insert (callee of the stub IdSet::insert only)
    #[verifier::external_body]
    /*@extract yrs/src/ids.rs | impl IdRanges<()> | fn insert | label=IdRanges.insert
    @sig
        requires canon(old(self)@),
        ensures
            canon(final(self)@),
            forall|c: int| #![trigger covers(final(self)@, c)] #![trigger covers(old(self)@, c)] #![trigger inr(range, c)] covers(final(self)@, c) <==> covers(old(self)@, c) || inr(range, c),
    @*/
}

impl<T: Merge> Default for IdMapInner<T> {
    /*@extract yrs/src/ids.rs | impl<T: Merge> Default for IdMapInner<T> | fn default | label=IdMapInner.default
    @ret r
    @sig
        ensures r@ == Map::<ClientID, Seq<Ent<T>>>::empty(), wf_map(r@),
    @start
        proof { assert(lift(Map::<ClientID, IdRanges<T>>::empty()) =~= Map::<ClientID, Seq<Ent<T>>>::empty()); }
    @*/
}

impl<T: Merge> IdMapInner<T> {
    /*@extract yrs/src/ids.rs | impl<T: Merge> IdMapInner<T> | fn get | label=IdMapInner.get
    @ret r
    @sig
        ensures
            r.is_some() == self@.contains_key(*client_id),
            r.is_some() ==> r.unwrap()@ == self@[*client_id],
    @start
        proof { axiom_client_id_ord_model(); lemma_lift_basics(self.0@); }
    @*/
}

/// `#[derive(Default)]` of IdSet, written out
impl Default for IdSet {
    fn default() -> (r: Self)
        ensures r@ == Map::<ClientID, Seq<Ent<()>>>::empty(), wf_map(r@),
    {
        IdSet(IdMapInner::default())
    }
}

impl IdSet {
    /*@extract yrs/src/id_set.rs | impl IdSet | fn get | label=IdSet.get
    @ret r
    @sig
        ensures
            r.is_some() == self@.contains_key(*client_id),
            r.is_some() ==> r.unwrap()@ == self@[*client_id],
    @*/

    // proved in unit ids_lift
    #[verifier::external_body]
    /*@extract yrs/src/id_set.rs | impl IdSet | fn insert | label=IdSet.insert | rules=SUB(from=.entry(id.client);;to=.0.entry(id.client))
    @sig
        requires
            wf_map(old(self)@),
            // domain restriction: the block [clock, clock + len) lies in the u32 clock space
            id.clock + len <= u32::MAX,
        ensures
            // includes "no empty entry is stored" also for len == 0 (defect F-L2, repaired in /repo: early return)
            wf_map(final(self)@),
            same_except(final(self)@, old(self)@, id.client),
            forall|c: ClientID, k: int| #![trigger has_pt(final(self)@, c, k)] #![trigger has_pt(old(self)@, c, k)]
                has_pt(final(self)@, c, k) <==> has_pt(old(self)@, c, k) || (c == id.client && in_block(id.clock, len, k)),
    @*/
}

/// the ranges `0 .. n` of the sequence cover clock `k`
pub open spec fn covers_upto(rg: Seq<Ent<()>>, n: int, k: int) -> bool {
    exists|i: int| 0 <= i < n && i < rg.len() && #[trigger] inr(rg[i].0, k)
}

pub proof fn lemma_covers_upto_step(rg: Seq<Ent<()>>, n: int, k: int)
    requires
        0 <= n < rg.len(),
    ensures
        covers_upto(rg, n + 1, k) <==> covers_upto(rg, n, k) || inr(rg[n].0, k),
{
    if covers_upto(rg, n + 1, k) {
        let i = choose|i: int| 0 <= i < n + 1 && i < rg.len() && #[trigger] inr(rg[i].0, k);
        if i < n { assert(0 <= i < n && inr(rg[i].0, k)); }
    }
    if covers_upto(rg, n, k) {
        let i = choose|i: int| 0 <= i < n && i < rg.len() && #[trigger] inr(rg[i].0, k);
        assert(0 <= i < n + 1 && inr(rg[i].0, k));
    }
    if inr(rg[n].0, k) { assert(0 <= n < n + 1 && inr(rg[n].0, k)); }
}

/// what `known_state` holds for client `c`: every clock below the client's clock that is not a skip point
pub open spec fn known_pt(cl: Map<ClientID, ClientBlockList>, sk: Map<ClientID, Seq<Ent<()>>>, c: ClientID, k: int) -> bool {
    cl.contains_key(c) && 0 <= k < list_clock(cl[c].inner@) && !has_pt(sk, c, k)
}

impl BlockStore {
    /*@extract yrs/src/block_store.rs | impl BlockStore | fn known_state | label=BlockStore.known_state | skip=R6 | rules=INLINE(file=yrs/src/ids.rs;;container=impl<T: Merge> IdRanges<T>;;fn=iter;;body=self.0.iter();;call=skips.iter();;to=skips.0.iter())
    @ret r
    @sig
        requires
            self.wf(),
        ensures
            wf_map(r@),
            // for the clients `ss` mentions: the ids below the store's clock that are not skip points
            forall|c: ClientID, k: int| #![trigger has_pt(r@, c, k)] has_pt(r@, c, k) <==> ss.clients@.contains_key(c) && known_pt(self.clients@, self.skips@, c, k),
    @after 1 `stmt:let known_state`
        let ghost cl = self.clients@;
        let ghost sk = self.skips@;
        let ghost u = ss.clients@;
        let ghost mut vx_seen = Set::<ClientID>::empty();
    @loop 1 iter=it
        invariant
            cl == self.clients@,
            sk == self.skips@,
            u == ss.clients@,
            self.wf(),
            hiter_of(it.snapshot@.remaining(), u),
            0 <= it.index@ <= it.snapshot@.remaining().len(),
            forall|c: ClientID| vx_seen.contains(c) <==> visited(it.snapshot@.remaining(), it.index@ as int, c),
            wf_map(known_state@),
            forall|c: ClientID, k: int| #![trigger has_pt(known_state@, c, k)] has_pt(known_state@, c, k) <==> vx_seen.contains(c) && known_pt(cl, sk, c, k),
    @loopstart 1
        let ghost n = it.index@ as int;
        let ghost ks0 = known_state@;
        let ghost seen2 = vx_seen.insert(*client);
        proof {
            assert(*it.snapshot@.remaining()[n].0 == *client);
            assert forall|c: ClientID| seen2.contains(c) <==> visited(it.snapshot@.remaining(), n + 1, c) by {
                lemma_visited_step(it.snapshot@.remaining(), n, c);
            }
            // keys are distinct: the client has not been looked at before
            if vx_seen.contains(*client) {
                let j = choose|j: int| 0 <= j < n && *(#[trigger] it.snapshot@.remaining()[j]).0 == *client;
                assert(u[*it.snapshot@.remaining()[j].0] == *it.snapshot@.remaining()[j].1 && u[*it.snapshot@.remaining()[n].0] == *it.snapshot@.remaining()[n].1);
                assert(it.snapshot@.remaining()[j] == it.snapshot@.remaining()[n]);
            }
            assert(!vx_seen.contains(*client));
            assert(forall|k: int| !has_pt(ks0, *client, k));
        }
    @after 1 `stmt:call insert`
        let ghost ks1 = known_state@;
        let ghost top = list_clock(cl[*client].inner@);
        proof {
            assert(list_wf(cl[*client].inner@));
            assert(forall|k: int| #[trigger] in_block(0, top as u32, k) <==> 0 <= k < top);
        }
    @before 2 `stmt:for`
        let ghost rg = skips@;
        proof {
            assert(canon(rg));
        }
    @loop 2 iter=it2
        invariant
            it2.seq().len() == rg.len(),
            forall|j: int| 0 <= j < rg.len() ==> *(#[trigger] it2.seq()[j]) == rg[j],
            canon(rg),
            wf_map(known_state@),
            same_except(known_state@, ks1, *client),
            forall|k: int| #![trigger has_pt(known_state@, *client, k)] has_pt(known_state@, *client, k) <==> has_pt(ks1, *client, k) && !covers_upto(rg, it2.index@ as int, k),
    @loopstart 2
        let ghost j = it2.index@ as int;
        let ghost ks2 = known_state@;
        proof {
            assert(*it2.seq()[j] == rg[j]);
            assert(rg[j].0.start < rg[j].0.end);
        }
    @loopend 2
        proof {
            assert forall|k: int| #![trigger has_pt(known_state@, *client, k)] has_pt(known_state@, *client, k) <==> has_pt(ks1, *client, k) && !covers_upto(rg, j + 1, k) by {
                lemma_covers_upto_step(rg, j, k);
                assert(in_block(skip.start, (skip.end - skip.start) as u32, k) <==> inr(rg[j].0, k));
                assert(has_pt(known_state@, *client, k) <==> has_pt(ks2, *client, k) && !(in_block(skip.start, (skip.end - skip.start) as u32, k)));
            }
            assert forall|c: ClientID| c != *client implies (#[trigger] known_state@.contains_key(c) == ks1.contains_key(c)) && (known_state@.contains_key(c) ==> known_state@[c] == ks1[c]) by {
                assert(known_state@.contains_key(c) == ks2.contains_key(c));
                assert(ks2.contains_key(c) == ks1.contains_key(c));
            }
        }
    @loopend 1
        proof {
            assert forall|c: ClientID, k: int| #![trigger has_pt(known_state@, c, k)] has_pt(known_state@, c, k) <==> seen2.contains(c) && known_pt(cl, sk, c, k) by {
                if c != *client {
                    // untouched by this round
                    assert(known_state@.contains_key(c) == ks0.contains_key(c));
                    if ks0.contains_key(c) { assert(known_state@[c] == ks0[c]); }
                    assert(has_pt(known_state@, c, k) <==> has_pt(ks0, c, k));
                } else if cl.contains_key(c) {
                    let top = list_clock(cl[c].inner@);
                    assert(in_block(0, top as u32, k) <==> 0 <= k < top);
                    if sk.contains_key(c) {
                        let rg = sk[c];
                        assert(covers_upto(rg, rg.len() as int, k) <==> covers(rg, k)) by {
                            if covers_upto(rg, rg.len() as int, k) {
                                let i = choose|i: int| 0 <= i < rg.len() && i < rg.len() && #[trigger] inr(rg[i].0, k);
                                assert(inr(rg[i].0, k));
                            }
                            if covers(rg, k) {
                                let i = idx_of(rg, k);
                                assert(0 <= i < rg.len() && inr(rg[i].0, k));
                            }
                        }
                    }
                }
            }
            vx_seen = seen2;
        }
    @before 1 `stmt:expr known_state`
        proof {
            assert(forall|c: ClientID| u.contains_key(c) ==> vx_seen.contains(c));
            assert forall|c: ClientID| vx_seen.contains(c) implies u.contains_key(c) by {}
        }
    @*/
}

// Two STEPS of `known_state` once more, each lifted on its own (R18 statement regions; same source text).
//   step 1: what is done for one client of `ss` (everything below the store's clock, minus the skip ranges)
/*@extract yrs/src/block_store.rs | impl BlockStore | region known_state | stmt=stmt:if | label=known_state_client | skip=R6 | rules=SUB(from=self.;;to=this.) INLINE(file=yrs/src/ids.rs;;container=impl<T: Merge> IdRanges<T>;;fn=iter;;body=self.0.iter();;call=skips.iter();;to=skips.0.iter())
@header
    fn known_state_client(this: &BlockStore, known_state: &mut IdSet, client: &ClientID)
@sig
    requires
        this.wf(),
        wf_map(old(known_state)@),
        forall|k: int| !has_pt(old(known_state)@, *client, k),
    ensures
        wf_map(final(known_state)@),
        same_except(final(known_state)@, old(known_state)@, *client),
        forall|k: int| #![trigger has_pt(final(known_state)@, *client, k)] has_pt(final(known_state)@, *client, k) <==> known_pt(this.clients@, this.skips@, *client, k),
@start
    let ghost cl = this.clients@;
    let ghost sk = this.skips@;
    let ghost ks0 = known_state@;
@after 1 `stmt:call insert`
    let ghost ks1 = known_state@;
    let ghost top = list_clock(cl[*client].inner@);
    proof {
        assert(list_wf(cl[*client].inner@));
        assert(forall|k: int| #[trigger] in_block(0, top as u32, k) <==> 0 <= k < top);
    }
@before 1 `stmt:for`
    let ghost rg = skips@;
    proof {
        assert(canon(rg));
    }
@loop 1 iter=it2
    invariant
        it2.seq().len() == rg.len(),
        forall|j: int| 0 <= j < rg.len() ==> *(#[trigger] it2.seq()[j]) == rg[j],
        canon(rg),
        wf_map(known_state@),
        same_except(known_state@, ks1, *client),
        forall|k: int| #![trigger has_pt(known_state@, *client, k)] has_pt(known_state@, *client, k) <==> has_pt(ks1, *client, k) && !covers_upto(rg, it2.index@ as int, k),
@loopstart 1
    let ghost j = it2.index@ as int;
    let ghost ks2 = known_state@;
    proof {
        assert(*it2.seq()[j] == rg[j]);
        assert(rg[j].0.start < rg[j].0.end);
    }
@loopend 1
    proof {
        assert forall|k: int| #![trigger has_pt(known_state@, *client, k)] has_pt(known_state@, *client, k) <==> has_pt(ks1, *client, k) && !covers_upto(rg, j + 1, k) by {
            lemma_covers_upto_step(rg, j, k);
            assert(in_block(skip.start, (skip.end - skip.start) as u32, k) <==> inr(rg[j].0, k));
            assert(has_pt(known_state@, *client, k) <==> has_pt(ks2, *client, k) && !(in_block(skip.start, (skip.end - skip.start) as u32, k)));
        }
        assert forall|c: ClientID| c != *client implies (#[trigger] known_state@.contains_key(c) == ks1.contains_key(c)) && (known_state@.contains_key(c) ==> known_state@[c] == ks1[c]) by {
            assert(known_state@.contains_key(c) == ks2.contains_key(c));
            assert(ks2.contains_key(c) == ks1.contains_key(c));
        }
    }
@end
    proof {
        // (facts about the views only: they cannot fail, whatever the code does)
        if cl.contains_key(*client) {
            let top = list_clock(cl[*client].inner@);
            assert(forall|k: int| #[trigger] in_block(0, top as u32, k) <==> 0 <= k < top);
            if sk.contains_key(*client) {
                let rg = sk[*client];
                assert forall|k: int| #[trigger] covers_upto(rg, rg.len() as int, k) <==> covers(rg, k) by {
                    if covers_upto(rg, rg.len() as int, k) {
                        let i = choose|i: int| 0 <= i < rg.len() && i < rg.len() && #[trigger] inr(rg[i].0, k);
                        assert(inr(rg[i].0, k));
                    }
                    if covers(rg, k) {
                        let i = idx_of(rg, k);
                        assert(0 <= i < rg.len() && inr(rg[i].0, k));
                    }
                }
            }
        }
    }
@*/

//   step 2: one skip range is taken out again
/*@extract yrs/src/block_store.rs | impl BlockStore | region known_state | stmt=stmt:call remove_range | label=known_state_remove_skip
@header
    fn known_state_remove_skip(known_state: &mut IdSet, client: &ClientID, skip: &Range<u32>)
@sig
    requires
        wf_map(old(known_state)@),
        skip.start < skip.end,
    ensures
        wf_map(final(known_state)@),
        same_except(final(known_state)@, old(known_state)@, *client),
        forall|c: ClientID, k: int| #![trigger has_pt(final(known_state)@, c, k)] #![trigger has_pt(old(known_state)@, c, k)]
            has_pt(final(known_state)@, c, k) <==> has_pt(old(known_state)@, c, k) && !(c == *client && inr(*skip, k)),
@end
    proof {
        assert forall|k: int| #[trigger] in_block(skip.start, (skip.end - skip.start) as u32, k) <==> inr(*skip, k) by {}
    }
@*/

// ---------------------------------------------------------------------------------------------
// what the contracts mean (pure lemmas over the views)
// ---------------------------------------------------------------------------------------------
/// in a well-formed list a clock is INTEGRATED (lies in a non-Skip block) iff it lies in the list and is not a Skip clock
pub proof fn lemma_carried_iff(s: Seq<Block>, k: int)
    requires
        list_wf(s),
    ensures
        carried(s, k) <==> in_list(s, k) && !skip_covers(s, k),
        skip_covers(s, k) ==> in_list(s, k),
{
    lemma_list_sorted(s);
    if carried(s, k) {
        let i = choose|i: int| 0 <= i < s.len() && !(#[trigger] s[i]).skip() && s[i].start() <= k < s[i].next();
        assert(s[0].start() <= s[i].start() && s[i].next() <= s.last().next());
        if skip_covers(s, k) {
            let j = choose|j: int| 0 <= j < s.len() && (#[trigger] s[j]).skip() && s[j].start() <= k < s[j].next();
            lemma_block_of(s, k, i, j);
        }
    }
    if skip_covers(s, k) {
        let j = choose|j: int| 0 <= j < s.len() && (#[trigger] s[j]).skip() && s[j].start() <= k < s[j].next();
        assert(s[0].start() <= s[j].start() && s[j].next() <= s.last().next());
    }
    if in_list(s, k) && !skip_covers(s, k) {
        lemma_covered(s, s.len() - 1, k);
        let i = choose|i: int| 0 <= i <= s.len() - 1 && (#[trigger] s[i]).start() <= k < s[i].next();
        assert(!s[i].skip());
    }
}

/// `is_missing` / `contains` / `known_state`, read over the blocks: in a well-formed store whose list of `id.client` starts at
/// clock 0 (every list does: local clocks start at 0 and `Update::integrate` fills holes with Skip blocks), an id is NOT
/// missing iff it is integrated, and `known_state` holds exactly the integrated ids
pub proof fn lemma_missing_meaning(st: &BlockStore, c: ClientID, k: int)
    requires
        st.wf(),
        0 <= k,
        st.clients@.contains_key(c) ==> st.clients@[c].inner@[0].start() == 0,
    ensures
        !(k >= st.spec_clock(c) || has_pt(st.skips@, c, k)) <==> carried(blocks_of(st.clients@, c), k),
        known_pt(st.clients@, st.skips@, c, k) <==> carried(blocks_of(st.clients@, c), k),
{
    let s = blocks_of(st.clients@, c);
    assert(has_pt(st.skips@, c, k) <==> skip_covers(s, k));
    if st.clients@.contains_key(c) {
        lemma_carried_iff(s, k);
    } else {
        if carried(s, k) {
            let i = choose|i: int| 0 <= i < s.len() && !(#[trigger] s[i]).skip() && s[i].start() <= k < s[i].next();
        }
    }
}

/// `push`, read over the clocks: the clocks of a pushed non-Skip block become integrated, the clocks of a pushed Skip block
/// become Skip clocks, every other clock keeps its status; the clock of the list moves only when the block is appended
pub proof fn lemma_push_meaning(s: Seq<Block>, b: Block, c: ClientID)
    requires
        s.len() > 0 ==> list_wf(s),
        list_client(s, c),
        b.spec_client() == c,
        push_pre(s, b),
    ensures
        list_wf(push_list(s, b)),
        list_client(push_list(s, b), c),
        list_clock(push_list(s, b)) == (if appends(s, b) { b.next() } else { list_clock(s) }),
        forall|k: int| #![trigger carried(push_list(s, b), k)] carried(push_list(s, b), k) <==> carried(s, k) || (!b.skip() && b.start() <= k < b.next()),
        forall|k: int| #![trigger skip_covers(push_list(s, b), k)] skip_covers(push_list(s, b), k) <==> (skip_covers(s, k) && (b.skip() || !(b.start() <= k < b.next()))) || (b.skip() && b.start() <= k < b.next()),
{
    if appends(s, b) {
        lemma_append(s, b, c);
        // a block that continues the list lies beyond every clock of the list
        assert forall|k: int| skip_covers(s, k) && b.start() <= k < b.next() implies false by {
            lemma_carried_iff(s, k);
        }
    } else {
        lemma_fits_in_list(s, b);
        let i = block_idx(s, b.start());
        lemma_covered(s, s.len() - 1, b.start());
        lemma_fits_idx(s, b, i);
        lemma_split_shape(s, i, b);
        let dl: int = if b.start() > s[i].start() { 1 } else { 0 };
        let dr: int = if s[i].next() > b.next() { 1 } else { 0 };
        lemma_split(s, i, b, c, split_skip(s, i, b), dl, dr);
    }
}

/// clock `k` is written (as a clock of a non-Skip block) by the section `e`
pub open spec fn section_sends(e: Section, k: int) -> bool {
    exists|j: int| e.start <= j < e.blocks.len() && !(#[trigger] e.blocks[j]).skip() && e.blocks[j].start() <= k < e.blocks[j].next() && e.clock <= k
}

/// the clock the READER attributes to block `j` of a section: the section's clock header plus the lengths written so far
/// (`Update::decode`: `clock += block.len()`)
pub open spec fn reader_clock(e: Section, j: int) -> int
    decreases j - e.start,
{
    if j <= e.start {
        e.clock as int
    } else if j == e.start + 1 {
        e.blocks[e.start].next()
    } else {
        reader_clock(e, j - 1) + e.blocks[j - 1].blen()
    }
}

/// clock `k` is written by the section `e`, as a clock of ANY block (a Skip block travels as a Skip block)
pub open spec fn section_covers(e: Section, k: int) -> bool {
    exists|j: int| e.start <= j < e.blocks.len() && (#[trigger] e.blocks[j]).start() <= k < e.blocks[j].next() && e.clock <= k
}

/// `write_blocks_between` / `write_blocks_from`, read over the clocks.  For a client `c` that is listed with the remote clock
/// `k0` (local side `local`, e.g. the list ends):
///  (1) the section starts at max(k0, first.start), which lies in its first written block (which may be a Skip block);
///  (2) EVERY clock of the list from there to its end is written -- also the blocks behind a gap, the gap itself as a (trimmed)
///      Skip block -- and nothing below;
///  (3) in particular every integrated clock of the store at or above k0 is written (as a clock of a non-Skip block), nothing
///      below k0, nothing that is not integrated;
///  (4) the reader re-derives every block's own first clock (the first block's cut at the section clock).
pub proof fn lemma_section_exact(cl: Map<ClientID, ClientBlockList>, local: Map<ClientID, u32>, remote: Map<ClientID, u32>, c: ClientID, k0: u32)
    requires
        lists_wf(cl),
        local_ok(cl, local),
        diff_has(local, remote, c, k0),
    ensures
        cl.contains_key(c),
        ({
            let e = section_of(cl, c, k0);
            &&& 0 <= e.start < e.blocks.len()
            &&& e.blocks[e.start].start() <= e.clock < e.blocks[e.start].next()
            &&& e.clock == (if k0 > e.blocks[0].start() { k0 as int } else { e.blocks[0].start() })
            &&& forall|k: int| #![trigger section_covers(e, k)] section_covers(e, k) <==> e.clock <= k < list_clock(e.blocks)
            &&& forall|k: int| #![trigger section_sends(e, k)] section_sends(e, k) <==> carried(e.blocks, k) && k >= k0
            &&& forall|j: int| e.start < j < e.blocks.len() ==> #[trigger] reader_clock(e, j) == e.blocks[j].start()
        }),
{
    lemma_section_in_list(cl, local, remote, c, k0);
    let e = section_of(cl, c, k0);
    let s = e.blocks;
    assert(list_wf(s));
    lemma_list_sorted(s);
    lemma_covered(s, s.len() - 1, e.clock as int);
    let st = e.start;
    assert(0 <= st < s.len() && s[st].start() <= e.clock < s[st].next());
    assert forall|k: int| #![trigger section_covers(e, k)] section_covers(e, k) <==> e.clock <= k < list_clock(s) by {
        if section_covers(e, k) {
            let j = choose|j: int| e.start <= j < e.blocks.len() && (#[trigger] e.blocks[j]).start() <= k < e.blocks[j].next() && e.clock <= k;
            assert(s[j].next() <= s.last().next());
        }
        if e.clock <= k < list_clock(s) {
            lemma_covered(s, s.len() - 1, k);
            let j = choose|j: int| 0 <= j <= s.len() - 1 && (#[trigger] s[j]).start() <= k < s[j].next();
            if j < st {
                assert(s[j].next() <= s[st - 1].next());
                assert(s[st - 1].next() == s[st].start());
            }
            assert(e.start <= j < e.blocks.len() && e.blocks[j].start() <= k < e.blocks[j].next() && e.clock <= k);
        }
    }
    assert forall|k: int| #![trigger section_sends(e, k)] section_sends(e, k) <==> carried(s, k) && k >= k0 by {
        if section_sends(e, k) {
            let j = choose|j: int| e.start <= j < e.blocks.len() && !(#[trigger] e.blocks[j]).skip() && e.blocks[j].start() <= k < e.blocks[j].next() && e.clock <= k;
            assert(!s[j].skip() && s[j].start() <= k < s[j].next());
        }
        if carried(s, k) && k >= k0 {
            let j = choose|j: int| 0 <= j < s.len() && !(#[trigger] s[j]).skip() && s[j].start() <= k < s[j].next();
            assert(s[0].start() <= s[j].start());
            assert(e.clock <= k);
            if j < st {
                assert(s[j].next() <= s[st - 1].next());
                assert(s[st - 1].next() == s[st].start());
            }
            assert(e.start <= j < e.blocks.len() && !e.blocks[j].skip() && e.blocks[j].start() <= k < e.blocks[j].next() && e.clock <= k);
        }
    }
    assert forall|j: int| e.start < j < e.blocks.len() implies #[trigger] reader_clock(e, j) == e.blocks[j].start() by {
        lemma_reader_clock(e, j);
    }
}

pub proof fn lemma_reader_clock(e: Section, j: int)
    requires
        list_wf(e.blocks),
        0 <= e.start < j < e.blocks.len(),
    ensures
        reader_clock(e, j) == e.blocks[j].start(),
    decreases j - e.start,
{
    if j == e.start + 1 {
        assert(e.blocks[e.start].next() == e.blocks[j].start());
    } else {
        lemma_reader_clock(e, j - 1);
        assert(e.blocks[j - 1].next() == e.blocks[j].start());
    }
}

/// ... and as a whole, for `write_blocks_from` (local side = the list ends): a client gets a section iff the END of its list lies
/// above the remote's clock, or the remote does not list it at all -- so blocks integrated BEHIND a gap are offered too
/// (store Item[0,5) Skip[5,8) Item[8,10), remote clock 6: the section is Skip[6,8) Item[8,10)).
pub proof fn lemma_listed_iff(cl: Map<ClientID, ClientBlockList>, remote: Map<ClientID, u32>, d: Seq<(ClientID, u32)>, c: ClientID)
    requires
        lists_wf(cl),
        diff_listing(d, store_ends(cl), remote),
    ensures
        (exists|i: int| 0 <= i < d.len() && (#[trigger] d[i]).0 == c) <==>
            cl.contains_key(c) && (!remote.contains_key(c) || list_clock(cl[c].inner@) > remote[c]),
{
    let lsv = store_ends(cl);
    lemma_store_ends_ok(cl);
    if cl.contains_key(c) {
        lemma_first_gap_meaning(cl[c].inner@);
        assert(lsv[c] == list_clock(cl[c].inner@));
    }
    if exists|i: int| 0 <= i < d.len() && (#[trigger] d[i]).0 == c {
        let i = choose|i: int| 0 <= i < d.len() && (#[trigger] d[i]).0 == c;
        assert(d.contains((c, d[i].1)));
        assert(diff_has(lsv, remote, c, d[i].1));
        if !cl.contains_key(c) { assert(sv_get(lsv, c) == 0); }
    }
    if cl.contains_key(c) && (!remote.contains_key(c) || list_clock(cl[c].inner@) > remote[c]) {
        let k: u32 = if remote.contains_key(c) { remote[c] } else { 0 };
        assert(diff_has(lsv, remote, c, k));
        assert(d.contains((c, k)));
        let i = choose|i: int| 0 <= i < d.len() && d[i] == (c, k);
        assert(d[i].0 == c);
    }
}

// ---------------------------------------------------------------------------------------------
// two CALL SITES of push: TransactionMut::integrate_skip / integrate_gc (yrs/src/block.rs)
// ---------------------------------------------------------------------------------------------
/// stand-in: the three fields the two functions touch (real: `store: RwLockWriteGuard<'doc, Store>` with DerefMut, lowered to
/// the store itself; DROPPED: before_state, after_state, merge_blocks, cleanups, changed, changed_parent_types, subdocs,
/// origin, doc, local, committed, needs_cleanup)
pub struct TransactionMut {
    pub store: Store,
    pub delete_set: IdSet,
    pub insert_set: IdSet,
}

impl TransactionMut {
    // how `skips_pre` comes about: the range is inserted into `skips` first, then the Skip block is pushed.
    // Call-site argument for the preconditions: `Update::integrate` (update.rs) calls it with offset 0 and the range
    // [local_clock, id.clock) where local_clock == get_clock(client) < id.clock: not empty, and it continues the list.
    /*@extract yrs/src/block.rs | impl<'doc> TransactionMut<'doc> | fn integrate_skip | label=TransactionMut.integrate_skip
    @sig
        requires
            old(self).store.blocks.wf(),
            offset < skip.len,
            skip.clock + skip.len <= u32::MAX,
            appends(blocks_of(old(self).store.blocks.clients@, skip.client), mk_skip(skip.client, skip.clock + offset, skip.len - offset)),
        ensures
            final(self).store.blocks.wf(),
            blocks_of(final(self).store.blocks.clients@, skip.client)
                == blocks_of(old(self).store.blocks.clients@, skip.client).push(mk_skip(skip.client, skip.clock + offset, skip.len - offset)),
    @*/

    // (was FINDING F-BS2, repaired in /repo.)  `offset < gc.len` -- the trimmed range is NOT EMPTY, i.e. push's `block.ok()` -- is a
    // precondition justified by the call sites: the only caller with a block from the wire is `Update::integrate` (offset 0),
    // and `Update::decode_block` (update.rs) now returns Ok(None) for a GC / Skip block with `len == 0` ("an empty block has no
    // effect on the document store"), so no zero-length block reaches integrate_gc; `integrate_item` falls back to
    // `integrate_gc(item.range(), offset)` with an Item's range (len >= 1, offset 0).
    /*@extract yrs/src/block.rs | impl<'doc> TransactionMut<'doc> | fn integrate_gc | label=TransactionMut.integrate_gc
    @sig
        requires
            old(self).store.blocks.wf(),
            wf_map(old(self).delete_set@),
            wf_map(old(self).insert_set@),
            offset < gc.len,
            gc.clock + gc.len <= u32::MAX,
            push_pos(blocks_of(old(self).store.blocks.clients@, gc.client), Block::GC(BlockRange { client: gc.client, clock: (gc.clock + offset) as u32, len: (gc.len - offset) as u32 })),
        ensures
            final(self).store.blocks.wf(),
    @*/
}

impl BlockStore {
    // (was FINDING F-BS1, repaired in /repo: find_index is total.)  The contract is the one the doc comment promises ("Returns
    // `None` if not such block could be found") for EVERY id.
    /*@extract yrs/src/block_store.rs | impl BlockStore | fn get_block | label=BlockStore.get_block
    @ret r
    @sig
        requires
            lists_wf(self.clients@),
        ensures
            r is Some <==> in_list(blocks_of(self.clients@, id.client), id.clock as int),
            r is Some ==> r.unwrap().cell.start() <= id.clock < r.unwrap().cell.next()
                && exists|i: int| 0 <= i < blocks_of(self.clients@, id.client).len() && *r.unwrap().cell == #[trigger] blocks_of(self.clients@, id.client)[i],
    @*/
}

} // verus!
fn main() {}
