// NOTE: records the PRE-REPAIR behaviour (findings F-BS1 / F-BS2 of unit blockstore, repaired in /repo by ee1ac52, 86c3405,
// c250b7b); it has not been re-run on the repaired tree.
// Reproducer: ClientBlockList::find_index (yrs/src/block_store.rs:49) panics for out-of-range clocks.
// Only PUBLIC yrs API is used. Every case runs under catch_unwind; one binary shows all of them.
use std::panic::{catch_unwind, AssertUnwindSafe};
use yrs::types::text::YChange;
use yrs::types::weak::LinkSource;
use yrs::updates::decoder::Decode;
use yrs::updates::encoder::{Encoder, EncoderV1};
use yrs::{
    Array, ArrayPrelim, ArrayRef, Assoc, BranchID, ClientID, Doc, IdSet, Map, Nested, Options,
    Quotable, ReadTxn, Snapshot, StateVector, StickyIndex, Text, TextRef, Transact, Update, ID,
};

fn run(name: &str, f: impl FnOnce() -> String) {
    match catch_unwind(AssertUnwindSafe(f)) {
        Ok(s) => println!("[{name}] no panic -> {s}"),
        Err(e) => {
            let msg = e
                .downcast_ref::<String>()
                .cloned()
                .or_else(|| e.downcast_ref::<&str>().map(|s| s.to_string()))
                .unwrap_or_else(|| "<non-string panic>".into());
            println!("[{name}] PANIC: {msg}");
        }
    }
}

fn opts(client: u64) -> Options {
    Options {
        client_id: ClientID::new(client),
        skip_gc: true,
        ..Default::default()
    }
}

/// client 1, block list = [(0,len 1)]  => end == 0
fn doc_one_char() -> (Doc, TextRef) {
    let doc = Doc::with_options(opts(1));
    let txt = doc.get_or_insert_text("t");
    txt.insert(&mut doc.transact_mut(), 0, "a");
    (doc, txt)
}

/// client 1, block list = [(0,len 1),(1,len 1)] => end == 1, right == 1 ("b" is prepended, no squash)
fn doc_two_blocks() -> (Doc, TextRef) {
    let doc = Doc::with_options(opts(1));
    let txt = doc.get_or_insert_text("t");
    txt.insert(&mut doc.transact_mut(), 0, "a");
    txt.insert(&mut doc.transact_mut(), 0, "b");
    (doc, txt)
}

fn main() {
    std::panic::set_hook(Box::new(|info| {
        if let Some(l) = info.location() {
            println!("    (panic at {}:{})", l.file(), l.line());
        }
    }));
    let id = |c: u64, k: u32| ID::new(ClientID::new(c), k);

    // sanity: show the block layout of both fixtures
    {
        let (d1, _) = doc_one_char();
        let (d2, _) = doc_two_blocks();
        println!("fixture one_char  : {:?}", d1.transact().store());
        println!("fixture two_blocks: {:?}", d2.transact().store());
    }

    // ---- A. Nested<S>::get / BranchID::get_nested / Hook::get  (branch.rs:765, :926) ---------
    run("A1 Nested::get  P1 (1,5) on [(0,1)]", || {
        let (doc, _) = doc_one_char();
        let r = Nested::<TextRef>::new(id(1, 5)).get(&doc.transact());
        format!("{:?}", r.is_some())
    });
    run("A2 BranchID::get_branch P2 (1,2) on [(0,1),(1,1)]", || {
        let (doc, _) = doc_two_blocks();
        let r = BranchID::Nested(id(1, 2)).get_branch(&doc.transact());
        format!("{:?}", r.is_some())
    });
    run("A3 Nested::get lucky (1,5) on [(0,4)] (single block, end=3)", || {
        let doc = Doc::with_options(opts(1));
        let txt = doc.get_or_insert_text("t");
        txt.insert(&mut doc.transact_mut(), 0, "abcd");
        let r = Nested::<TextRef>::new(id(1, 5)).get(&doc.transact());
        format!("{:?}", r.is_some())
    });

    // ---- B. own snapshot + Text::diff_range -> split_by_snapshot (transaction.rs:1340) --------
    // state_map clock == end+1 by construction, i.e. ALWAYS out of range.
    run("B1 diff_range(own snapshot) P1 on [(0,1)]", || {
        let (doc, txt) = doc_one_char();
        let snap = doc.transact().snapshot();
        let mut txn = doc.transact_mut();
        let d = txt.diff_range(&mut txn, Some(&snap), None, YChange::identity);
        format!("{} chunks", d.len())
    });
    run("B2 diff_range(own snapshot) P2 on [(0,1),(1,1)]", || {
        let (doc, txt) = doc_two_blocks();
        let snap = doc.transact().snapshot();
        let mut txn = doc.transact_mut();
        let d = txt.diff_range(&mut txn, Some(&snap), None, YChange::identity);
        format!("{} chunks", d.len())
    });
    // snapshot.delete_set -> id_set.rs Blocks::next :559 (range beyond local clock)
    run("B3 diff_range(snapshot w/ delete_set (1,[7..8))) on [(0,1)]", || {
        let (doc, txt) = doc_one_char();
        let mut ds = IdSet::new();
        ds.insert(id(1, 7), 1);
        let snap = Snapshot::new(StateVector::default(), ds);
        let mut txn = doc.transact_mut();
        let d = txt.diff_range(&mut txn, Some(&snap), None, YChange::identity);
        format!("{} chunks", d.len())
    });

    // ---- C. encode_state_from_snapshot -> write_blocks_to `clock - 1` (store.rs:182) ---------
    run("C1 encode_state_from_snapshot, state_map {1:0} on [(0,1),(1,1)]", || {
        let (doc, _) = doc_two_blocks();
        let snap = Snapshot::new(
            StateVector::from_iter([(ClientID::new(1), 0u32)]),
            IdSet::new(),
        );
        let mut enc = EncoderV1::new();
        let r = doc.transact().encode_state_from_snapshot(&snap, &mut enc);
        format!("{:?} {:?}", r.is_ok(), enc.to_vec())
    });
    run("C2 own snapshot of doc holding a leading Skip (sv says {1:0})", || {
        // A: (1,0)="a" in text, then (1,1)= map entry (no origin, root parent) sent alone to B
        let a = Doc::with_options(opts(1));
        let t = a.get_or_insert_text("t");
        let m = a.get_or_insert_map("m");
        t.insert(&mut a.transact_mut(), 0, "a");
        let sv = a.transact().state_vector();
        m.insert(&mut a.transact_mut(), "k", 1);
        let u2 = a.transact().encode_diff_v1(&sv);
        let b = Doc::with_options(opts(2));
        b.transact_mut()
            .apply_update(Update::decode_v1(&u2).unwrap())
            .unwrap();
        println!("    B store: {:?}  sv: {:?}", b.transact().store(), b.transact().state_vector());
        let snap = b.transact().snapshot();
        let mut enc = EncoderV1::new();
        let r = b.transact().encode_state_from_snapshot(&snap, &mut enc);
        format!("{:?}", r.is_ok())
    });

    // ---- D. TransactionMut::gc(Some(&ds)) -> gc.rs:39 ------------------------------------------
    run("D1 txn.gc(Some(ds{1:[3..4)})) P1 on [(0,1)]", || {
        let (doc, _) = doc_one_char();
        let mut ds = IdSet::new();
        ds.insert(id(1, 3), 1);
        doc.transact_mut().gc(Some(&ds));
        "ok".into()
    });
    run("D2 txn.gc(Some(ds{1:[2..3)})) P2 on [(0,1),(1,1)]", || {
        let (doc, _) = doc_two_blocks();
        let mut ds = IdSet::new();
        ds.insert(id(1, 2), 1);
        doc.transact_mut().gc(Some(&ds));
        "ok".into()
    });

    // ---- E. weak links: StickyIndex::get_item (sticky_index.rs:291/:300) ----------------------
    run("E1 LinkSource::to_string, Relative(1,5) on [(0,1)]", || {
        let (doc, _) = doc_one_char();
        let s = StickyIndex::from_id(id(1, 5), Assoc::Before);
        let e = StickyIndex::from_id(id(1, 6), Assoc::After);
        let out = LinkSource::new(s, e).to_string(&doc.transact());
        out
    });
    run("E2 REMOTE: honest update with quote(..) of a nested array the receiver has not seen", || {
        // A (client 1): (1,0)="x" in root text; (1,1)=nested array in root map, (1,2..)=its items
        let a = Doc::with_options(opts(1));
        let t = a.get_or_insert_text("t");
        let m = a.get_or_insert_map("m");
        t.insert(&mut a.transact_mut(), 0, "x");
        let u1 = a.transact().encode_diff_v1(&StateVector::default());
        m.insert(&mut a.transact_mut(), "arr", ArrayPrelim::from([1, 2, 3]));
        let u12 = a.transact().encode_diff_v1(&StateVector::default());
        // B (client 2): full copy of A; links the whole nested array: quote(..) => Nested(1,1)
        let b = Doc::with_options(opts(2));
        let mb = b.get_or_insert_map("m");
        b.transact_mut()
            .apply_update(Update::decode_v1(&u12).unwrap())
            .unwrap();
        let sv_b = b.transact().state_vector();
        {
            let mut txn = b.transact_mut();
            let arr: ArrayRef = mb.get(&txn, "arr").unwrap().cast().unwrap();
            let q = arr.quote(&txn, ..).unwrap();
            mb.insert(&mut txn, "link", q);
        }
        let u3 = b.transact().encode_diff_v1(&sv_b); // only item (2,0)
        // C (client 3): has seen only (1,0) of client 1, then receives B's update
        let c = Doc::with_options(opts(3));
        c.transact_mut()
            .apply_update(Update::decode_v1(&u1).unwrap())
            .unwrap();
        println!("    C store before: {:?}", c.transact().store());
        let r = c
            .transact_mut()
            .apply_update(Update::decode_v1(&u3).unwrap());
        format!("{:?}", r.is_ok())
    });

    // ---- F. FINDING F-BS2: a zero-length GC block from the wire is pushed into the store (BlockStore::push is called
    // with a block that violates `len >= 1`); afterwards Block::clock_range (block.rs:267) underflows in builds with
    // overflow checks, e.g. from Store::write_blocks_from -> find_index.  Release builds do not panic.
    run("F1 zero-length GC block from the wire, then encode_diff", || {
        // update v1: 1 client section; 1 block; client 7; clock 0; info 0 (GC); len 0; delete set: 0 clients
        let bytes: Vec<u8> = vec![1, 1, 7, 0, 0, 0, 0];
        let doc = Doc::with_options(opts(1));
        let u = Update::decode_v1(&bytes).unwrap();
        let r = doc.transact_mut().apply_update(u);
        println!("    applied: {:?}; store: {:?}; sv: {:?}", r.is_ok(), doc.transact().store(), doc.transact().state_vector());
        let out = doc.transact().encode_diff_v1(&StateVector::default());
        format!("{:?}", out)
    });
}
