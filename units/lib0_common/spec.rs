// units/lib0_common/spec.rs — mathematical specification of the lib0 var-int formats, the spec decoders (what the
// real decoders compute on arbitrary bytes) and the two theorems about them (bounded consumption, dec . enc = id).

// ---------------------------------------------------------------------------------------------
// unsigned var-int: 7 bits per byte, least significant group first, bit 0x80 = "another byte follows"
// ---------------------------------------------------------------------------------------------
pub open spec fn enc_uint(v: nat) -> Seq<u8>
    decreases v,
{
    if v < 128 {
        seq![v as u8]
    } else {
        seq![(v % 128 + 128) as u8] + enc_uint(v / 128)
    }
}

pub proof fn lemma_enc_uint_len(v: nat)
    ensures
        enc_uint(v).len() >= 1,
        v < 0x1_0000_0000 ==> enc_uint(v).len() <= 5,
        v < 0x1_0000_0000_0000_0000 ==> enc_uint(v).len() <= 10,
{
    reveal_with_fuel(enc_uint, 11);
}

/// the accumulation loop of `read_var_u32` from the state (num, len), as a function of the remaining input
pub open spec fn dec_u32_from(s: Seq<u8>, num: u32, len: nat) -> Option<(u32, nat)>
    decreases s.len(),
{
    if s.len() == 0 {
        None
    } else {
        let b = s[0];
        let num2 = num | (((b & 0x7f) as u32) << ((len % 32) as u32));
        if b < 0x80 {
            Some((num2, 1nat))
        } else if len + 7 > 70 {
            None
        } else {
            dec_bump(dec_u32_from(s.skip(1), num2, len + 7), 1)
        }
    }
}

pub open spec fn dec_u32(s: Seq<u8>) -> Option<(u32, nat)> {
    dec_u32_from(s, 0, 0)
}

pub proof fn lemma_dec_u32_from_bounded(s: Seq<u8>, num: u32, len: nat)
    ensures
        match dec_u32_from(s, num, len) {
            Some((v, k)) => 1 <= k <= s.len() && len + 7 * k <= 77,
            None => true,
        },
    decreases s.len(),
{
    if s.len() > 0 && s[0] >= 0x80 && len + 7 <= 70 {
        let num2 = num | (((s[0] & 0x7f) as u32) << ((len % 32) as u32));
        lemma_dec_u32_from_bounded(s.skip(1), num2, len + 7);
    }
}

/// C10 for u32: whatever the bytes, between 1 and 11 of them are consumed
pub proof fn lemma_dec_u32_bounded(s: Seq<u8>)
    ensures dec_bounded(s, dec_u32(s)),
{
    lemma_dec_u32_from_bounded(s, 0, 0);
}

pub proof fn lemma_dec_enc_u32_from(w: u32, tail: Seq<u8>, num: u32, len: u32)
    requires
        len < 32,
        w <= (u32::MAX >> len),
    ensures
        dec_u32_from(enc_uint(w as nat) + tail, num, len as nat) == Some((num | (w << len), enc_uint(w as nat).len())),
    decreases w,
{
    let s = enc_uint(w as nat) + tail;
    assert(len as nat % 32 == len);
    if w < 128 {
        assert(s[0] == w as u8);
        assert((((w as u8) & 0x7f) as u32) == w && (w as u8) < 0x80) by(bit_vector) requires w < 128;
    } else {
        let b = (w % 128 + 128) as u8;
        assert(s[0] == b);
        assert(s.skip(1) =~= enc_uint((w / 128) as nat) + tail);
        assert(b >= 0x80 && ((b & 0x7f) as u32) == w & 0x7f && w / 128 == w >> 7) by(bit_vector)
            requires w >= 128, b == (w % 128 + 128) as u8;
        assert(len <= 24 && (w >> 7) <= (u32::MAX >> ((len + 7) as u32))) by(bit_vector)
            requires w >= 128, len < 32, w <= (u32::MAX >> len);
        let num2 = num | ((w & 0x7f) << len);
        lemma_dec_enc_u32_from(w >> 7, tail, num2, (len + 7) as u32);
        assert(num2 | ((w >> 7) << ((len + 7) as u32)) == num | (w << len)) by(bit_vector)
            requires len <= 24, num2 == num | ((w & 0x7f) << len);
    }
}

/// C09 for u32: `read_var_u32` on enc(v) ++ tail returns v and leaves exactly tail
pub proof fn lemma_dec_enc_u32(v: u32, tail: Seq<u8>)
    ensures dec_u32(enc_uint(v as nat) + tail) == Some((v, enc_uint(v as nat).len())),
{
    lemma_dec_enc_u32_from(v, tail, 0, 0);
    assert(0u32 | (v << 0u32) == v) by(bit_vector);
}

/// the accumulation loop of `read_var_u64`
pub open spec fn dec_u64_from(s: Seq<u8>, num: u64, len: nat) -> Option<(u64, nat)>
    decreases s.len(),
{
    if s.len() == 0 {
        None
    } else {
        let b = s[0];
        let num2 = num | (((b & 0x7f) as u64) << ((len % 64) as u64));
        if b < 0x80 {
            Some((num2, 1nat))
        } else if len + 7 > 70 {
            None
        } else {
            dec_bump(dec_u64_from(s.skip(1), num2, len + 7), 1)
        }
    }
}

pub open spec fn dec_u64(s: Seq<u8>) -> Option<(u64, nat)> {
    dec_u64_from(s, 0, 0)
}

pub proof fn lemma_dec_u64_from_bounded(s: Seq<u8>, num: u64, len: nat)
    ensures
        match dec_u64_from(s, num, len) {
            Some((v, k)) => 1 <= k <= s.len() && len + 7 * k <= 77,
            None => true,
        },
    decreases s.len(),
{
    if s.len() > 0 && s[0] >= 0x80 && len + 7 <= 70 {
        let num2 = num | (((s[0] & 0x7f) as u64) << ((len % 64) as u64));
        lemma_dec_u64_from_bounded(s.skip(1), num2, len + 7);
    }
}

pub proof fn lemma_dec_u64_bounded(s: Seq<u8>)
    ensures dec_bounded(s, dec_u64(s)),
{
    lemma_dec_u64_from_bounded(s, 0, 0);
}

pub proof fn lemma_dec_enc_u64_from(w: u64, tail: Seq<u8>, num: u64, len: u64)
    requires
        len < 64,
        w <= (u64::MAX >> len),
    ensures
        dec_u64_from(enc_uint(w as nat) + tail, num, len as nat) == Some((num | (w << len), enc_uint(w as nat).len())),
    decreases w,
{
    let s = enc_uint(w as nat) + tail;
    assert(len as nat % 64 == len);
    if w < 128 {
        assert(s[0] == w as u8);
        assert((((w as u8) & 0x7f) as u64) == w && (w as u8) < 0x80) by(bit_vector) requires w < 128;
    } else {
        let b = (w % 128 + 128) as u8;
        assert(s[0] == b);
        assert(s.skip(1) =~= enc_uint((w / 128) as nat) + tail);
        assert(b >= 0x80 && ((b & 0x7f) as u64) == w & 0x7f && w / 128 == w >> 7) by(bit_vector)
            requires w >= 128, b == (w % 128 + 128) as u8;
        assert(len <= 56 && (w >> 7) <= (u64::MAX >> ((len + 7) as u64))) by(bit_vector)
            requires w >= 128, len < 64, w <= (u64::MAX >> len);
        let num2 = num | ((w & 0x7f) << len);
        lemma_dec_enc_u64_from(w >> 7, tail, num2, (len + 7) as u64);
        assert(num2 | ((w >> 7) << ((len + 7) as u64)) == num | (w << len)) by(bit_vector)
            requires len <= 56, num2 == num | ((w & 0x7f) << len);
    }
}

/// C09 for u64
pub proof fn lemma_dec_enc_u64(v: u64, tail: Seq<u8>)
    ensures dec_u64(enc_uint(v as nat) + tail) == Some((v, enc_uint(v as nat).len())),
{
    lemma_dec_enc_u64_from(v, tail, 0, 0);
    assert(0u64 | (v << 0u64) == v) by(bit_vector);
}
