// units/lib0_common/spec.rs — mathematical specification of the lib0 var-int formats, the spec decoders (what the
// real decoders compute on arbitrary bytes) and the two theorems about them (bounded consumption, dec . enc = id).

// ---------------------------------------------------------------------------------------------
// unsigned var-int: 7 bits per byte, least significant group first, bit 0x80 = "another byte follows"
// ---------------------------------------------------------------------------------------------
pub open spec fn enc_uint(v: nat) -> Seq<u8>
    decreases v,
{
    if v < 128 {
        seq![v as u8]
    } else {
        seq![(v % 128 + 128) as u8] + enc_uint(v / 128)
    }
}

pub proof fn lemma_enc_uint_len(v: nat)
    ensures
        enc_uint(v).len() >= 1,
        v < 0x1_0000_0000 ==> enc_uint(v).len() <= 5,
        v < 0x1_0000_0000_0000_0000 ==> enc_uint(v).len() <= 10,
{
    reveal_with_fuel(enc_uint, 11);
}

/// the accumulation loop of `read_var_u32` from the state (num, len), as a function of the remaining input
pub open spec fn dec_u32_from(s: Seq<u8>, num: u32, len: nat) -> Option<(u32, nat)>
    decreases s.len(),
{
    if s.len() == 0 {
        None
    } else {
        let b = s[0];
        let num2 = num | (((b & 0x7f) as u32) << ((len % 32) as u32));
        if b < 0x80 {
            Some((num2, 1nat))
        } else if len + 7 > 70 {
            None
        } else {
            dec_bump(dec_u32_from(s.skip(1), num2, len + 7), 1)
        }
    }
}

pub open spec fn dec_u32(s: Seq<u8>) -> Option<(u32, nat)> {
    dec_u32_from(s, 0, 0)
}

pub proof fn lemma_dec_u32_from_bounded(s: Seq<u8>, num: u32, len: nat)
    requires
        len <= 70,
    ensures
        match dec_u32_from(s, num, len) {
            Some((v, k)) => 1 <= k <= s.len() && len + 7 * k <= 77,
            None => true,
        },
    decreases s.len(),
{
    if s.len() > 0 && s[0] >= 0x80 && len + 7 <= 70 {
        let num2 = num | (((s[0] & 0x7f) as u32) << ((len % 32) as u32));
        lemma_dec_u32_from_bounded(s.skip(1), num2, len + 7);
    }
}

/// C10 for u32: whatever the bytes, between 1 and 11 of them are consumed
pub proof fn lemma_dec_u32_bounded(s: Seq<u8>)
    ensures dec_bounded(s, dec_u32(s)),
{
    lemma_dec_u32_from_bounded(s, 0, 0);
}

pub proof fn lemma_dec_enc_u32_from(w: u32, tail: Seq<u8>, num: u32, len: u32)
    requires
        len < 32,
        w <= (u32::MAX >> len),
    ensures
        dec_u32_from(enc_uint(w as nat) + tail, num, len as nat) == Some((num | (w << len), enc_uint(w as nat).len())),
    decreases w,
{
    let s = enc_uint(w as nat) + tail;
    assert(len as nat % 32 == len);
    if w < 128 {
        assert(s[0] == w as u8);
        assert((((w as u8) & 0x7f) as u32) == w && (w as u8) < 0x80) by(bit_vector) requires w < 128;
    } else {
        let b = (w % 128 + 128) as u8;
        assert(s[0] == b);
        assert(s.skip(1) =~= enc_uint((w / 128) as nat) + tail);
        assert(b >= 0x80 && ((b & 0x7f) as u32) == w & 0x7f && w / 128 == w >> 7) by(bit_vector)
            requires w >= 128, b == (w % 128 + 128) as u8;
        assert(len <= 24 && (w >> 7) <= (u32::MAX >> ((len + 7) as u32))) by(bit_vector)
            requires w >= 128, len < 32, w <= (u32::MAX >> len);
        let num2 = num | ((w & 0x7f) << len);
        lemma_dec_enc_u32_from(w >> 7, tail, num2, (len + 7) as u32);
        assert(num2 | ((w >> 7) << ((len + 7) as u32)) == num | (w << len)) by(bit_vector)
            requires len <= 24, num2 == num | ((w & 0x7f) << len);
    }
}

/// C09 for u32: `read_var_u32` on enc(v) ++ tail returns v and leaves exactly tail
pub proof fn lemma_dec_enc_u32(v: u32, tail: Seq<u8>)
    ensures dec_u32(enc_uint(v as nat) + tail) == Some((v, enc_uint(v as nat).len())),
{
    assert(v <= (u32::MAX >> 0u32)) by(bit_vector);
    lemma_dec_enc_u32_from(v, tail, 0, 0);
    assert(0u32 | (v << 0u32) == v) by(bit_vector);
}

/// the accumulation loop of `read_var_u64`
pub open spec fn dec_u64_from(s: Seq<u8>, num: u64, len: nat) -> Option<(u64, nat)>
    decreases s.len(),
{
    if s.len() == 0 {
        None
    } else {
        let b = s[0];
        let num2 = num | (((b & 0x7f) as u64) << ((len % 64) as u64));
        if b < 0x80 {
            Some((num2, 1nat))
        } else if len + 7 > 70 {
            None
        } else {
            dec_bump(dec_u64_from(s.skip(1), num2, len + 7), 1)
        }
    }
}

pub open spec fn dec_u64(s: Seq<u8>) -> Option<(u64, nat)> {
    dec_u64_from(s, 0, 0)
}

pub proof fn lemma_dec_u64_from_bounded(s: Seq<u8>, num: u64, len: nat)
    requires
        len <= 70,
    ensures
        match dec_u64_from(s, num, len) {
            Some((v, k)) => 1 <= k <= s.len() && len + 7 * k <= 77,
            None => true,
        },
    decreases s.len(),
{
    if s.len() > 0 && s[0] >= 0x80 && len + 7 <= 70 {
        let num2 = num | (((s[0] & 0x7f) as u64) << ((len % 64) as u64));
        lemma_dec_u64_from_bounded(s.skip(1), num2, len + 7);
    }
}

pub proof fn lemma_dec_u64_bounded(s: Seq<u8>)
    ensures dec_bounded(s, dec_u64(s)),
{
    lemma_dec_u64_from_bounded(s, 0, 0);
}

pub proof fn lemma_dec_enc_u64_from(w: u64, tail: Seq<u8>, num: u64, len: u64)
    requires
        len < 64,
        w <= (u64::MAX >> len),
    ensures
        dec_u64_from(enc_uint(w as nat) + tail, num, len as nat) == Some((num | (w << len), enc_uint(w as nat).len())),
    decreases w,
{
    let s = enc_uint(w as nat) + tail;
    assert(len as nat % 64 == len);
    if w < 128 {
        assert(s[0] == w as u8);
        assert((((w as u8) & 0x7f) as u64) == w && (w as u8) < 0x80) by(bit_vector) requires w < 128;
    } else {
        let b = (w % 128 + 128) as u8;
        assert(s[0] == b);
        assert(s.skip(1) =~= enc_uint((w / 128) as nat) + tail);
        assert(b >= 0x80 && ((b & 0x7f) as u64) == w & 0x7f && w / 128 == w >> 7) by(bit_vector)
            requires w >= 128, b == (w % 128 + 128) as u8;
        assert(len <= 56 && (w >> 7) <= (u64::MAX >> ((len + 7) as u64))) by(bit_vector)
            requires w >= 128, len < 64, w <= (u64::MAX >> len);
        let num2 = num | ((w & 0x7f) << len);
        lemma_dec_enc_u64_from(w >> 7, tail, num2, (len + 7) as u64);
        assert(num2 | ((w >> 7) << ((len + 7) as u64)) == num | (w << len)) by(bit_vector)
            requires len <= 56, num2 == num | ((w & 0x7f) << len);
    }
}

/// C09 for u64
pub proof fn lemma_dec_enc_u64(v: u64, tail: Seq<u8>)
    ensures dec_u64(enc_uint(v as nat) + tail) == Some((v, enc_uint(v as nat).len())),
{
    assert(v <= (u64::MAX >> 0u64)) by(bit_vector);
    lemma_dec_enc_u64_from(v, tail, 0, 0);
    assert(0u64 | (v << 0u64) == v) by(bit_vector);
}

// ---------------------------------------------------------------------------------------------
// signed var-int: first byte = continuation bit 0x80 | sign bit 0x40 | 6 low bits of the magnitude; the remaining
// magnitude bits (if any) follow as an unsigned var-int.  The sign is a separate flag, so "-0" is representable.
// ---------------------------------------------------------------------------------------------
pub open spec fn enc_sint(mag: nat, neg: bool) -> Seq<u8> {
    let first = (mag % 64 + (if neg { 64nat } else { 0nat }) + (if mag >= 64 { 128nat } else { 0nat })) as u8;
    if mag < 64 {
        seq![first]
    } else {
        seq![first] + enc_uint(mag / 64)
    }
}

pub open spec fn enc_i64(v: i64) -> Seq<u8> {
    enc_sint(abs_i64(v) as nat, v < 0)
}

pub proof fn lemma_enc_sint_len(mag: nat, neg: bool)
    ensures
        enc_sint(mag, neg).len() >= 1,
        mag < 0x1_0000_0000_0000_0000 ==> enc_sint(mag, neg).len() <= 10,
{
    lemma_enc_uint_len(mag / 64);
    reveal_with_fuel(enc_uint, 10);
}

/// the accumulation loop of `read_var_i64` / `read_signed` from the state (num, len)
pub open spec fn dec_i64_from(s: Seq<u8>, num: i64, len: u32) -> Option<(i64, nat)>
    decreases s.len(),
{
    if s.len() == 0 {
        None
    } else {
        let b = s[0];
        let num2 = num | (((b as i64) & 0x7f) << len);
        if b < 0x80 {
            Some((num2, 1nat))
        } else if len + 7 > 63 {
            None
        } else {
            dec_bump(dec_i64_from(s.skip(1), num2, (len + 7) as u32), 1)
        }
    }
}

/// sign application + byte count of the header byte(s) already consumed
pub open spec fn dec_sint_finish(d: Option<(i64, nat)>, neg: bool, k: nat) -> Option<((i64, bool), nat)> {
    match d {
        Some((n, j)) => Some(((if neg { wrapping_neg_i64(n) } else { n }, neg), j + k)),
        None => None,
    }
}

/// what `read_var_i64` / `read_signed` compute: ((value, sign flag), bytes consumed)
pub open spec fn dec_sint(s: Seq<u8>) -> Option<((i64, bool), nat)> {
    if s.len() == 0 {
        None
    } else {
        let b = s[0];
        let num = (b & 0x3f) as i64;
        let neg = (b & 0x40) > 0;
        if b & 0x80 == 0 {
            Some(((if neg { (-num) as i64 } else { num }, neg), 1nat))
        } else {
            dec_sint_finish(dec_i64_from(s.skip(1), num, 6), neg, 1)
        }
    }
}

pub open spec fn dec_i64(s: Seq<u8>) -> Option<(i64, nat)> {
    match dec_sint(s) {
        Some(((v, neg), k)) => Some((v, k)),
        None => None,
    }
}

pub proof fn lemma_dec_i64_from_bounded(s: Seq<u8>, num: i64, len: u32)
    requires
        len <= 63,
    ensures
        match dec_i64_from(s, num, len) {
            Some((v, k)) => 1 <= k <= s.len() && len + 7 * k <= 70,
            None => true,
        },
    decreases s.len(),
{
    if s.len() > 0 && s[0] >= 0x80 && len + 7 <= 63 {
        let num2 = num | (((s[0] as i64) & 0x7f) << len);
        lemma_dec_i64_from_bounded(s.skip(1), num2, (len + 7) as u32);
    }
}

/// C10 for the signed format: between 1 and 10 bytes are consumed
pub proof fn lemma_dec_sint_bounded(s: Seq<u8>)
    ensures
        dec_bounded(s, dec_sint(s)),
        dec_bounded(s, dec_i64(s)),
{
    if s.len() > 0 {
        lemma_dec_i64_from_bounded(s.skip(1), (s[0] & 0x3f) as i64, 6);
    }
}

pub proof fn lemma_dec_enc_i64_from(w: u64, tail: Seq<u8>, num: i64, len: u32)
    requires
        len < 64,
        w <= (u64::MAX >> (len as u64)),
    ensures
        dec_i64_from(enc_uint(w as nat) + tail, num, len) == Some((num | ((w << (len as u64)) as i64), enc_uint(w as nat).len())),
    decreases w,
{
    let s = enc_uint(w as nat) + tail;
    if w < 128 {
        assert(s[0] == w as u8);
        assert((((w as u8) as i64) & 0x7f) << len == ((w << (len as u64)) as i64) && (w as u8) < 0x80) by(bit_vector)
            requires w < 128, len < 64;
    } else {
        let b = (w % 128 + 128) as u8;
        assert(s[0] == b);
        assert(s.skip(1) =~= enc_uint((w / 128) as nat) + tail);
        assert(b >= 0x80 && w / 128 == w >> 7) by(bit_vector)
            requires w >= 128, b == (w % 128 + 128) as u8;
        assert(len <= 56 && (w >> 7) <= (u64::MAX >> (((len + 7) as u32) as u64))) by(bit_vector)
            requires w >= 128, len < 64, w <= (u64::MAX >> (len as u64));
        let num2 = num | (((b as i64) & 0x7f) << len);
        lemma_dec_enc_i64_from(w >> 7, tail, num2, (len + 7) as u32);
        assert(num2 | (((w >> 7) << (((len + 7) as u32) as u64)) as i64) == num | ((w << (len as u64)) as i64)) by(bit_vector)
            requires len <= 56, w >= 128, b == (w % 128 + 128) as u8, num2 == num | (((b as i64) & 0x7f) << len);
    }
}

/// the value `read_var_i64` / `read_signed` reconstruct from a magnitude (two's complement: 2^63 with the sign is i64::MIN)
pub open spec fn sint_val(mag: u64, neg: bool) -> i64 {
    if neg { wrapping_neg_i64(mag as i64) } else { mag as i64 }
}

/// C09 for the signed format, all 2^64 magnitudes and both signs
pub proof fn lemma_dec_enc_sint(mag: u64, neg: bool, tail: Seq<u8>)
    ensures
        dec_sint(enc_sint(mag as nat, neg) + tail) == Some(((sint_val(mag, neg), neg), enc_sint(mag as nat, neg).len())),
{
    let s = enc_sint(mag as nat, neg) + tail;
    let first = (mag % 64 + (if neg { 64nat } else { 0nat }) + (if mag >= 64 { 128nat } else { 0nat })) as u8;
    assert(s[0] == first);
    let f64: u64 = (mag % 64 + (if neg { 64nat } else { 0nat }) + (if mag >= 64 { 128nat } else { 0nat })) as u64;
    assert(first == f64 as u8);
    let b = first;
    assert(((b & 0x3f) as i64) == (mag % 64) as i64 && ((b & 0x40) > 0) == neg && ((b & 0x80) == 0) == (mag < 64)) by(bit_vector)
        requires b == (((mag % 64) + (if neg { 64u64 } else { 0u64 }) + (if mag >= 64 { 128u64 } else { 0u64 })) as u8);
    if mag < 64 {
        assert((mag % 64) as i64 == mag as i64) by(bit_vector) requires mag < 64;
        assert(mag as i64 == mag);
    } else {
        assert(s.skip(1) =~= enc_uint((mag / 64) as nat) + tail);
        assert((mag / 64) <= (u64::MAX >> 6u64)) by(bit_vector);
        lemma_dec_enc_i64_from(mag / 64, tail, (mag % 64) as i64, 6);
        assert(((mag % 64) as i64) | ((((mag / 64) << 6u64)) as i64) == mag as i64) by(bit_vector);
    }
}

/// C09 for i64: every value, including i64::MIN
pub proof fn lemma_dec_enc_i64(v: i64, tail: Seq<u8>)
    ensures
        dec_i64(enc_i64(v) + tail) == Some((v, enc_i64(v).len())),
        dec_sint(enc_i64(v) + tail) == Some(((v, v < 0), enc_i64(v).len())),
{
    lemma_dec_enc_sint(abs_i64(v), v < 0, tail);
    lemma_sint_val_abs(v);
}

pub proof fn lemma_sint_val_abs(v: i64)
    ensures
        sint_val(abs_i64(v), v < 0) == v,
        v == 0 ==> sint_val(abs_i64(v), true) == v,
{
    if v == i64::MIN {
        assert(abs_i64(v) == 0x8000_0000_0000_0000u64);
        assert(0x8000_0000_0000_0000u64 as i64 == -0x8000_0000_0000_0000i64) by(bit_vector);
    }
}

// ---------------------------------------------------------------------------------------------
// fixed-width integers (little endian unless `_be`) and length-prefixed buffers
// ---------------------------------------------------------------------------------------------
pub open spec fn byte_of(v: nat, i: nat) -> u8 {
    if i == 0 { (v % 256) as u8 } else if i == 1 { (v / 256 % 256) as u8 } else if i == 2 { (v / 65536 % 256) as u8 } else { (v / 16777216 % 256) as u8 }
}

pub open spec fn le16(v: u16) -> Seq<u8> {
    seq![byte_of(v as nat, 0), byte_of(v as nat, 1)]
}

pub open spec fn le32(v: u32) -> Seq<u8> {
    seq![byte_of(v as nat, 0), byte_of(v as nat, 1), byte_of(v as nat, 2), byte_of(v as nat, 3)]
}

pub open spec fn be32(v: u32) -> Seq<u8> {
    seq![byte_of(v as nat, 3), byte_of(v as nat, 2), byte_of(v as nat, 1), byte_of(v as nat, 0)]
}

pub open spec fn val_le16(s: Seq<u8>) -> nat {
    s[0] as nat + 256 * (s[1] as nat)
}

pub open spec fn val_le32(s: Seq<u8>) -> nat {
    s[0] as nat + 256 * (s[1] as nat) + 65536 * (s[2] as nat) + 16777216 * (s[3] as nat)
}

pub open spec fn val_be32(s: Seq<u8>) -> nat {
    s[3] as nat + 256 * (s[2] as nat) + 65536 * (s[1] as nat) + 16777216 * (s[0] as nat)
}

/// C09 for the fixed-width integers
pub proof fn lemma_le16_round_trip(a: u16, tail: Seq<u8>)
    ensures
        val_le16(le16(a) + tail) == a,
{
    let s = le16(a) + tail;
    assert(s[0] == (a % 256) as u8 && s[1] == (a / 256 % 256) as u8);
    assert(a == (a % 256) + 256 * ((a / 256) % 256)) by(bit_vector);
}

pub proof fn lemma_le32_round_trip(b: u32, tail: Seq<u8>)
    ensures
        val_le32(le32(b) + tail) == b,
{
    let s = le32(b) + tail;
    assert(s[0] == (b % 256) as u8 && s[1] == (b / 256 % 256) as u8 && s[2] == (b / 65536 % 256) as u8 && s[3] == (b / 16777216 % 256) as u8);
    assert(b == (b % 256) + 256 * ((b / 256) % 256) + 65536 * ((b / 65536) % 256) + 16777216 * ((b / 16777216) % 256)) by(bit_vector);
}

pub proof fn lemma_be32_round_trip(b: u32, tail: Seq<u8>)
    ensures
        val_be32(be32(b) + tail) == b,
{
    let s = be32(b) + tail;
    assert(s[3] == (b % 256) as u8 && s[2] == (b / 256 % 256) as u8 && s[1] == (b / 65536 % 256) as u8 && s[0] == (b / 16777216 % 256) as u8);
    assert(b == (b % 256) + 256 * ((b / 256) % 256) + 65536 * ((b / 65536) % 256) + 16777216 * ((b / 16777216) % 256)) by(bit_vector);
}

/// a length-prefixed buffer as `write_buf` emits it
pub open spec fn enc_buf(b: Seq<u8>) -> Seq<u8> {
    enc_uint(b.len()) + b
}

/// what `read_buf` computes on arbitrary bytes: (payload, bytes consumed)
pub open spec fn dec_buf(s: Seq<u8>) -> Option<(Seq<u8>, nat)> {
    match dec_u32(s) {
        Some((n, k)) => if k + n <= s.len() { Some((s.subrange(k as int, k + n as int), k + n as nat)) } else { None },
        None => None,
    }
}

/// C09 for buffers shorter than 4 GiB (read_buf reads the length as u32, write_buf writes a usize)
pub proof fn lemma_dec_enc_buf(b: Seq<u8>, tail: Seq<u8>)
    requires
        b.len() <= u32::MAX,
    ensures
        dec_buf(enc_buf(b) + tail) == Some((b, enc_buf(b).len())),
{
    let e = enc_uint(b.len());
    assert(enc_buf(b) + tail =~= e + (b + tail));
    lemma_dec_enc_u32(b.len() as u32, b + tail);
    let s = enc_buf(b) + tail;
    assert(s.subrange(e.len() as int, (e.len() + b.len()) as int) =~= b);
}

// ---------------------------------------------------------------------------------------------
// sequence bookkeeping shared by the composite decoders
// ---------------------------------------------------------------------------------------------
/// consuming a prefix of a suffix is consuming a prefix
pub proof fn lemma_suffix_trans(a: Seq<u8>, b: Seq<u8>)
    requires
        suffix_of(a, b),
    ensures
        forall|c: Seq<u8>| #[trigger] suffix_of(b, c) ==> suffix_of(a, c),
{
    let j = choose|j: nat| j <= a.len() && b == #[trigger] a.skip(j as int);
    assert forall|c: Seq<u8>| #[trigger] suffix_of(b, c) implies suffix_of(a, c) by {
        let i = choose|i: nat| i <= b.len() && c == #[trigger] b.skip(i as int);
        assert(a.skip(j as int).skip(i as int) =~= a.skip((j + i) as int));
    }
}

pub proof fn lemma_suffix_skip(a: Seq<u8>, k: nat)
    requires
        k <= a.len(),
    ensures
        suffix_of(a, a.skip(k as int)),
        suffix_of(a, a),
{
    assert(a.skip(0) =~= a);
}

/// skipping k and then k2 bytes is skipping k + k2
pub proof fn lemma_skip_skip_all(s: Seq<u8>, k: nat)
    requires
        k <= s.len(),
    ensures
        forall|k2: nat| k2 <= s.skip(k as int).len() ==> #[trigger] s.skip(k as int).skip(k2 as int) == s.skip((k + k2) as int),
{
    assert forall|k2: nat| k2 <= s.skip(k as int).len() implies #[trigger] s.skip(k as int).skip(k2 as int) == s.skip((k + k2) as int) by {
        assert(s.skip(k as int).skip(k2 as int) =~= s.skip((k + k2) as int));
    }
}
