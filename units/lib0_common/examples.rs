// units/lib0_common/examples.rs — concrete instances of the format specs (guards against a vacuous or mistyped spec)
pub proof fn example_enc_uint()
    ensures
        enc_uint(0) == seq![0x00u8],
        enc_uint(127) == seq![0x7Fu8],
        enc_uint(128) == seq![0x80u8, 0x01u8],
        enc_uint(300) == seq![0xACu8, 0x02u8],
        enc_uint(0xFFFF_FFFF) == seq![0xFFu8, 0xFFu8, 0xFFu8, 0xFFu8, 0x0Fu8],
{
    reveal_with_fuel(enc_uint, 6);
    assert(enc_uint(0) =~= seq![0x00u8]);
    assert(enc_uint(127) =~= seq![0x7Fu8]);
    assert(enc_uint(128) =~= seq![0x80u8, 0x01u8]);
    assert(enc_uint(300) =~= seq![0xACu8, 0x02u8]);
    assert(enc_uint(0xFFFF_FFFF) =~= seq![0xFFu8, 0xFFu8, 0xFFu8, 0xFFu8, 0x0Fu8]);
}

pub proof fn example_enc_i64()
    ensures
        enc_i64(0) == seq![0x00u8],
        enc_i64(-1i64) == seq![0x41u8],
        enc_i64(-2i64) == seq![0x42u8],
        enc_i64(63) == seq![0x3Fu8],
        enc_i64(64) == seq![0x80u8, 0x01u8],
        enc_i64(-64i64) == seq![0xC0u8, 0x01u8],
        // "-0"
        enc_sint(0, true) == seq![0x40u8],
{
    reveal_with_fuel(enc_uint, 3);
    assert(enc_i64(0) =~= seq![0x00u8]);
    assert(enc_i64(-1i64) =~= seq![0x41u8]);
    assert(enc_i64(-2i64) =~= seq![0x42u8]);
    assert(enc_i64(63) =~= seq![0x3Fu8]);
    assert(enc_i64(64) =~= seq![0x80u8, 0x01u8]);
    assert(enc_i64(-64i64) =~= seq![0xC0u8, 0x01u8]);
    assert(enc_sint(0, true) =~= seq![0x40u8]);
}
