// units/lib0_common/varint.rs — the real var-int codecs of yrs/src/encoding/varint.rs under contract.

/*@extract yrs/src/encoding/varint.rs | - | fn write_var_u32
@sig
    ensures final(w).out() == old(w).out() + enc_uint(value as nat),
@start
    let ghost v0 = value;
@loop 1
    invariant
        w.out() + enc_uint(value as nat) == old(w).out() + enc_uint(v0 as nat),
    decreases value,
@loopstart 1
    proof {
        assert(value >> 7 < value && (value >> 7) == value / 128
            && (((value & 0b01111111) as u8) | 0b10000000) == (value % 128 + 128) as u8
            && (0b10000000 | ((value & 0b01111111) as u8)) == (value % 128 + 128) as u8
            && (((0b01111111 & value) as u8) | 0b10000000) == (value % 128 + 128) as u8) by(bit_vector)
            requires value >= 128;
        assert(w.out().push((value % 128 + 128) as u8) + enc_uint((value / 128) as nat) =~= w.out() + enc_uint(value as nat));
    }
@afterloop 1
    proof {
        assert(((value & 0b01111111) as u8) == value as u8) by(bit_vector) requires value < 128;
        assert(w.out().push(value as u8) =~= w.out() + enc_uint(value as nat));
    }
@*/

/*@extract yrs/src/encoding/varint.rs | - | fn write_var_u64
@sig
    ensures final(w).out() == old(w).out() + enc_uint(value as nat),
@start
    let ghost v0 = value;
@loop 1
    invariant
        w.out() + enc_uint(value as nat) == old(w).out() + enc_uint(v0 as nat),
    decreases value,
@loopstart 1
    proof {
        assert(value >> 7 < value && (value >> 7) == value / 128
            && (((value & 0b01111111) as u8) | 0b10000000) == (value % 128 + 128) as u8
            && (0b10000000 | ((value & 0b01111111) as u8)) == (value % 128 + 128) as u8
            && (((0b01111111 & value) as u8) | 0b10000000) == (value % 128 + 128) as u8) by(bit_vector)
            requires value >= 128;
        assert(w.out().push((value % 128 + 128) as u8) + enc_uint((value / 128) as nat) =~= w.out() + enc_uint(value as nat));
    }
@afterloop 1
    proof {
        assert(((value & 0b01111111) as u8) == value as u8) by(bit_vector) requires value < 128;
        assert(w.out().push(value as u8) =~= w.out() + enc_uint(value as nat));
    }
@*/

/*@extract yrs/src/encoding/varint.rs | - | fn read_var_u32
@ret res
@sig
    requires
        old(r).wf(),
    ensures
        final(r).wf(),
        read_post(old(r).rest(), final(r).rest(), res, dec_u32(old(r).rest())),
@start
    let ghost s0 = r.rest();
    let ghost mut k: nat = 0;
@loop 1
    invariant
        s0 == old(r).rest(),
        r.wf(),
        k <= s0.len(),
        r.rest() == s0.skip(k as int),
        len == 7 * k,
        len <= 70,
        dec_u32(s0) == dec_bump(dec_u32_from(r.rest(), num, len as nat), k),
    decreases 77 - len,
@after 1 `stmt:let r`
    proof {
        assert(s0.skip(k as int).skip(1) =~= s0.skip(k as int + 1));
        k = k + 1;
    }
@*/

/*@extract yrs/src/encoding/varint.rs | - | fn read_var_u64
@ret res
@sig
    requires
        old(r).wf(),
    ensures
        final(r).wf(),
        read_post(old(r).rest(), final(r).rest(), res, dec_u64(old(r).rest())),
@start
    let ghost s0 = r.rest();
    let ghost mut k: nat = 0;
@loop 1
    invariant
        s0 == old(r).rest(),
        r.wf(),
        k <= s0.len(),
        r.rest() == s0.skip(k as int),
        len == 7 * k,
        len <= 70,
        dec_u64(s0) == dec_bump(dec_u64_from(r.rest(), num, len as nat), k),
    decreases 77 - len,
@after 1 `stmt:let r`
    proof {
        assert(s0.skip(k as int).skip(1) =~= s0.skip(k as int + 1));
        k = k + 1;
    }
@*/

impl VarInt for u32 {
    open spec fn enc(&self) -> Seq<u8> {
        enc_uint(*self as nat)
    }

    open spec fn dec(s: Seq<u8>) -> Option<(Self, nat)> {
        dec_u32(s)
    }

    /*@extract yrs/src/encoding/varint.rs | impl VarInt for u32 | fn write @*/

    /*@extract yrs/src/encoding/varint.rs | impl VarInt for u32 | fn read @*/

    proof fn law_dec_bounded(s: Seq<u8>) {
        lemma_dec_u32_bounded(s);
    }

    proof fn law_dec_enc(v: Self, tail: Seq<u8>) {
        lemma_dec_enc_u32(v, tail);
    }
}

impl VarInt for u64 {
    open spec fn enc(&self) -> Seq<u8> {
        enc_uint(*self as nat)
    }

    open spec fn dec(s: Seq<u8>) -> Option<(Self, nat)> {
        dec_u64(s)
    }

    /*@extract yrs/src/encoding/varint.rs | impl VarInt for u64 | fn write @*/

    /*@extract yrs/src/encoding/varint.rs | impl VarInt for u64 | fn read @*/

    proof fn law_dec_bounded(s: Seq<u8>) {
        lemma_dec_u64_bounded(s);
    }

    proof fn law_dec_enc(v: Self, tail: Seq<u8>) {
        lemma_dec_enc_u64(v, tail);
    }
}

// ---------------------------------------------------------------------------------------------
// signed var-ints
// ---------------------------------------------------------------------------------------------
/*@extract yrs/src/encoding/varint.rs | - | fn write_var_i64
@sig
    ensures final(w).out() == old(w).out() + enc_i64(value),
@start
    let ghost mag = abs_i64(value);
    let ghost neg = value < 0;
@loop 1
    invariant
        value > 0 ==> w.out() + enc_uint(value as nat) == old(w).out() + enc_sint(mag as nat, neg),
        value == 0 ==> w.out() == old(w).out() + enc_sint(mag as nat, neg),
    decreases value,
@before 1 `stmt:while`
    proof {
        // the header byte and the remaining magnitude, as the format defines them
        let first = (mag % 64 + (if neg { 64nat } else { 0nat }) + (if mag >= 64 { 128nat } else { 0nat })) as u8;
        assert(((if mag > 0b00111111 as u64 { 0b10000000 as u8 } else { 0 }) | (if neg { 0b01000000 as u8 } else { 0 }) | (0b00111111 as u64 & mag) as u8)
            == ((mag % 64) + (if neg { 64u64 } else { 0u64 }) + (if mag >= 64 { 128u64 } else { 0u64 })) as u8
            && mag >> 6 == mag / 64) by(bit_vector);
        assert(old(w).out().push(first) =~= old(w).out() + seq![first]);
        if mag >= 64 {
            assert(old(w).out().push(first) + enc_uint((mag / 64) as nat) =~= old(w).out() + enc_sint(mag as nat, neg));
        }
    }
@before 2 `stmt:call write_u8`
    proof {
        assert(value >> 7 == value / 128 && value >> 7 < value
            && ((if value > 0b01111111 as u64 { 0b10000000 as u8 } else { 0 }) | (0b01111111 as u64 & value) as u8)
                == (if value >= 128 { (value % 128 + 128) as u8 } else { value as u8 })) by(bit_vector)
            requires value > 0;
        if value >= 128 {
            assert(w.out().push((value % 128 + 128) as u8) + enc_uint((value / 128) as nat) =~= w.out() + enc_uint(value as nat));
        } else {
            assert(w.out().push(value as u8) =~= w.out() + enc_uint(value as nat));
        }
    }
@*/

/*@extract yrs/src/encoding/varint.rs | - | fn read_var_i64
@ret res
@sig
    requires
        old(reader).wf(),
    ensures
        final(reader).wf(),
        read_post(old(reader).rest(), final(reader).rest(), res, dec_i64(old(reader).rest())),
@start
    let ghost s0 = reader.rest();
    let ghost mut k: nat = 1;
    proof { assert(s0.skip(0) =~= s0); }
@after 1 `stmt:let num`
    proof {
        assert((r & 0b00111111 as u8) <= 63) by(bit_vector);
    }
@loop 1
    invariant
        s0 == old(reader).rest(),
        reader.wf(),
        1 <= k <= s0.len(),
        reader.rest() == s0.skip(k as int),
        len == 7 * k - 1,
        len <= 62,
        dec_sint(s0) == dec_sint_finish(dec_i64_from(reader.rest(), num, len), is_negative, k),
    decreases 70 - len,
@after 1 `stmt:assign r`
    proof {
        assert(s0.skip(k as int).skip(1) =~= s0.skip(k as int + 1));
        k = k + 1;
    }
@*/

impl SignedVarInt for i64 {
    open spec fn enc_signed(s: &Signed<Self>) -> Seq<u8> {
        enc_sint(abs_i64(s.value) as nat, s.is_negative)
    }

    open spec fn dec_signed(s: Seq<u8>) -> Option<(Signed<Self>, nat)> {
        match dec_sint(s) {
            Some(((v, neg), k)) => Some((Signed { value: v, is_negative: neg }, k)),
            None => None,
        }
    }

    open spec fn signed_wf(s: &Signed<Self>) -> bool {
        if s.is_negative { s.value <= 0 } else { s.value >= 0 }
    }

    /*@extract yrs/src/encoding/varint.rs | impl SignedVarInt for i64 | fn write_signed
    @start
        let ghost mag = abs_i64(s.value);
        let ghost neg = s.is_negative;
@loop 1
        invariant
            value > 0 ==> w.out() + enc_uint(value as nat) == old(w).out() + enc_sint(mag as nat, neg),
            value == 0 ==> w.out() == old(w).out() + enc_sint(mag as nat, neg),
        decreases value,
    @before 1 `stmt:while`
        proof {
            // the header byte and the remaining magnitude, as the format defines them
            let first = (mag % 64 + (if neg { 64nat } else { 0nat }) + (if mag >= 64 { 128nat } else { 0nat })) as u8;
            assert(((if mag > 0b00111111 as u64 { 0b10000000 as u8 } else { 0 }) | (if neg { 0b01000000 as u8 } else { 0 }) | (0b00111111 as u64 & mag) as u8)
                == ((mag % 64) + (if neg { 64u64 } else { 0u64 }) + (if mag >= 64 { 128u64 } else { 0u64 })) as u8
                && mag >> 6 == mag / 64) by(bit_vector);
            assert(old(w).out().push(first) =~= old(w).out() + seq![first]);
            if mag >= 64 {
                assert(old(w).out().push(first) + enc_uint((mag / 64) as nat) =~= old(w).out() + enc_sint(mag as nat, neg));
            }
        }
    @before 2 `stmt:call write_u8`
        proof {
            assert(value >> 7 == value / 128 && value >> 7 < value
                && ((if value > 0b01111111 as u64 { 0b10000000 as u8 } else { 0 }) | (0b01111111 as u64 & value) as u8)
                    == (if value >= 128 { (value % 128 + 128) as u8 } else { value as u8 })) by(bit_vector)
                requires value > 0;
            if value >= 128 {
                assert(w.out().push((value % 128 + 128) as u8) + enc_uint((value / 128) as nat) =~= w.out() + enc_uint(value as nat));
            } else {
                assert(w.out().push(value as u8) =~= w.out() + enc_uint(value as nat));
            }
        }
    @*/

    /*@extract yrs/src/encoding/varint.rs | impl SignedVarInt for i64 | fn read_signed
@start
        let ghost s0 = reader.rest();
        let ghost mut k: nat = 1;
        proof { assert(s0.skip(0) =~= s0); }
    @after 1 `stmt:let num`
        proof {
            assert((r & 0b00111111 as u8) <= 63) by(bit_vector);
        }
    @loop 1
        invariant
            s0 == old(reader).rest(),
            reader.wf(),
            1 <= k <= s0.len(),
            reader.rest() == s0.skip(k as int),
            len == 7 * k - 1,
            len <= 62,
            dec_sint(s0) == dec_sint_finish(dec_i64_from(reader.rest(), num, len), is_negative, k),
        decreases 70 - len,
    @after 1 `stmt:assign r`
        proof {
            assert(s0.skip(k as int).skip(1) =~= s0.skip(k as int + 1));
            k = k + 1;
        }
    @*/

    proof fn law_dec_signed_bounded(s: Seq<u8>) {
        lemma_dec_sint_bounded(s);
    }

    proof fn law_dec_enc_signed(v: Signed<Self>, tail: Seq<u8>) {
        lemma_dec_enc_sint(abs_i64(v.value), v.is_negative, tail);
        lemma_sint_val_abs(v.value);
    }
}

// ---------------------------------------------------------------------------------------------
// the remaining VarInt impls: delegation + narrowing with `try_into` (out-of-range = Err(InvalidVarInt))
// ---------------------------------------------------------------------------------------------
impl VarInt for usize {
    open spec fn enc(&self) -> Seq<u8> {
        enc_uint(*self as nat)
    }

    open spec fn dec(s: Seq<u8>) -> Option<(Self, nat)> {
        // `as usize` truncates on 32-bit targets, as the real code does
        dec_map(dec_u64(s), |v: u64| Some(v as usize))
    }

    /*@extract yrs/src/encoding/varint.rs | impl VarInt for usize | fn write @*/

    /*@extract yrs/src/encoding/varint.rs | impl VarInt for usize | fn read @*/

    proof fn law_dec_bounded(s: Seq<u8>) {
        lemma_dec_u64_bounded(s);
    }

    proof fn law_dec_enc(v: Self, tail: Seq<u8>) {
        lemma_dec_enc_u64(v as u64, tail);
    }
}

impl VarInt for u16 {
    open spec fn enc(&self) -> Seq<u8> {
        enc_uint(*self as nat)
    }

    open spec fn dec(s: Seq<u8>) -> Option<(Self, nat)> {
        dec_map(dec_u32(s), |v: u32| if v <= u16::MAX { Some(v as u16) } else { None })
    }

    /*@extract yrs/src/encoding/varint.rs | impl VarInt for u16 | fn write @*/

    /*@extract yrs/src/encoding/varint.rs | impl VarInt for u16 | fn read @*/

    proof fn law_dec_bounded(s: Seq<u8>) {
        lemma_dec_u32_bounded(s);
    }

    proof fn law_dec_enc(v: Self, tail: Seq<u8>) {
        lemma_dec_enc_u32(v as u32, tail);
    }
}

impl VarInt for u8 {
    open spec fn enc(&self) -> Seq<u8> {
        enc_uint(*self as nat)
    }

    open spec fn dec(s: Seq<u8>) -> Option<(Self, nat)> {
        dec_map(dec_u32(s), |v: u32| if v <= u8::MAX { Some(v as u8) } else { None })
    }

    /*@extract yrs/src/encoding/varint.rs | impl VarInt for u8 | fn write @*/

    /*@extract yrs/src/encoding/varint.rs | impl VarInt for u8 | fn read @*/

    proof fn law_dec_bounded(s: Seq<u8>) {
        lemma_dec_u32_bounded(s);
    }

    proof fn law_dec_enc(v: Self, tail: Seq<u8>) {
        lemma_dec_enc_u32(v as u32, tail);
    }
}

impl VarInt for i64 {
    open spec fn enc(&self) -> Seq<u8> {
        enc_i64(*self)
    }

    open spec fn dec(s: Seq<u8>) -> Option<(Self, nat)> {
        dec_i64(s)
    }

    /*@extract yrs/src/encoding/varint.rs | impl VarInt for i64 | fn write @*/

    /*@extract yrs/src/encoding/varint.rs | impl VarInt for i64 | fn read @*/

    proof fn law_dec_bounded(s: Seq<u8>) {
        lemma_dec_sint_bounded(s);
    }

    proof fn law_dec_enc(v: Self, tail: Seq<u8>) {
        lemma_dec_enc_i64(v, tail);
    }
}

impl VarInt for isize {
    open spec fn enc(&self) -> Seq<u8> {
        enc_i64(*self as i64)
    }

    open spec fn dec(s: Seq<u8>) -> Option<(Self, nat)> {
        dec_map(dec_i64(s), |v: i64| if isize::MIN <= v <= isize::MAX { Some(v as isize) } else { None })
    }

    /*@extract yrs/src/encoding/varint.rs | impl VarInt for isize | fn write @*/

    /*@extract yrs/src/encoding/varint.rs | impl VarInt for isize | fn read @*/

    proof fn law_dec_bounded(s: Seq<u8>) {
        lemma_dec_sint_bounded(s);
    }

    proof fn law_dec_enc(v: Self, tail: Seq<u8>) {
        lemma_dec_enc_i64(v as i64, tail);
    }
}

impl VarInt for i32 {
    open spec fn enc(&self) -> Seq<u8> {
        enc_i64(*self as i64)
    }

    open spec fn dec(s: Seq<u8>) -> Option<(Self, nat)> {
        dec_map(dec_i64(s), |v: i64| if i32::MIN <= v <= i32::MAX { Some(v as i32) } else { None })
    }

    /*@extract yrs/src/encoding/varint.rs | impl VarInt for i32 | fn write @*/

    /*@extract yrs/src/encoding/varint.rs | impl VarInt for i32 | fn read @*/

    proof fn law_dec_bounded(s: Seq<u8>) {
        lemma_dec_sint_bounded(s);
    }

    proof fn law_dec_enc(v: Self, tail: Seq<u8>) {
        lemma_dec_enc_i64(v as i64, tail);
    }
}

impl VarInt for i16 {
    open spec fn enc(&self) -> Seq<u8> {
        enc_i64(*self as i64)
    }

    open spec fn dec(s: Seq<u8>) -> Option<(Self, nat)> {
        dec_map(dec_i64(s), |v: i64| if i16::MIN <= v <= i16::MAX { Some(v as i16) } else { None })
    }

    /*@extract yrs/src/encoding/varint.rs | impl VarInt for i16 | fn write @*/

    /*@extract yrs/src/encoding/varint.rs | impl VarInt for i16 | fn read @*/

    proof fn law_dec_bounded(s: Seq<u8>) {
        lemma_dec_sint_bounded(s);
    }

    proof fn law_dec_enc(v: Self, tail: Seq<u8>) {
        lemma_dec_enc_i64(v as i64, tail);
    }
}

impl VarInt for i8 {
    open spec fn enc(&self) -> Seq<u8> {
        enc_i64(*self as i64)
    }

    open spec fn dec(s: Seq<u8>) -> Option<(Self, nat)> {
        dec_map(dec_i64(s), |v: i64| if i8::MIN <= v <= i8::MAX { Some(v as i8) } else { None })
    }

    /*@extract yrs/src/encoding/varint.rs | impl VarInt for i8 | fn write @*/

    /*@extract yrs/src/encoding/varint.rs | impl VarInt for i8 | fn read @*/

    proof fn law_dec_bounded(s: Seq<u8>) {
        lemma_dec_sint_bounded(s);
    }

    proof fn law_dec_enc(v: Self, tail: Seq<u8>) {
        lemma_dec_enc_i64(v as i64, tail);
    }
}

// ---------------------------------------------------------------------------------------------
// the two decoder contracts in the shape callers use them, for EVERY VarInt type (u8..u64, usize, i8..i64, isize)
// ---------------------------------------------------------------------------------------------
/// INVERSE (C09): a reader positioned on enc(v) ++ tail returns Ok(v) and is left exactly on tail
pub proof fn lemma_read_inverse<T: VarInt>(s0: Seq<u8>, s1: Seq<u8>, res: Result<T, Error>, v: T, tail: Seq<u8>)
    requires
        read_post(s0, s1, res, T::dec(s0)),
        s0 == v.enc() + tail,
    ensures
        res is Ok && res->Ok_0 == v && s1 == tail,
{
    T::law_dec_enc(v, tail);
    assert((v.enc() + tail).skip(v.enc().len() as int) =~= tail);
}

/// TOTAL (C10): on ANY input the read returns (no panic, no overflow, termination are part of the verified body) and
/// what is left is the input minus a prefix of at least 1 and at most 11 bytes on success, minus some prefix on failure
pub proof fn lemma_read_total<T: VarInt>(s0: Seq<u8>, s1: Seq<u8>, res: Result<T, Error>)
    requires
        read_post(s0, s1, res, T::dec(s0)),
    ensures
        res is Ok ==> exists|k: nat| 1 <= k <= 11 && k <= s0.len() && s1 == #[trigger] s0.skip(k as int),
        res is Err ==> suffix_of(s0, s1),
{
    T::law_dec_bounded(s0);
    if res is Ok {
        let k = T::dec(s0)->Some_0.1;
        assert(s1 == s0.skip(k as int));
    }
}

/// the same two statements for the signed pairs of `read_var_signed::<i64>`
pub proof fn lemma_read_signed_inverse<T: SignedVarInt>(s0: Seq<u8>, s1: Seq<u8>, res: Result<Signed<T>, Error>, v: Signed<T>, tail: Seq<u8>)
    requires
        read_post(s0, s1, res, T::dec_signed(s0)),
        T::signed_wf(&v),
        s0 == T::enc_signed(&v) + tail,
    ensures
        res is Ok && res->Ok_0 == v && s1 == tail,
{
    T::law_dec_enc_signed(v, tail);
    assert((T::enc_signed(&v) + tail).skip(T::enc_signed(&v).len() as int) =~= tail);
}
