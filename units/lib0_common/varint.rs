// units/lib0_common/varint.rs — the real var-int codecs of yrs/src/encoding/varint.rs under contract.

/*@extract yrs/src/encoding/varint.rs | - | fn write_var_u32
@sig
    ensures final(w).out() == old(w).out() + enc_uint(value as nat),
@start
    let ghost v0 = value;
@loop 1
    invariant
        w.out() + enc_uint(value as nat) == old(w).out() + enc_uint(v0 as nat),
    decreases value,
@before 1 `stmt:let b`
    proof {
        assert(value >> 7 < value && (value >> 7) == value / 128
            && (((value & 0b01111111) as u8) | 0b10000000) == (value % 128 + 128) as u8) by(bit_vector)
            requires value >= 128;
        assert(w.out().push((value % 128 + 128) as u8) + enc_uint((value / 128) as nat) =~= w.out() + enc_uint(value as nat));
    }
@before 2 `stmt:call write_u8`
    proof {
        assert(((value & 0b01111111) as u8) == value as u8) by(bit_vector) requires value < 128;
        assert(w.out().push(value as u8) =~= w.out() + enc_uint(value as nat));
    }
@*/

/*@extract yrs/src/encoding/varint.rs | - | fn write_var_u64
@sig
    ensures final(w).out() == old(w).out() + enc_uint(value as nat),
@start
    let ghost v0 = value;
@loop 1
    invariant
        w.out() + enc_uint(value as nat) == old(w).out() + enc_uint(v0 as nat),
    decreases value,
@before 1 `stmt:let b`
    proof {
        assert(value >> 7 < value && (value >> 7) == value / 128
            && (((value & 0b01111111) as u8) | 0b10000000) == (value % 128 + 128) as u8) by(bit_vector)
            requires value >= 128;
        assert(w.out().push((value % 128 + 128) as u8) + enc_uint((value / 128) as nat) =~= w.out() + enc_uint(value as nat));
    }
@before 2 `stmt:call write_u8`
    proof {
        assert(((value & 0b01111111) as u8) == value as u8) by(bit_vector) requires value < 128;
        assert(w.out().push(value as u8) =~= w.out() + enc_uint(value as nat));
    }
@*/

/*@extract yrs/src/encoding/varint.rs | - | fn read_var_u32
@ret res
@sig
    requires
        old(r).wf(),
    ensures
        final(r).wf(),
        read_post(old(r).rest(), final(r).rest(), res, dec_u32(old(r).rest())),
@start
    let ghost s0 = r.rest();
    let ghost mut k: nat = 0;
@loop 1
    invariant
        r.wf(),
        k <= s0.len(),
        r.rest() == s0.skip(k as int),
        len == 7 * k,
        len <= 70,
        dec_u32(s0) == dec_bump(dec_u32_from(r.rest(), num, len as nat), k),
    decreases 77 - len,
@after 1 `stmt:let r`
    proof {
        assert(s0.skip(k as int).skip(1) =~= s0.skip(k as int + 1));
        k = k + 1;
    }
@*/

/*@extract yrs/src/encoding/varint.rs | - | fn read_var_u64
@ret res
@sig
    requires
        old(r).wf(),
    ensures
        final(r).wf(),
        read_post(old(r).rest(), final(r).rest(), res, dec_u64(old(r).rest())),
@start
    let ghost s0 = r.rest();
    let ghost mut k: nat = 0;
@loop 1
    invariant
        r.wf(),
        k <= s0.len(),
        r.rest() == s0.skip(k as int),
        len == 7 * k,
        len <= 70,
        dec_u64(s0) == dec_bump(dec_u64_from(r.rest(), num, len as nat), k),
    decreases 77 - len,
@after 1 `stmt:let r`
    proof {
        assert(s0.skip(k as int).skip(1) =~= s0.skip(k as int + 1));
        k = k + 1;
    }
@*/

impl VarInt for u32 {
    open spec fn enc(&self) -> Seq<u8> {
        enc_uint(*self as nat)
    }

    open spec fn dec(s: Seq<u8>) -> Option<(Self, nat)> {
        dec_u32(s)
    }

    /*@extract yrs/src/encoding/varint.rs | impl VarInt for u32 | fn write @*/

    /*@extract yrs/src/encoding/varint.rs | impl VarInt for u32 | fn read @*/

    proof fn law_dec_bounded(s: Seq<u8>) {
        lemma_dec_u32_bounded(s);
    }

    proof fn law_dec_enc(v: Self, tail: Seq<u8>) {
        lemma_dec_enc_u32(v, tail);
    }
}

impl VarInt for u64 {
    open spec fn enc(&self) -> Seq<u8> {
        enc_uint(*self as nat)
    }

    open spec fn dec(s: Seq<u8>) -> Option<(Self, nat)> {
        dec_u64(s)
    }

    /*@extract yrs/src/encoding/varint.rs | impl VarInt for u64 | fn write @*/

    /*@extract yrs/src/encoding/varint.rs | impl VarInt for u64 | fn read @*/

    proof fn law_dec_bounded(s: Seq<u8>) {
        lemma_dec_u64_bounded(s);
    }

    proof fn law_dec_enc(v: Self, tail: Seq<u8>) {
        lemma_dec_enc_u64(v, tail);
    }
}
