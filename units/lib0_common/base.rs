// units/lib0_common/base.rs — the lib0 wire-format layer of yrs (yrs/src/encoding/{read,write,varint}.rs):
// the real traits `Write`, `Read`, `VarInt`, `SignedVarInt` with a ghost interface, the real `Cursor` and the real
// `impl Write for Vec<u8>`.  Shared by the units `lib0` and `lib0_v2` (textual include).
//
// Ghost interface
//   Write::out()      everything written so far (the byte string a writer has produced)
//   Read::rest()      the unread part of the input;  Read::wf() the reader's representation invariant
//   VarInt::enc(v)    the lib0 encoding of v (mathematical spec, see spec.rs)
//   VarInt::dec(s)    what `read` computes on ANY byte string s: None = error, Some((v, k)) = value v, k bytes consumed
//   laws              dec(enc(v) + tail) == Some((v, |enc(v)|))  (C09)   and   1 <= k <= 11, k <= |s|  (C10)
//
// SLICING (reported in the evidence): Verus rejects the cyclic trait reference  Read::read_var<T: VarInt>  <->
// VarInt::read<R: Read>  ("cyclic self-reference in a definition").  The default methods of `Read` / `Write` that
// mention `VarInt` / `SignedVarInt` (read_var, read_var_signed, read_buf / write_var, write_var_signed, write_buf)
// therefore live in the extension traits `ReadExt: Read` / `WriteExt: Write`, which are blanket-implemented for every
// `Read` / `Write`; their bodies are the ones of /repo's `trait Read` / `trait Write`.

// ---------------------------------------------------------------------------------------------
// `Error` (yrs/src/encoding/read.rs): sliced stand-in with the same variants.  The real enum carries thiserror
// attributes that Verus cannot take; the payload types `std::collections::TryReserveError` and `serde_json::Error`
// are replaced by opaque unit structs (never constructed or inspected in this layer).
// ---------------------------------------------------------------------------------------------
pub struct TryReserveErrorStandIn;
pub struct SerdeJsonErrorStandIn;

pub enum Error {
    InvalidVarInt,
    EndOfBuffer(usize),
    UnexpectedValue,
    NotEnoughMemory(TryReserveErrorStandIn),
    InvalidJSON(SerdeJsonErrorStandIn),
    TypeMismatch(&'static str),
    Custom(String),
}

// ---------------------------------------------------------------------------------------------
// trusted std contracts (A2): each is std's documented behaviour
// ---------------------------------------------------------------------------------------------
/// |v| as u64 (std: "Computes the absolute value of self without any wrapping or panicking")
pub open spec fn abs_i64(v: i64) -> u64 {
    if v < 0 { (-(v as int)) as u64 } else { v as u64 }
}

pub assume_specification[ i64::unsigned_abs ](v: i64) -> (r: u64)
    ensures
        r == abs_i64(v),
;

/// std: "Wrapping (modular) negation. Computes -self, wrapping around at the boundary of the type.  The only case
/// where such wrapping can occur is when one negates MIN on a signed type ... in such a case, this function returns MIN itself."
pub open spec fn wrapping_neg_i64(v: i64) -> i64 {
    if v == i64::MIN { v } else { (-(v as int)) as i64 }
}

pub assume_specification[ i64::wrapping_neg ](v: i64) -> (r: i64)
    ensures
        r == wrapping_neg_i64(v),
;

// ---------------------------------------------------------------------------------------------
// the contract shapes shared by all decoders
// ---------------------------------------------------------------------------------------------
/// `s1` is what is left of `s0` after consuming some prefix: a decoder never reads beyond its input and never rewinds
pub open spec fn suffix_of(s0: Seq<u8>, s1: Seq<u8>) -> bool {
    exists|j: nat| j <= s0.len() && s1 == #[trigger] s0.skip(j as int)
}

/// a decoder run on input `s0` that returned `res` and left `s1` unread behaves as the spec decoder result `d` says:
/// Some((v, k)): it returns Ok(v) and has consumed exactly the first k bytes;  None: it returns an error and has
/// consumed nothing but a prefix of the input
pub open spec fn read_post<T>(s0: Seq<u8>, s1: Seq<u8>, res: Result<T, Error>, d: Option<(T, nat)>) -> bool {
    match d {
        Some((v, k)) => res is Ok && res->Ok_0 == v && k <= s0.len() && s1 == s0.skip(k as int),
        None => res is Err && suffix_of(s0, s1),
    }
}

/// TOTAL (C10) as a property of a spec decoder result on input `s`: at least 1, at most 11 and never more than |s| bytes
pub open spec fn dec_bounded<T>(s: Seq<u8>, d: Option<(T, nat)>) -> bool {
    match d {
        Some((v, k)) => 1 <= k <= 11 && k <= s.len(),
        None => true,
    }
}

pub open spec fn dec_bump<T>(d: Option<(T, nat)>, j: nat) -> Option<(T, nat)> {
    match d {
        Some((v, k)) => Some((v, k + j)),
        None => None,
    }
}

pub open spec fn dec_map<T, U>(d: Option<(T, nat)>, f: spec_fn(T) -> Option<U>) -> Option<(U, nat)> {
    match d {
        Some((v, k)) => match f(v) { Some(u) => Some((u, k)), None => None },
        None => None,
    }
}

// ---------------------------------------------------------------------------------------------
// trait Write  (yrs/src/encoding/write.rs)
// ---------------------------------------------------------------------------------------------
pub trait Write: Sized {
    /// everything written so far
    spec fn out(&self) -> Seq<u8>;

    /*@extract yrs/src/encoding/write.rs | trait Write: Sized | fn write_all
    @sig
        ensures final(self).out() == old(self).out() + buf@,
    @*/

    /*@extract yrs/src/encoding/write.rs | trait Write: Sized | fn write_u8
    @sig
        ensures final(self).out() == old(self).out().push(value),
    @start
        proof { assert(old(self).out() + seq![value] =~= old(self).out().push(value)); }
    @*/

    /*@extract yrs/src/encoding/write.rs | trait Write: Sized | fn write_u16
    @sig
        ensures final(self).out() == old(self).out() + le16(num),
    @start
        proof {
            assert(num as u8 == (num % 256) as u8 && (num >> 8) as u8 == (num / 256 % 256) as u8) by(bit_vector);
            assert(seq![num as u8, (num >> 8) as u8] =~= le16(num));
        }
    @*/

    /*@extract yrs/src/encoding/write.rs | trait Write: Sized | fn write_u32
    @sig
        ensures final(self).out() == old(self).out() + le32(num),
    @start
        proof {
            assert(num as u8 == (num % 256) as u8 && (num >> 8) as u8 == (num / 256 % 256) as u8
                && (num >> 16) as u8 == (num / 65536 % 256) as u8 && (num >> 24) as u8 == (num / 16777216 % 256) as u8) by(bit_vector);
            assert(seq![num as u8, (num >> 8) as u8, (num >> 16) as u8, (num >> 24) as u8] =~= le32(num));
        }
    @*/

    /*@extract yrs/src/encoding/write.rs | trait Write: Sized | fn write_u32_be
    @sig
        ensures final(self).out() == old(self).out() + be32(num),
    @start
        proof {
            assert(num as u8 == (num % 256) as u8 && (num >> 8) as u8 == (num / 256 % 256) as u8
                && (num >> 16) as u8 == (num / 65536 % 256) as u8 && (num >> 24) as u8 == (num / 16777216 % 256) as u8) by(bit_vector);
            assert(seq![(num >> 24) as u8, (num >> 16) as u8, (num >> 8) as u8, num as u8] =~= be32(num));
        }
    @*/
}

impl Write for Vec<u8> {
    open spec fn out(&self) -> Seq<u8> {
        self@
    }

    /*@extract yrs/src/encoding/write.rs | impl Write for Vec<u8> | fn write_all @*/

    /*@extract yrs/src/encoding/write.rs | impl Write for Vec<u8> | fn write_u8 @*/
}

// ---------------------------------------------------------------------------------------------
// trait Read  (yrs/src/encoding/read.rs)
// ---------------------------------------------------------------------------------------------
pub trait Read: Sized {
    /// the unread part of the input
    spec fn rest(&self) -> Seq<u8>;

    /// representation invariant of the reader (for `Cursor`: next <= buf.len())
    spec fn wf(&self) -> bool;

    // total for EVERY `len`: a request that does not fit is an error and leaves the reader unchanged
    /*@extract yrs/src/encoding/read.rs | trait Read: Sized | fn read_exact
    @ret r
    @sig
        requires
            old(self).wf(),
        ensures
            final(self).wf(),
            match r {
                Ok(s) => len <= old(self).rest().len() && s@ == old(self).rest().take(len as int)
                    && final(self).rest() == old(self).rest().skip(len as int),
                Err(_) => len > old(self).rest().len() && final(self).rest() == old(self).rest(),
            },
    @*/

    /*@extract yrs/src/encoding/read.rs | trait Read: Sized | fn read_u8
    @ret r
    @sig
        requires
            old(self).wf(),
        ensures
            final(self).wf(),
            match r {
                Ok(b) => 1 <= old(self).rest().len() && b == old(self).rest()[0] && final(self).rest() == old(self).rest().skip(1),
                Err(_) => old(self).rest().len() == 0 && final(self).rest() == old(self).rest(),
            },
    @*/

    /*@extract yrs/src/encoding/read.rs | trait Read: Sized | fn read_u16
    @ret r
    @sig
        requires
            old(self).wf(),
        ensures
            final(self).wf(),
            match r {
                Ok(v) => 2 <= old(self).rest().len() && v == val_le16(old(self).rest()) && final(self).rest() == old(self).rest().skip(2),
                Err(_) => old(self).rest().len() < 2 && final(self).rest() == old(self).rest(),
            },
    @before 1 `stmt:call Ok`
        proof {
            let b0 = buf[0];
            let b1 = buf[1];
            assert((b0 as u16 | ((b1 as u16) << 8)) == b0 as u16 + 256 * (b1 as u16)) by(bit_vector);
        }
    @*/

    /*@extract yrs/src/encoding/read.rs | trait Read: Sized | fn read_u32
    @ret r
    @sig
        requires
            old(self).wf(),
        ensures
            final(self).wf(),
            match r {
                Ok(v) => 4 <= old(self).rest().len() && v == val_le32(old(self).rest()) && final(self).rest() == old(self).rest().skip(4),
                Err(_) => old(self).rest().len() < 4 && final(self).rest() == old(self).rest(),
            },
    @before 1 `stmt:call Ok`
        proof {
            let b0 = buf[0];
            let b1 = buf[1];
            let b2 = buf[2];
            let b3 = buf[3];
            assert((b0 as u32 | (b1 as u32) << 8 | (b2 as u32) << 16 | (b3 as u32) << 24)
                == b0 as u32 + 256 * (b1 as u32) + 65536 * (b2 as u32) + 16777216 * (b3 as u32)) by(bit_vector);
        }
    @*/

    /*@extract yrs/src/encoding/read.rs | trait Read: Sized | fn read_u32_be
    @ret r
    @sig
        requires
            old(self).wf(),
        ensures
            final(self).wf(),
            match r {
                Ok(v) => 4 <= old(self).rest().len() && v == val_be32(old(self).rest()) && final(self).rest() == old(self).rest().skip(4),
                Err(_) => old(self).rest().len() < 4 && final(self).rest() == old(self).rest(),
            },
    @before 1 `stmt:call Ok`
        proof {
            let b0 = buf[0];
            let b1 = buf[1];
            let b2 = buf[2];
            let b3 = buf[3];
            assert(((b0 as u32) << 24 | (b1 as u32) << 16 | (b2 as u32) << 8 | b3 as u32)
                == b3 as u32 + 256 * (b2 as u32) + 65536 * (b1 as u32) + 16777216 * (b0 as u32)) by(bit_vector);
        }
    @*/
}

// ---------------------------------------------------------------------------------------------
// traits VarInt / SignedVarInt  (yrs/src/encoding/varint.rs)
// ---------------------------------------------------------------------------------------------
pub trait VarInt: Sized + Copy {
    /// the lib0 encoding of the value
    spec fn enc(&self) -> Seq<u8>;

    /// what `read` computes on an arbitrary byte string: None = error, Some((v, k)) = value v from the first k bytes
    spec fn dec(s: Seq<u8>) -> Option<(Self, nat)>;

    /*@extract yrs/src/encoding/varint.rs | trait VarInt: Sized + Copy | fn write
    @sig
        ensures final(w).out() == old(w).out() + self.enc(),
    @*/

    /*@extract yrs/src/encoding/varint.rs | trait VarInt: Sized + Copy | fn read
    @ret res
    @sig
        requires
            old(r).wf(),
        ensures
            final(r).wf(),
            read_post(old(r).rest(), final(r).rest(), res, Self::dec(old(r).rest())),
    @*/

    /// C10: on ANY input the decoder consumes between 1 and 11 bytes, never more than there are
    proof fn law_dec_bounded(s: Seq<u8>)
        ensures dec_bounded(s, Self::dec(s));

    /// C09: decoding the encoding of `v`, followed by anything, yields `v` and stops exactly behind the encoding
    proof fn law_dec_enc(v: Self, tail: Seq<u8>)
        ensures Self::dec(v.enc() + tail) == Some((v, v.enc().len()));
}

// field visibility only: the contracts of the public accessors mention the fields (cf. R10)
/*@extract yrs/src/encoding/varint.rs | - | struct Signed | rules=SUB(from=value: T;;to=pub value: T) SUB(from=is_negative: bool;;to=pub is_negative: bool) @*/

impl<T: Sized + Copy> Signed<T> {
    /*@extract yrs/src/encoding/varint.rs | impl<T: Sized + Copy> Signed<T> | fn new
    @ret r
    @sig
        ensures r == (Signed { value, is_negative }),
    @*/

    /*@extract yrs/src/encoding/varint.rs | impl<T: Sized + Copy> Signed<T> | fn is_positive
    @ret r
    @sig
        ensures r == !self.is_negative,
    @*/

    /*@extract yrs/src/encoding/varint.rs | impl<T: Sized + Copy> Signed<T> | fn is_negative
    @ret r
    @sig
        ensures r == self.is_negative,
    @*/

    /*@extract yrs/src/encoding/varint.rs | impl<T: Sized + Copy> Signed<T> | fn value
    @ret r
    @sig
        ensures r == self.value,
    @*/
}

pub trait SignedVarInt: Sized + Copy {
    /// the lib0 encoding of a (value, sign flag) pair
    spec fn enc_signed(s: &Signed<Self>) -> Seq<u8>;

    /// what `read_signed` computes on an arbitrary byte string
    spec fn dec_signed(s: Seq<u8>) -> Option<(Signed<Self>, nat)>;

    /// the sign flag agrees with the value (`-0` = (0, true) included): the domain on which encode/decode round-trips.
    /// DOMAIN RESTRICTION: `Signed::new(5, true)` is written as -5 and read back as Signed(-5, true).
    spec fn signed_wf(s: &Signed<Self>) -> bool;

    /*@extract yrs/src/encoding/varint.rs | trait SignedVarInt: Sized + Copy | fn write_signed
    @sig
        ensures final(w).out() == old(w).out() + Self::enc_signed(value),
    @*/

    /*@extract yrs/src/encoding/varint.rs | trait SignedVarInt: Sized + Copy | fn read_signed
    @ret res
    @sig
        requires
            old(r).wf(),
        ensures
            final(r).wf(),
            read_post(old(r).rest(), final(r).rest(), res, Self::dec_signed(old(r).rest())),
    @*/

    proof fn law_dec_signed_bounded(s: Seq<u8>)
        ensures dec_bounded(s, Self::dec_signed(s));

    proof fn law_dec_enc_signed(v: Signed<Self>, tail: Seq<u8>)
        requires Self::signed_wf(&v),
        ensures Self::dec_signed(Self::enc_signed(&v) + tail) == Some((v, Self::enc_signed(&v).len()));
}

// ---------------------------------------------------------------------------------------------
// extension traits (see SLICING above)
// ---------------------------------------------------------------------------------------------
pub trait WriteExt: Write {
    /*@extract yrs/src/encoding/write.rs | trait Write: Sized | fn write_var
    @sig
        ensures final(self).out() == old(self).out() + num.enc(),
    @*/

    /*@extract yrs/src/encoding/write.rs | trait Write: Sized | fn write_var_signed
    @sig
        ensures final(self).out() == old(self).out() + T::enc_signed(num),
    @*/

    // AR: `B: AsRef<[u8]>` is replaced by the local trait `VxBytes` (below), see there
    /*@extract yrs/src/encoding/write.rs | trait Write: Sized | fn write_buf | rules=SUB(from=AsRef<[u8]>;;to=VxBytes)
    @sig
        ensures final(self).out() == old(self).out() + enc_buf(buf.bytes()),
    @start
        let ghost b = buf.bytes();
    @before 1 `stmt:call write_all`
        proof {
            assert(old(self).out() + enc_uint(b.len()) + b =~= old(self).out() + enc_buf(b));
        }
    @*/
}

// AR: Verus has no specification for std's `AsRef` (an external trait).  `VxBytes` is a local stand-in with the same
// method name, implemented for the byte containers this layer passes to `write_buf` (`Vec<u8>`, `[u8]`, references to
// those — the impls std provides); `as_ref` returns exactly the container's bytes, as std documents.  The impl bodies
// are verified, not trusted; what is trusted is that std's `AsRef<[u8]>` impls for these types behave the same.
pub trait VxBytes {
    spec fn bytes(&self) -> Seq<u8>;

    fn as_ref(&self) -> (r: &[u8])
        ensures r@ == self.bytes();
}

impl VxBytes for Vec<u8> {
    open spec fn bytes(&self) -> Seq<u8> {
        self@
    }

    fn as_ref(&self) -> (r: &[u8]) {
        self.as_slice()
    }
}

impl VxBytes for [u8] {
    open spec fn bytes(&self) -> Seq<u8> {
        self@
    }

    fn as_ref(&self) -> (r: &[u8]) {
        self
    }
}

impl<T: VxBytes + ?Sized> VxBytes for &T {
    open spec fn bytes(&self) -> Seq<u8> {
        (**self).bytes()
    }

    fn as_ref(&self) -> (r: &[u8]) {
        (**self).as_ref()
    }
}

impl<W: Write> WriteExt for W {}

pub trait ReadExt: Read {
    /*@extract yrs/src/encoding/read.rs | trait Read: Sized | fn read_var
    @ret res
    @sig
        requires
            old(self).wf(),
        ensures
            final(self).wf(),
            read_post(old(self).rest(), final(self).rest(), res, T::dec(old(self).rest())),
    @*/

    /*@extract yrs/src/encoding/read.rs | trait Read: Sized | fn read_var_signed
    @ret res
    @sig
        requires
            old(self).wf(),
        ensures
            final(self).wf(),
            read_post(old(self).rest(), final(self).rest(), res, T::dec_signed(old(self).rest())),
    @*/

    /*@extract yrs/src/encoding/read.rs | trait Read: Sized | fn read_buf
    @ret res
    @sig
        requires
            old(self).wf(),
        ensures
            final(self).wf(),
            match dec_buf(old(self).rest()) {
                Some((b, k)) => res is Ok && res->Ok_0@ == b && k <= old(self).rest().len() && final(self).rest() == old(self).rest().skip(k as int),
                None => res is Err && suffix_of(old(self).rest(), final(self).rest()),
            },
    @start
        let ghost s0 = self.rest();
    @before 1 `stmt:call read_exact`
        proof {
            let k = dec_u32(s0)->Some_0.1;
            if k + len <= s0.len() {
                assert(s0.skip(k as int).take(len as int) =~= s0.subrange(k as int, k + len));
                assert(s0.skip(k as int).skip(len as int) =~= s0.skip(k + len));
            }
        }
    @*/
}

impl<R: Read> ReadExt for R {}

// ---------------------------------------------------------------------------------------------
// Cursor  (yrs/src/encoding/read.rs)
// ---------------------------------------------------------------------------------------------
/*@extract yrs/src/encoding/read.rs | - | struct Cursor @*/

impl<'a> Cursor<'a> {
    /*@extract yrs/src/encoding/read.rs | impl<'a> Cursor<'a> | fn new
    @ret r
    @sig
        ensures
            r.wf(),
            r.rest() == buf@,
            r.buf == buf,
            r.next == 0,
    @*/

    /*@extract yrs/src/encoding/read.rs | impl<'a> Cursor<'a> | fn has_content
    @ret r
    @sig
        requires
            self.wf(),
        ensures
            r == (self.rest().len() > 0),
    @*/
}

impl<'a> Read for Cursor<'a> {
    open spec fn rest(&self) -> Seq<u8> {
        self.buf@.skip(self.next as int)
    }

    /// the fields of `Cursor` are pub, so `next <= buf.len()` is not enforced by the type: it is established by
    /// `Cursor::new`, required and preserved by every `Read` method
    open spec fn wf(&self) -> bool {
        self.next <= self.buf@.len()
    }

    // (a `Some(end) if end <= self.buf.len() =>` match guard is NOT provable with this Verus: a guard that reads through
    // `&mut self` followed by an assignment through it loses `final(self)`; /repo uses `if` since 37f6eed)
    /*@extract yrs/src/encoding/read.rs | impl<'a> Read for Cursor<'a> | fn read_exact
    @start
        let ghost s0 = self.buf@;
        let ghost n0 = self.next as int;
        proof {
            // vstd: the length of a slice is a usize
            assert(spec_slice_len(self.buf) == s0.len());
        }
    @before 1 `stmt:call Ok`
        proof {
            assert(s0.subrange(n0, n0 + len) =~= s0.skip(n0).take(len as int));
            assert(s0.skip(n0 + len) =~= s0.skip(n0).skip(len as int));
        }
    @*/

    // RP: Verus rejects the reference pattern `Some(&b)`; it is desugared to `Some(b)` + `*b` (u8 is Copy)
    /*@extract yrs/src/encoding/read.rs | impl<'a> Read for Cursor<'a> | fn read_u8 | rules=SUB(from=Some(&b);;to=Some(b)) SUB(from=Ok(b);;to=Ok(*b))
    @start
        let ghost s0 = self.buf@;
        let ghost n0 = self.next as int;
        proof {
            // vstd: the length of a slice is a usize
            assert(spec_slice_len(self.buf) == s0.len());
        }
    @before 1 `stmt:call Ok`
        proof {
            assert(s0.skip(n0 + 1) =~= s0.skip(n0).skip(1));
        }
    @*/
}
